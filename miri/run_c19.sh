#!/bin/bash
exec "$(dirname "$0")/run_shards.sh" c19
