#!/bin/bash
# miri/run_shards.sh <c19|c20> — sanitizer shard of the thorough tier: runs harness/src/bin/miri_shard.rs
# under Miri in parallel processes and merges what it observed into evidence/<ID>.json.
# Verdicts: Miri "Undefined Behavior" / data race report or a behavioural mismatch  -> VIOLATION (exit 1)
#           Miri cannot build / unsupported operation / timeout                      -> inconclusive (exit 0, noted)
set -u
kind="${1:?c19|c20}"
ID="$(echo "$kind" | tr 'a-z' 'A-Z')"
here="$(cd "$(dirname "$0")/.." && pwd)"
seed="${VERIF_SEED:-1}"
shards="${MIRI_SHARDS:-16}"
per="${MIRI_PER_SHARD:-40}"
out="$here/replays/$ID"
mkdir -p "$out"
cd "$here/harness" || exit 0
export CARGO_TARGET_DIR="$here/harness/target/miri" CARGO_NET_OFFLINE=true
export MIRIFLAGS="${MIRIFLAGS:-}"
t0=$(date +%s)
# build once (serial), then run the shards in parallel
if ! timeout 900 cargo +nightly miri run --offline --bin miri_shard -- "$kind" "$seed" 0 1 >"$out/miri-build.log" 2>&1; then
  if grep -q "Undefined Behavior\|Data race" "$out/miri-build.log"; then
    echo "VIOLATION property=$ID replay=$out/miri-build.log"
    grep -A12 "Undefined Behavior\|Data race" "$out/miri-build.log" | head -30
    exit 1
  fi
  echo "MIRI-INCONCLUSIVE property=$ID Miri shard could not be built/started (see $out/miri-build.log); no verdict from the sanitizer shard"
  python3 - "$here/evidence/$ID.json" <<'PY'
import json,sys
p=sys.argv[1]
try:
    e=json.load(open(p)); e['coverage']['miri_shard']={'status':'inconclusive: could not build/start'}; json.dump(e,open(p,'w'),indent=1)
except Exception as ex: print('evidence not updated:',ex)
PY
  exit 0
fi
pids=()
for s in $(seq 0 $((shards-1))); do
  start=$((1 + s*per))
  ( timeout 1500 cargo +nightly miri run --offline --bin miri_shard -- "$kind" "$seed" "$start" "$per" >"$out/miri-$seed-$s.log" 2>&1; echo "exit=$?" >>"$out/miri-$seed-$s.log" ) &
  pids+=($!)
done
for p in "${pids[@]}"; do wait "$p"; done
t1=$(date +%s)
rc=0; ok=0; ub=0; mism=0; inc=0; steps=0
for s in $(seq 0 $((shards-1))); do
  f="$out/miri-$seed-$s.log"
  if grep -q "Undefined Behavior\|Data race detected" "$f"; then
    ub=$((ub+1)); rc=1
    echo "VIOLATION property=$ID replay=$f"
    grep -B2 -A14 "Undefined Behavior\|Data race detected" "$f" | head -40
  elif grep -q "^SHARD-MISMATCH" "$f"; then
    mism=$((mism+1)); rc=1
    echo "VIOLATION property=$ID replay=$f"
    grep "^SHARD-MISMATCH" "$f" | cut -c1-600
  elif grep -q "^SHARD-OK" "$f"; then
    ok=$((ok+1))
    st=$(grep "^SHARD-OK" "$f" | sed 's/.*steps=//')
    steps=$((steps+st))
  else
    inc=$((inc+1))
    echo "MIRI-INCONCLUSIVE property=$ID shard $s gave no verdict (timeout / unsupported operation), see $f"
  fi
done
echo "$ID miri-shard seed=$seed shards=$shards ok=$ok programs=$((ok*per)) steps=$steps ub_reports=$ub mismatches=$mism inconclusive=$inc wall=$((t1-t0))s"
python3 - "$here/evidence/$ID.json" "$ok" "$per" "$steps" "$ub" "$mism" "$inc" "$((t1-t0))" <<'PY'
import json,sys
p=sys.argv[1]; ok,per,steps,ub,mism,inc,wall=map(int,sys.argv[2:9])
try:
    e=json.load(open(p))
    e['coverage']['miri_shard']={'tool':'cargo +nightly miri run (miri_shard.rs)','shards_with_verdict_ok':ok,'programs_executed_under_miri':ok*per,'steps_or_roundtrips':steps,'undefined_behaviour_reports':ub,'behavioural_mismatches':mism,'inconclusive_shards':inc,'wall_s':wall}
    if ub+mism>0: e['violations']=e.get('violations',0)+ub+mism
    json.dump(e,open(p,'w'),indent=1)
except Exception as ex: print('evidence not updated:',ex)
PY
exit $rc
