//! Parameter builders: the value configured by every `with_*` step must survive whatever order the steps are
//! applied in (a builder step that rebuilds the struct from `Default` or from a new type parameter silently
//! resets the others). One family per property, called from the property's monitor.

use crate::runner::Case;
use serde_json::json;
use smartcore::algorithm::neighbour::KNNAlgorithmName;
use smartcore::cluster::dbscan::DBSCANParameters;
use smartcore::cluster::kmeans::KMeansParameters;
use smartcore::decomposition::pca::PCAParameters;
use smartcore::decomposition::svd::SVDParameters;
use smartcore::ensemble::random_forest_classifier::RandomForestClassifierParameters;
use smartcore::ensemble::random_forest_regressor::RandomForestRegressorParameters;
use smartcore::linalg::naive::dense_matrix::DenseMatrix;
use smartcore::linear::elastic_net::ElasticNetParameters;
use smartcore::linear::lasso::LassoParameters;
use smartcore::linear::linear_regression::{LinearRegressionParameters, LinearRegressionSolverName};
use smartcore::linear::logistic_regression::{LogisticRegressionParameters, LogisticRegressionSolverName};
use smartcore::linear::ridge_regression::{RidgeRegressionParameters, RidgeRegressionSolverName};
use smartcore::math::distance::Distances;
use smartcore::model_selection::KFold;
use smartcore::naive_bayes::bernoulli::BernoulliNBParameters;
use smartcore::naive_bayes::categorical::CategoricalNBParameters;
use smartcore::naive_bayes::gaussian::GaussianNBParameters;
use smartcore::naive_bayes::multinomial::MultinomialNBParameters;
use smartcore::svm::svc::SVCParameters;
use smartcore::svm::svr::SVRParameters;
use smartcore::svm::Kernels;
use smartcore::tree::decision_tree_classifier::{DecisionTreeClassifierParameters, SplitCriterion};
use smartcore::tree::decision_tree_regressor::DecisionTreeRegressorParameters;

type Step<P> = (&'static str, Box<dyn Fn(P) -> P>);

fn run<P>(c: &mut Case, ty: &str, make: &dyn Fn() -> P, steps: Vec<Step<P>>, verify: &dyn Fn(&P) -> Result<(), String>) {
    let order = c.rng.perm(steps.len());
    let names: Vec<&str> = order.iter().map(|&i| steps[i].0).collect();
    let mut p = make();
    for &i in &order {
        p = (steps[i].1)(p);
    }
    let r = verify(&p);
    c.check(&format!("builder.keeps-configured-values:{}", ty), r.is_ok(), ty, || format!("steps applied in the order {:?}: {}", names, r.clone().err().unwrap_or_default()));
    c.bucket(&format!("builder:{}", ty));
    c.nontrivial();
}

fn dbg<T: std::fmt::Debug>(x: &T) -> String {
    format!("{:?}", x)
}

fn want<T: PartialEq + std::fmt::Debug>(name: &str, got: &T, exp: &T) -> Result<(), String> {
    if got == exp {
        Ok(())
    } else {
        Err(format!("{} is {:?}, configured {:?}", name, got, exp))
    }
}

/// One case: draws values, applies the builder steps of every parameter type owned by `pid` in a drawn order.
pub fn case(c: &mut Case, pid: &str) {
    let alpha = c.rng.logu(1e-3, 10.0);
    let tol = c.rng.logu(1e-6, 1e-2);
    let ratio = c.rng.uni(0.05, 0.95);
    let flag = c.rng.bool(0.5);
    let flag2 = c.rng.bool(0.5);
    let ka = c.rng.us(2, 9);
    let kb = c.rng.us(2, 50);
    let kc = c.rng.us(1, 7);
    let depth = c.rng.us(1, 12) as u16;
    let seed = c.rng.next_u64();
    let pri: Vec<f64> = vec![0.25, 0.75];
    c.describe(json!({"builders-of": pid, "alpha": alpha, "tol": tol, "ratio": ratio, "flag": flag, "flag2": flag2, "ka": ka, "kb": kb, "kc": kc, "depth": depth, "seed": seed.to_string()}));
    match pid {
        "C07" => {
            let solver = if flag { RidgeRegressionSolverName::SVD } else { RidgeRegressionSolverName::Cholesky };
            let sd = dbg(&solver);
            let s2 = solver.clone();
            run(c, "RidgeRegressionParameters", &|| RidgeRegressionParameters::<f64>::default(),
                vec![("with_alpha", Box::new(move |p: RidgeRegressionParameters<f64>| p.with_alpha(alpha))), ("with_normalize", Box::new(move |p: RidgeRegressionParameters<f64>| p.with_normalize(flag2))), ("with_solver", Box::new(move |p: RidgeRegressionParameters<f64>| p.with_solver(s2.clone())))],
                &|p| want("alpha", &p.alpha, &alpha).and(want("normalize", &p.normalize, &flag2)).and(want("solver", &dbg(&p.solver), &sd)));
            let ls = if flag { LinearRegressionSolverName::SVD } else { LinearRegressionSolverName::QR };
            let lsd = dbg(&ls);
            run(c, "LinearRegressionParameters", &|| LinearRegressionParameters::default(), vec![("with_solver", Box::new(move |p: LinearRegressionParameters| p.with_solver(ls.clone())))], &|p| want("solver", &dbg(&p.solver), &lsd));
        }
        "C08" => {
            run(c, "LassoParameters", &|| LassoParameters::<f64>::default(),
                vec![("with_alpha", Box::new(move |p: LassoParameters<f64>| p.with_alpha(alpha))), ("with_normalize", Box::new(move |p: LassoParameters<f64>| p.with_normalize(flag))), ("with_tol", Box::new(move |p: LassoParameters<f64>| p.with_tol(tol))), ("with_max_iter", Box::new(move |p: LassoParameters<f64>| p.with_max_iter(kb)))],
                &|p| want("alpha", &p.alpha, &alpha).and(want("normalize", &p.normalize, &flag)).and(want("tol", &p.tol, &tol)).and(want("max_iter", &p.max_iter, &kb)));
            run(c, "ElasticNetParameters", &|| ElasticNetParameters::<f64>::default(),
                vec![("with_alpha", Box::new(move |p: ElasticNetParameters<f64>| p.with_alpha(alpha))), ("with_l1_ratio", Box::new(move |p: ElasticNetParameters<f64>| p.with_l1_ratio(ratio))), ("with_normalize", Box::new(move |p: ElasticNetParameters<f64>| p.with_normalize(flag))), ("with_tol", Box::new(move |p: ElasticNetParameters<f64>| p.with_tol(tol))), ("with_max_iter", Box::new(move |p: ElasticNetParameters<f64>| p.with_max_iter(kb)))],
                &|p| want("alpha", &p.alpha, &alpha).and(want("l1_ratio", &p.l1_ratio, &ratio)).and(want("normalize", &p.normalize, &flag)).and(want("tol", &p.tol, &tol)).and(want("max_iter", &p.max_iter, &kb)));
        }
        "C09" => {
            run(c, "LogisticRegressionParameters", &|| LogisticRegressionParameters::<f64>::default(),
                vec![("with_alpha", Box::new(move |p: LogisticRegressionParameters<f64>| p.with_alpha(alpha))), ("with_solver", Box::new(move |p: LogisticRegressionParameters<f64>| p.with_solver(LogisticRegressionSolverName::LBFGS)))],
                &|p| want("alpha", &p.alpha, &alpha));
        }
        "C10" => {
            type DM = DenseMatrix<f64>;
            run(c, "SVCParameters", &|| SVCParameters::<f64, DM, _>::default().with_kernel(Kernels::rbf(0.7)),
                vec![("with_c", Box::new(move |p: SVCParameters<f64, DM, _>| p.with_c(alpha))), ("with_tol", Box::new(move |p: SVCParameters<f64, DM, _>| p.with_tol(tol))), ("with_epoch", Box::new(move |p: SVCParameters<f64, DM, _>| p.with_epoch(ka))), ("with_kernel", Box::new(move |p: SVCParameters<f64, DM, _>| p.with_kernel(Kernels::rbf(ratio))))],
                &|p| want("c", &p.c, &alpha).and(want("tol", &p.tol, &tol)).and(want("epoch", &p.epoch, &ka)).and(want("kernel.gamma", &p.kernel.gamma, &ratio)));
            run(c, "SVRParameters", &|| SVRParameters::<f64, DM, _>::default().with_kernel(Kernels::rbf(0.7)),
                vec![("with_c", Box::new(move |p: SVRParameters<f64, DM, _>| p.with_c(alpha))), ("with_tol", Box::new(move |p: SVRParameters<f64, DM, _>| p.with_tol(tol))), ("with_eps", Box::new(move |p: SVRParameters<f64, DM, _>| p.with_eps(ratio))), ("with_kernel", Box::new(move |p: SVRParameters<f64, DM, _>| p.with_kernel(Kernels::rbf(ratio))))],
                &|p| want("c", &p.c, &alpha).and(want("tol", &p.tol, &tol)).and(want("eps", &p.eps, &ratio)).and(want("kernel.gamma", &p.kernel.gamma, &ratio)));
        }
        "C11" => {
            let pr = pri.clone();
            let pr2 = pri.clone();
            run(c, "BernoulliNBParameters", &|| BernoulliNBParameters::<f64>::default(),
                vec![("with_alpha", Box::new(move |p: BernoulliNBParameters<f64>| p.with_alpha(alpha))), ("with_priors", Box::new(move |p: BernoulliNBParameters<f64>| p.with_priors(pr.clone()))), ("with_binarize", Box::new(move |p: BernoulliNBParameters<f64>| p.with_binarize(ratio)))],
                &|p| want("alpha", &p.alpha, &alpha).and(want("priors", &p.priors, &Some(pr2.clone()))).and(want("binarize", &p.binarize, &Some(ratio))));
            let pr = pri.clone();
            let pr2 = pri.clone();
            run(c, "MultinomialNBParameters", &|| MultinomialNBParameters::<f64>::default(),
                vec![("with_alpha", Box::new(move |p: MultinomialNBParameters<f64>| p.with_alpha(alpha))), ("with_priors", Box::new(move |p: MultinomialNBParameters<f64>| p.with_priors(pr.clone())))],
                &|p| want("alpha", &p.alpha, &alpha).and(want("priors", &p.priors, &Some(pr2.clone()))));
            let pr = pri.clone();
            let pr2 = pri.clone();
            run(c, "GaussianNBParameters", &|| GaussianNBParameters::<f64>::default(), vec![("with_priors", Box::new(move |p: GaussianNBParameters<f64>| p.with_priors(pr.clone())))], &|p| want("priors", &p.priors, &Some(pr2.clone())));
            run(c, "CategoricalNBParameters", &|| CategoricalNBParameters::<f64>::default(), vec![("with_alpha", Box::new(move |p: CategoricalNBParameters<f64>| p.with_alpha(alpha)))], &|p| want("alpha", &p.alpha, &alpha));
        }
        "C12" => {
            run(c, "KMeansParameters", &|| KMeansParameters::default(), vec![("with_k", Box::new(move |p: KMeansParameters| p.with_k(ka))), ("with_max_iter", Box::new(move |p: KMeansParameters| p.with_max_iter(kb)))], &|p| want("k", &p.k, &ka).and(want("max_iter", &p.max_iter, &kb)));
        }
        "C13" => {
            let alg = if flag { KNNAlgorithmName::CoverTree } else { KNNAlgorithmName::LinearSearch };
            let ad = dbg(&alg);
            run(c, "DBSCANParameters", &|| DBSCANParameters::<f64, _>::default().with_distance(Distances::manhattan()),
                vec![("with_eps", Box::new(move |p: DBSCANParameters<f64, _>| p.with_eps(alpha))), ("with_min_samples", Box::new(move |p: DBSCANParameters<f64, _>| p.with_min_samples(ka))), ("with_algorithm", Box::new(move |p: DBSCANParameters<f64, _>| p.with_algorithm(alg.clone()))), ("with_distance", Box::new(move |p: DBSCANParameters<f64, _>| p.with_distance(Distances::manhattan())))],
                &|p| want("eps", &p.eps, &alpha).and(want("min_samples", &p.min_samples, &ka)).and(want("algorithm", &dbg(&p.algorithm), &ad)));
        }
        "C14" => {
            run(c, "PCAParameters", &|| PCAParameters::default(), vec![("with_n_components", Box::new(move |p: PCAParameters| p.with_n_components(ka))), ("with_use_correlation_matrix", Box::new(move |p: PCAParameters| p.with_use_correlation_matrix(flag)))], &|p| want("n_components", &p.n_components, &ka).and(want("use_correlation_matrix", &p.use_correlation_matrix, &flag)));
            run(c, "SVDParameters", &|| SVDParameters::default(), vec![("with_n_components", Box::new(move |p: SVDParameters| p.with_n_components(ka)))], &|p| want("n_components", &p.n_components, &ka));
        }
        "C16" => {
            run(c, "KFold", &|| KFold::default(), vec![("with_n_splits", Box::new(move |p: KFold| p.with_n_splits(ka))), ("with_shuffle", Box::new(move |p: KFold| p.with_shuffle(flag)))], &|p| want("n_splits", &p.n_splits, &ka).and(want("shuffle", &p.shuffle, &flag)));
        }
        "C05" | "C06" => {
            let crit = match kc % 3 {
                0 => SplitCriterion::Gini,
                1 => SplitCriterion::Entropy,
                _ => SplitCriterion::ClassificationError,
            };
            let cd = dbg(&crit);
            if pid == "C05" {
                let cr = crit.clone();
                let cd2 = cd.clone();
                run(c, "DecisionTreeClassifierParameters", &|| DecisionTreeClassifierParameters::default(),
                    vec![("with_criterion", Box::new(move |p: DecisionTreeClassifierParameters| p.with_criterion(cr.clone()))), ("with_max_depth", Box::new(move |p: DecisionTreeClassifierParameters| p.with_max_depth(depth))), ("with_min_samples_leaf", Box::new(move |p: DecisionTreeClassifierParameters| p.with_min_samples_leaf(kc))), ("with_min_samples_split", Box::new(move |p: DecisionTreeClassifierParameters| p.with_min_samples_split(ka)))],
                    &|p| want("criterion", &dbg(&p.criterion), &cd2).and(want("max_depth", &p.max_depth, &Some(depth))).and(want("min_samples_leaf", &p.min_samples_leaf, &kc)).and(want("min_samples_split", &p.min_samples_split, &ka)));
                run(c, "DecisionTreeRegressorParameters", &|| DecisionTreeRegressorParameters::default(),
                    vec![("with_max_depth", Box::new(move |p: DecisionTreeRegressorParameters| p.with_max_depth(depth))), ("with_min_samples_leaf", Box::new(move |p: DecisionTreeRegressorParameters| p.with_min_samples_leaf(kc))), ("with_min_samples_split", Box::new(move |p: DecisionTreeRegressorParameters| p.with_min_samples_split(ka)))],
                    &|p| want("max_depth", &p.max_depth, &Some(depth)).and(want("min_samples_leaf", &p.min_samples_leaf, &kc)).and(want("min_samples_split", &p.min_samples_split, &ka)));
            } else {
                let cr = crit.clone();
                let nt = kb as u16;
                run(c, "RandomForestClassifierParameters", &|| RandomForestClassifierParameters::default(),
                    vec![("with_criterion", Box::new(move |p: RandomForestClassifierParameters| p.with_criterion(cr.clone()))), ("with_max_depth", Box::new(move |p: RandomForestClassifierParameters| p.with_max_depth(depth))), ("with_min_samples_leaf", Box::new(move |p: RandomForestClassifierParameters| p.with_min_samples_leaf(kc))), ("with_min_samples_split", Box::new(move |p: RandomForestClassifierParameters| p.with_min_samples_split(ka))), ("with_n_trees", Box::new(move |p: RandomForestClassifierParameters| p.with_n_trees(nt))), ("with_m", Box::new(move |p: RandomForestClassifierParameters| p.with_m(kc))), ("with_keep_samples", Box::new(move |p: RandomForestClassifierParameters| p.with_keep_samples(flag))), ("with_seed", Box::new(move |p: RandomForestClassifierParameters| p.with_seed(seed)))],
                    &|p| want("criterion", &dbg(&p.criterion), &cd).and(want("max_depth", &p.max_depth, &Some(depth))).and(want("min_samples_leaf", &p.min_samples_leaf, &kc)).and(want("min_samples_split", &p.min_samples_split, &ka)).and(want("n_trees", &p.n_trees, &nt)).and(want("m", &p.m, &Some(kc))).and(want("keep_samples", &p.keep_samples, &flag)).and(want("seed", &p.seed, &seed)));
                run(c, "RandomForestRegressorParameters", &|| RandomForestRegressorParameters::default(),
                    vec![("with_max_depth", Box::new(move |p: RandomForestRegressorParameters| p.with_max_depth(depth))), ("with_min_samples_leaf", Box::new(move |p: RandomForestRegressorParameters| p.with_min_samples_leaf(kc))), ("with_min_samples_split", Box::new(move |p: RandomForestRegressorParameters| p.with_min_samples_split(ka))), ("with_n_trees", Box::new(move |p: RandomForestRegressorParameters| p.with_n_trees(kb))), ("with_m", Box::new(move |p: RandomForestRegressorParameters| p.with_m(kc))), ("with_keep_samples", Box::new(move |p: RandomForestRegressorParameters| p.with_keep_samples(flag))), ("with_seed", Box::new(move |p: RandomForestRegressorParameters| p.with_seed(seed)))],
                    &|p| want("max_depth", &p.max_depth, &Some(depth)).and(want("min_samples_leaf", &p.min_samples_leaf, &kc)).and(want("min_samples_split", &p.min_samples_split, &ka)).and(want("n_trees", &p.n_trees, &kb)).and(want("m", &p.m, &Some(kc))).and(want("keep_samples", &p.keep_samples, &flag)).and(want("seed", &p.seed, &seed)));
            }
        }
        _ => {}
    }
}
