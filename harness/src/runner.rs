//! Case runner: partitions cases over worker threads, catches and classifies panics, keeps a
//! wall-clock watchdog (timeouts are *inconclusive*, never violations), aggregates what the monitors
//! observed, matches violations against /verif/known_findings.json, writes evidence and replay files.

use crate::rng::{hash_str, Rng};
use serde_json::{json, Value};
use std::cell::RefCell;
use std::collections::{BTreeMap, BTreeSet, HashSet};
use std::panic::{catch_unwind, AssertUnwindSafe};
use std::sync::atomic::{AtomicU64, AtomicUsize, Ordering};
use std::sync::{Arc, Mutex};
use std::time::{Duration, Instant};

#[derive(Clone, Copy, Debug, PartialEq)]
pub enum Tier {
    Quick,
    Thorough,
}

impl Tier {
    pub fn name(self) -> &'static str {
        match self {
            Tier::Quick => "quick",
            Tier::Thorough => "thorough",
        }
    }
    pub fn thorough(self) -> bool {
        self == Tier::Thorough
    }
}

#[derive(Clone, Debug)]
pub struct PanicInfo {
    pub msg: String,
    pub file: String,
    pub line: u32,
}

impl PanicInfo {
    /// panic raised inside harness code (not in smartcore or one of its dependencies)
    pub fn in_harness(&self) -> bool {
        self.file.contains("harness/src") || self.file.starts_with("src/")
    }
    pub fn is_budget(&self) -> bool {
        self.msg.starts_with(smartcore::verif::BUDGET_PANIC)
    }
    /// short, stable location string: path relative to the crate that raised it + line
    pub fn loc(&self) -> String {
        let f = if let Some(p) = self.file.find("/repo/") {
            &self.file[p + 6..]
        } else if let Some(p) = self.file.find("/registry/src/") {
            let rest = &self.file[p + 14..];
            match rest.find('/') {
                Some(q) => &rest[q + 1..],
                None => rest,
            }
        } else {
            &self.file[..]
        };
        format!("{}:{}", f, self.line)
    }
    pub fn short(&self) -> String {
        let mut m = self.msg.clone();
        if m.len() > 160 {
            m.truncate(160);
        }
        format!("{} @ {}", m, self.loc())
    }
}

thread_local! {
    static LAST_PANIC: RefCell<Option<PanicInfo>> = RefCell::new(None);
}

pub fn install_panic_hook() {
    std::panic::set_hook(Box::new(|info| {
        let msg = if let Some(s) = info.payload().downcast_ref::<&str>() {
            s.to_string()
        } else if let Some(s) = info.payload().downcast_ref::<String>() {
            s.clone()
        } else {
            "<non-string panic payload>".to_string()
        };
        let (file, line) = match info.location() {
            Some(l) => (l.file().to_string(), l.line()),
            None => ("<unknown>".to_string(), 0),
        };
        LAST_PANIC.with(|p| *p.borrow_mut() = Some(PanicInfo { msg, file, line }));
    }));
}

/// Runs `f`, turning a panic into `Err(PanicInfo)`.
pub fn guard<T>(f: impl FnOnce() -> T) -> Result<T, PanicInfo> {
    LAST_PANIC.with(|p| *p.borrow_mut() = None);
    match catch_unwind(AssertUnwindSafe(f)) {
        Ok(v) => Ok(v),
        Err(_) => {
            let info = LAST_PANIC.with(|p| p.borrow_mut().take());
            Err(info.unwrap_or(PanicInfo {
                msg: "<panic without hook info>".into(),
                file: "<unknown>".into(),
                line: 0,
            }))
        }
    }
}

#[derive(Clone, Debug)]
pub struct Violation {
    pub oracle: String,
    pub signature: String,
    pub detail: String,
}

#[derive(Clone, Debug, PartialEq)]
pub enum Status {
    Held,
    Inconclusive(String),
    Skipped(String),
}

pub struct Case {
    pub rng: Rng,
    pub property: &'static str,
    pub family: &'static str,
    pub index: u64,
    /// number of cases of this family in this run (enumerating families map index -> element)
    pub total: u64,
    pub tier: Tier,
    pub seed: u64,
    pub violations: Vec<Violation>,
    pub checks: BTreeMap<String, u64>,
    pub worst: BTreeMap<String, f64>,
    pub buckets: BTreeSet<String>,
    pub nontrivial: bool,
    pub hash: Option<u64>,
    pub descr: Value,
    pub status: Status,
}

impl Case {
    /// Records one evaluation of oracle `oracle`; `ok == false` is a violation with known-finding
    /// key (oracle, sig).
    pub fn check(&mut self, oracle: &str, ok: bool, sig: &str, detail: impl FnOnce() -> String) -> bool {
        *self.checks.entry(oracle.to_string()).or_insert(0) += 1;
        if !ok {
            self.violate(oracle, sig, detail());
        }
        ok
    }

    /// Records `observed <= threshold` (NaN counts as failing) and keeps the worst ratio per oracle.
    pub fn ratio(&mut self, oracle: &str, observed: f64, threshold: f64, sig: &str, detail: impl FnOnce() -> String) -> bool {
        *self.checks.entry(oracle.to_string()).or_insert(0) += 1;
        let r = if threshold > 0.0 { observed / threshold } else if observed == 0.0 { 0.0 } else { f64::INFINITY };
        let ok = observed <= threshold; // false for NaN
        if r.is_finite() {
            let e = self.worst.entry(oracle.to_string()).or_insert(0.0);
            if r > *e {
                *e = r;
            }
        }
        if !ok {
            let d = detail();
            self.violate(oracle, sig, format!("observed {:e} > threshold {:e}; {}", observed, threshold, d));
        }
        ok
    }

    pub fn violate(&mut self, oracle: &str, sig: &str, detail: String) {
        if self.violations.len() < 8 {
            let mut d = detail;
            if d.len() > 2000 {
                d.truncate(2000);
            }
            self.violations.push(Violation { oracle: oracle.to_string(), signature: sig.to_string(), detail: d });
        }
    }

    pub fn count(&mut self, oracle: &str) {
        *self.checks.entry(oracle.to_string()).or_insert(0) += 1;
    }

    pub fn bucket(&mut self, name: &str) {
        if !self.buckets.contains(name) {
            self.buckets.insert(name.to_string());
        }
    }

    pub fn bucket_if(&mut self, cond: bool, name: &str) {
        if cond {
            self.bucket(name);
        }
    }

    pub fn nontrivial(&mut self) {
        self.nontrivial = true;
    }

    pub fn describe(&mut self, v: Value) {
        self.descr = v;
    }

    pub fn set_hash(&mut self, h: u64) {
        self.hash = Some(h);
    }

    pub fn hash_f64s(&mut self, xs: &[f64]) {
        let mut h = self.hash.unwrap_or(0xcbf29ce484222325);
        for x in xs {
            h ^= x.to_bits();
            h = h.wrapping_mul(0x100000001b3);
        }
        self.hash = Some(h);
    }

    pub fn inconclusive(&mut self, reason: &str) {
        self.status = Status::Inconclusive(reason.to_string());
    }

    pub fn skip(&mut self, reason: &str) {
        self.status = Status::Skipped(reason.to_string());
    }

    /// The library call is expected to succeed: a panic is a violation (oracle `no-panic:<what>`,
    /// signature = panic location), a step-budget panic is `termination:<what>`.
    pub fn must<T>(&mut self, what: &str, f: impl FnOnce() -> T) -> Option<T> {
        match guard(f) {
            Ok(v) => {
                self.count(&format!("no-panic:{}", what));
                Some(v)
            }
            Err(p) => {
                self.count(&format!("no-panic:{}", what));
                if p.in_harness() {
                    self.inconclusive(&format!("harness panic in {}: {}", what, p.short()));
                } else if p.is_budget() {
                    self.violate(&format!("termination:{}", what), "step-budget", p.short());
                } else {
                    self.violate(&format!("no-panic:{}", what), &p.loc(), p.short());
                }
                None
            }
        }
    }

    /// The library call is expected to panic (shape contract): returning normally is a violation.
    pub fn must_panic<T>(&mut self, oracle: &str, sig: &str, f: impl FnOnce() -> T) -> bool {
        match guard(f) {
            Ok(_) => {
                self.check(oracle, false, sig, || "call returned normally, a rejection (panic) was required".to_string());
                false
            }
            Err(p) => {
                if p.in_harness() {
                    self.inconclusive(&format!("harness panic: {}", p.short()));
                    false
                } else {
                    self.check(oracle, true, sig, String::new);
                    true
                }
            }
        }
    }
}

pub struct Family {
    pub name: &'static str,
    pub quick: u64,
    pub thorough: u64,
    pub run: fn(&mut Case),
    /// the family enumerates a finite space completely in the given tier
    pub exhaustive_quick: bool,
    pub exhaustive_thorough: bool,
}

impl Family {
    pub fn new(name: &'static str, quick: u64, thorough: u64, run: fn(&mut Case)) -> Family {
        Family { name, quick, thorough, run, exhaustive_quick: false, exhaustive_thorough: false }
    }
    pub fn exhaustive(mut self, quick: bool, thorough: bool) -> Family {
        self.exhaustive_quick = quick;
        self.exhaustive_thorough = thorough;
        self
    }
}

pub struct Spec {
    pub property: &'static str,
    pub rule: &'static str,
    pub assumptions: Vec<&'static str>,
    pub families: Vec<Family>,
    /// minimum number of distinct non-trivial cases below which the check declares itself broken
    pub min_nontrivial: u64,
    /// per-case wall-clock watchdog
    pub case_timeout_s: u64,
}

#[derive(Default)]
struct Agg {
    evaluations: u64,
    distinct: HashSet<u64>,
    nontrivial_total: u64,
    checks: BTreeMap<String, u64>,
    worst: BTreeMap<String, f64>,
    buckets: BTreeMap<String, u64>,
    per_family: BTreeMap<String, (u64, u64)>,
    inconclusive: BTreeMap<String, u64>,
    skipped: BTreeMap<String, u64>,
    n_inconclusive: u64,
    n_skipped: u64,
    samples: Vec<Value>,
    sample_count: BTreeMap<String, u32>,
    /// per (oracle, signature) class: occurrences and the witness with the smallest (family, index)
    vclasses: BTreeMap<(String, String), (u64, (String, u64, Violation, Value))>,
    n_violating_cases: u64,
    known: BTreeMap<String, (u64, String)>,
}

fn verif_dir() -> String {
    if let Ok(d) = std::env::var("VERIF_DIR") {
        return d;
    }
    let m = env!("CARGO_MANIFEST_DIR");
    match m.rfind('/') {
        Some(p) => m[..p].to_string(),
        None => ".".to_string(),
    }
}

#[derive(Clone, Debug)]
struct Known {
    oracle: String,
    signature: String,
    what: String,
}

fn load_known(property: &str) -> Vec<Known> {
    let path = format!("{}/known_findings.json", verif_dir());
    let mut out = Vec::new();
    if let Ok(s) = std::fs::read_to_string(&path) {
        if let Ok(v) = serde_json::from_str::<Value>(&s) {
            if let Some(arr) = v.get("open").and_then(|a| a.as_array()) {
                for e in arr {
                    if e.get("property").and_then(|p| p.as_str()) == Some(property) {
                        out.push(Known {
                            oracle: e.get("oracle").and_then(|x| x.as_str()).unwrap_or("").to_string(),
                            signature: e.get("signature").and_then(|x| x.as_str()).unwrap_or("").to_string(),
                            what: e.get("what").and_then(|x| x.as_str()).unwrap_or("").to_string(),
                        });
                    }
                }
            }
        }
    }
    out
}

fn trunc_value(v: &Value) -> Value {
    let s = v.to_string();
    if s.len() > 6000 {
        json!({"truncated": &s[..s.char_indices().nth(6000).map(|x| x.0).unwrap_or(s.len())]})
    } else {
        v.clone()
    }
}

fn run_one(spec: &Spec, fam: &Family, index: u64, total: u64, tier: Tier, seed: u64) -> Case {
    let mut c = Case {
        rng: Rng::for_case(seed, spec.property, fam.name, index),
        property: spec.property,
        family: fam.name,
        index,
        total,
        tier,
        seed,
        violations: Vec::new(),
        checks: BTreeMap::new(),
        worst: BTreeMap::new(),
        buckets: BTreeSet::new(),
        nontrivial: false,
        hash: None,
        descr: Value::Null,
        status: Status::Held,
    };
    smartcore::verif::set_step_budget(u64::MAX);
    smartcore::verif::svc_force_orders(Vec::new());
    let _ = smartcore::verif::svc_take_order_log();
    let r = guard(|| (fam.run)(&mut c));
    smartcore::verif::set_step_budget(u64::MAX);
    if let Err(p) = r {
        if p.in_harness() {
            c.inconclusive(&format!("harness panic: {}", p.short()));
        } else if p.is_budget() {
            c.violate("termination", "step-budget", p.short());
        } else {
            c.violate("unexpected-panic", &p.loc(), p.short());
        }
    }
    c
}

struct Slot {
    started: Option<Instant>,
    job: Option<(usize, u64)>,
    abandoned: bool,
}

pub fn main(spec: Spec) -> ! {
    install_panic_hook();
    let args: Vec<String> = std::env::args().collect();
    let seed: u64 = std::env::var("VERIF_SEED").ok().and_then(|s| s.trim().parse::<i64>().ok()).map(|v| v as u64).unwrap_or(1);
    if args.len() >= 3 && args[1] == "--replay" {
        replay(&spec, &args[2]);
    }
    let tier = match args.get(1).map(|s| s.as_str()) {
        Some("thorough") => Tier::Thorough,
        Some("quick") | None => Tier::Quick,
        Some(o) => {
            eprintln!("usage: {} quick|thorough|--replay <file>   (got {})", args[0], o);
            std::process::exit(2);
        }
    };
    // optional scaling of the case counts (used by the mutation self-test to shorten runs)
    let scale: f64 = std::env::var("VERIF_SCALE").ok().and_then(|s| s.parse().ok()).unwrap_or(1.0);
    let only: Option<String> = std::env::var("VERIF_FAMILY").ok();
    let t0 = Instant::now();
    let known = load_known(spec.property);

    // job list
    let mut jobs: Vec<(usize, u64, u64)> = Vec::new();
    let mut exhaustive_all = true;
    let mut any_exh = false;
    for (fi, f) in spec.families.iter().enumerate() {
        if let Some(o) = &only {
            if !o.split(',').any(|x| x == f.name) {
                continue;
            }
        }
        let (n, exh) = match tier {
            Tier::Quick => (f.quick, f.exhaustive_quick),
            Tier::Thorough => (f.thorough, f.exhaustive_thorough),
        };
        // VERIF_MULT deepens the sampled families (the thorough tier sets it per property in ./check)
        let mult: f64 = std::env::var("VERIF_MULT").ok().and_then(|s| s.parse().ok()).unwrap_or(1.0);
        let n = if exh { n } else { ((n as f64 * scale * mult).ceil() as u64).max(if n > 0 { 1 } else { 0 }) };
        if !exh {
            exhaustive_all = false;
        } else {
            any_exh = true;
        }
        for i in 0..n {
            jobs.push((fi, i, n));
        }
    }
    // interleave families so that partial progress covers all of them
    {
        let mut r = Rng::new(seed ^ 0xABCDEF);
        r.shuffle(&mut jobs);
    }
    let jobs = Arc::new(jobs);
    let next = Arc::new(AtomicUsize::new(0));
    let done = Arc::new(AtomicU64::new(0));
    let agg = Arc::new(Mutex::new(Agg::default()));
    let nthreads: usize = std::env::var("VERIF_THREADS").ok().and_then(|s| s.parse().ok()).unwrap_or(16);
    let spec = Arc::new(spec);
    let slots: Arc<Vec<Mutex<Slot>>> = Arc::new((0..256).map(|_| Mutex::new(Slot { started: None, job: None, abandoned: false })).collect());
    let next_slot = Arc::new(AtomicUsize::new(0));

    let spawn_worker = {
        let jobs = jobs.clone();
        let next = next.clone();
        let done = done.clone();
        let agg = agg.clone();
        let spec = spec.clone();
        let slots = slots.clone();
        let next_slot = next_slot.clone();
        move || {
            let sid = next_slot.fetch_add(1, Ordering::SeqCst);
            if sid >= slots.len() {
                return;
            }
            let jobs = jobs.clone();
            let next = next.clone();
            let done = done.clone();
            let agg = agg.clone();
            let spec = spec.clone();
            let slots = slots.clone();
            std::thread::Builder::new()
                .stack_size(64 << 20)
                .spawn(move || {
                  let mut local = Agg::default();
                  let mut pending: u64 = 0;
                  let mut last_merge = Instant::now();
                  loop {
                    let j = next.fetch_add(1, Ordering::SeqCst);
                    if j >= jobs.len() {
                        break;
                    }
                    let (fi, idx, total) = jobs[j];
                    {
                        let mut s = slots[sid].lock().unwrap();
                        s.started = Some(Instant::now());
                        s.job = Some((fi, idx));
                    }
                    let c = run_one(&spec, &spec.families[fi], idx, total, tier, seed);
                    let abandoned = {
                        let mut s = slots[sid].lock().unwrap();
                        s.started = None;
                        s.job = None;
                        s.abandoned
                    };
                    if abandoned {
                        // the watchdog already accounted for this case as inconclusive(timeout)
                        break;
                    }
                    absorb(&mut local, c);
                    pending += 1;
                    if pending >= 512 || last_merge.elapsed() > Duration::from_millis(500) {
                        merge(&mut agg.lock().unwrap(), std::mem::take(&mut local));
                        done.fetch_add(pending, Ordering::SeqCst);
                        pending = 0;
                        last_merge = Instant::now();
                    }
                  }
                  merge(&mut agg.lock().unwrap(), std::mem::take(&mut local));
                  done.fetch_add(pending, Ordering::SeqCst);
                })
                .expect("spawn");
        }
    };
    for _ in 0..nthreads {
        spawn_worker();
    }
    // watchdog loop
    let total_jobs = jobs.len() as u64;
    let timeout = Duration::from_secs(spec.case_timeout_s.max(1));
    loop {
        if done.load(Ordering::SeqCst) >= total_jobs {
            break;
        }
        std::thread::sleep(Duration::from_millis(20));
        for sid in 0..slots.len().min(next_slot.load(Ordering::SeqCst)) {
            let mut s = slots[sid].lock().unwrap();
            if s.abandoned {
                continue;
            }
            if let (Some(st), Some((fi, idx))) = (s.started, s.job) {
                if st.elapsed() > timeout {
                    s.abandoned = true;
                    drop(s);
                    let fam = spec.families[fi].name;
                    let mut a = agg.lock().unwrap();
                    a.evaluations += 1;
                    a.n_inconclusive += 1;
                    *a.inconclusive.entry(format!("watchdog timeout {}s family={} index={}", timeout.as_secs(), fam, idx)).or_insert(0) += 1;
                    drop(a);
                    done.fetch_add(1, Ordering::SeqCst);
                    spawn_worker();
                }
            }
        }
    }
    let wall = t0.elapsed().as_secs_f64();
    let a = std::mem::take(&mut *agg.lock().unwrap());
    finish(&spec, tier, seed, a, &known, wall, any_exh && exhaustive_all, any_exh);
}

fn absorb(a: &mut Agg, c: Case) {
    let pre_hash = if c.nontrivial && c.status == Status::Held { Some(c.hash.unwrap_or_else(|| hash_str(&c.descr.to_string()) ^ hash_str(c.family))) } else { None };
    a.evaluations += 1;
    let e = a.per_family.entry(c.family.to_string()).or_insert((0, 0));
    e.0 += 1;
    if c.nontrivial {
        e.1 += 1;
    }
    for (k, v) in &c.checks {
        match a.checks.get_mut(k) {
            Some(x) => *x += v,
            None => {
                a.checks.insert(k.clone(), *v);
            }
        }
    }
    for (k, v) in &c.worst {
        match a.worst.get_mut(k) {
            Some(x) => {
                if *v > *x {
                    *x = *v
                }
            }
            None => {
                a.worst.insert(k.clone(), *v);
            }
        }
    }
    for b in &c.buckets {
        match a.buckets.get_mut(b) {
            Some(x) => *x += 1,
            None => {
                a.buckets.insert(b.clone(), 1);
            }
        }
    }
    match &c.status {
        Status::Held => {}
        Status::Inconclusive(r) => {
            a.n_inconclusive += 1;
            let mut r = r.clone();
            r.truncate(200);
            *a.inconclusive.entry(r).or_insert(0) += 1;
        }
        Status::Skipped(r) => {
            a.n_skipped += 1;
            *a.skipped.entry(r.clone()).or_insert(0) += 1;
        }
    }
    if let Some(h) = pre_hash {
        a.nontrivial_total += 1;
        a.distinct.insert(h);
    }
    let sc = a.sample_count.entry(c.family.to_string()).or_insert(0);
    if *sc < 2 && c.status == Status::Held && !c.descr.is_null() {
        *sc += 1;
        let v = json!({"family": c.family, "index": c.index, "nontrivial": c.nontrivial, "case": trunc_value(&c.descr), "buckets": c.buckets});
        a.samples.push(v);
    }
    if !c.violations.is_empty() {
        a.n_violating_cases += 1;
        let mut seen: Vec<(String, String)> = Vec::new();
        for v in c.violations {
            let key = (v.oracle.clone(), v.signature.clone());
            if seen.contains(&key) {
                continue;
            }
            seen.push(key.clone());
            let wit = (c.family.to_string(), c.index, v, c.descr.clone());
            match a.vclasses.get_mut(&key) {
                Some(e) => {
                    e.0 += 1;
                    if (wit.0.as_str(), wit.1) < (e.1 .0.as_str(), e.1 .1) {
                        e.1 = wit;
                    }
                }
                None => {
                    a.vclasses.insert(key, (1, wit));
                }
            }
        }
    }
}

fn merge(g: &mut Agg, l: Agg) {
    g.evaluations += l.evaluations;
    g.nontrivial_total += l.nontrivial_total;
    g.n_inconclusive += l.n_inconclusive;
    g.n_skipped += l.n_skipped;
    g.n_violating_cases += l.n_violating_cases;
    g.distinct.extend(l.distinct);
    for (k, v) in l.checks {
        *g.checks.entry(k).or_insert(0) += v;
    }
    for (k, v) in l.worst {
        let e = g.worst.entry(k).or_insert(0.0);
        if v > *e {
            *e = v;
        }
    }
    for (k, v) in l.buckets {
        *g.buckets.entry(k).or_insert(0) += v;
    }
    for (k, v) in l.per_family {
        let e = g.per_family.entry(k).or_insert((0, 0));
        e.0 += v.0;
        e.1 += v.1;
    }
    for (k, v) in l.inconclusive {
        *g.inconclusive.entry(k).or_insert(0) += v;
    }
    for (k, v) in l.skipped {
        *g.skipped.entry(k).or_insert(0) += v;
    }
    for s in l.samples {
        let fam = s["family"].as_str().unwrap_or("").to_string();
        let sc = g.sample_count.entry(fam).or_insert(0);
        if *sc < 2 {
            *sc += 1;
            g.samples.push(s);
        }
    }
    for (k, (n, wit)) in l.vclasses {
        match g.vclasses.get_mut(&k) {
            Some(e) => {
                e.0 += n;
                if (wit.0.as_str(), wit.1) < (e.1 .0.as_str(), e.1 .1) {
                    e.1 = wit;
                }
            }
            None => {
                g.vclasses.insert(k, (n, wit));
            }
        }
    }
}

fn matches(k: &Known, v: &Violation) -> bool {
    k.oracle == v.oracle && k.signature == v.signature
}

fn finish(spec: &Spec, tier: Tier, seed: u64, mut a: Agg, known: &[Known], wall: f64, exhaustive: bool, any_exh: bool) -> ! {
    let dir = verif_dir();
    let mut unlisted: Vec<(String, u64, Violation, Value, u64)> = Vec::new();
    for (_key, (n, (fam, idx, v, d))) in std::mem::take(&mut a.vclasses) {
        if let Some(k) = known.iter().find(|k| matches(k, &v)) {
            let e = a.known.entry(format!("{} / {}", k.oracle, k.signature)).or_insert((0, k.what.clone()));
            e.0 += n;
        } else {
            unlisted.push((fam, idx, v, d, n));
        }
    }
    for (k, (n, what)) in &a.known {
        println!("KNOWN-FINDING: property={} {} [{}] ({} occurrences this run)", spec.property, what, k, n);
    }
    // replay files: one per (oracle, signature) class (the witness with the smallest index), at most 40
    let mut classes: BTreeMap<(String, String), u64> = BTreeMap::new();
    let mut violation_lines = 0;
    let _ = std::fs::create_dir_all(format!("{}/replays/{}", dir, spec.property));
    let mut n_unlisted: u64 = 0;
    for (fam, idx, v, d, n) in &unlisted {
        classes.insert((v.oracle.clone(), v.signature.clone()), *n);
        n_unlisted += *n;
        if violation_lines >= 40 {
            continue;
        }
        let ptag = std::env::var("VERIF_PROFILE_TAG").unwrap_or_default();
        let path = format!("{}/replays/{}/{}{}-{}-{}-{}.json", dir, spec.property, if ptag.is_empty() { String::new() } else { format!("{}-", ptag) }, seed, tier.name(), fam, idx);
        let rep = json!({
            "build_profile": if ptag.is_empty() { "release(debug-assertions, overflow-checks)" } else { ptag.as_str() },
            "property": spec.property, "seed": seed, "tier": tier.name(), "family": fam, "index": idx,
            "oracle": v.oracle, "signature": v.signature, "detail": v.detail, "case": d, "occurrences_of_this_class": n,
        });
        let _ = std::fs::write(&path, serde_json::to_string_pretty(&rep).unwrap());
        println!("VIOLATION property={} replay={}", spec.property, path);
        println!("  oracle={} signature={} family={} index={} occurrences={}\n  {}", v.oracle, v.signature, fam, idx, n, v.detail.replace('\n', " "));
        violation_lines += 1;
    }
    let distinct = a.distinct.len() as u64;
    let incon_frac = if a.evaluations > 0 { a.n_inconclusive as f64 / a.evaluations as f64 } else { 1.0 };
    let mut broken: Vec<String> = Vec::new();
    if distinct < spec.min_nontrivial && std::env::var("VERIF_FAMILY").is_err() && std::env::var("VERIF_SCALE").is_err() {
        broken.push(format!("only {} distinct non-trivial cases observed (minimum {})", distinct, spec.min_nontrivial));
    }
    if incon_frac > 0.05 {
        broken.push(format!("{:.1}% of the cases were inconclusive", incon_frac * 100.0));
    }
    let per_family: BTreeMap<String, Value> = a.per_family.iter().map(|(k, v)| (k.clone(), json!({"cases": v.0, "nontrivial": v.1}))).collect();
    let classes_json: Vec<Value> = classes.iter().map(|((o, s), n)| json!({"oracle": o, "signature": s, "count": n})).collect();
    let ev = json!({
        "property_id": spec.property,
        "tier": tier.name(),
        "seed": seed as i64,
        "level": "exploration",
        "coverage": {
            "evaluations": a.evaluations,
            "distinct_nontrivial": distinct,
            "nontrivial_total": a.nontrivial_total,
            "rule": spec.rule,
            "samples": a.samples,
            "exhaustive": exhaustive,
            "some_families_exhaustive": any_exh,
            "per_family": per_family,
            "buckets_observed": a.buckets,
            "oracle_checks": a.checks,
            "worst_ratio_observed_over_threshold": a.worst,
            "inconclusive": a.n_inconclusive,
            "inconclusive_reasons": a.inconclusive,
            "skipped": a.n_skipped,
            "skipped_reasons": a.skipped,
            "known_findings_seen": a.known.iter().map(|(k, v)| json!({"key": k, "count": v.0})).collect::<Vec<_>>(),
            "violation_classes": classes_json,
            "check_broken": broken,
        },
        "assumptions": spec.assumptions,
        "wall_s": wall,
        "violations": n_unlisted as i64,
    });
    let _ = std::fs::create_dir_all(format!("{}/evidence", dir));
    // a run of the second build profile writes a side file that ./check folds into the main evidence file
    let evpath = match std::env::var("VERIF_PROFILE_TAG") {
        Ok(t) if !t.is_empty() => format!("{}/evidence/.{}.{}.json", dir, spec.property, t),
        _ => format!("{}/evidence/{}.json", dir, spec.property),
    };
    std::fs::write(&evpath, serde_json::to_string_pretty(&ev).unwrap()).expect("write evidence");
    let nchecks: u64 = a.checks.values().sum();
    println!(
        "{} {} seed={} cases={} distinct_nontrivial={} oracle_checks={} inconclusive={} skipped={} known={} violations={} ({} classes) wall={:.1}s",
        spec.property, tier.name(), seed, a.evaluations, distinct, nchecks, a.n_inconclusive, a.n_skipped,
        a.known.values().map(|v| v.0).sum::<u64>(), n_unlisted, classes.len(), wall
    );
    if !a.inconclusive.is_empty() {
        for (r, n) in a.inconclusive.iter().take(5) {
            println!("  inconclusive x{}: {}", n, r);
        }
    }
    if n_unlisted > 0 {
        std::process::exit(1);
    }
    if !broken.is_empty() {
        for b in &broken {
            println!("CHECK-BROKEN property={} {}", spec.property, b);
        }
        std::process::exit(2);
    }
    std::process::exit(0);
}

fn replay(spec: &Spec, path: &str) -> ! {
    let s = std::fs::read_to_string(path).unwrap_or_else(|e| {
        eprintln!("cannot read {}: {}", path, e);
        std::process::exit(2)
    });
    let v: Value = serde_json::from_str(&s).unwrap_or_else(|e| {
        eprintln!("cannot parse {}: {}", path, e);
        std::process::exit(2)
    });
    let fam = v["family"].as_str().unwrap_or("");
    let idx = v["index"].as_u64().unwrap_or(0);
    let seed = v["seed"].as_u64().unwrap_or(1);
    let tier = if v["tier"].as_str() == Some("thorough") { Tier::Thorough } else { Tier::Quick };
    let f = match spec.families.iter().find(|f| f.name == fam) {
        Some(f) => f,
        None => {
            eprintln!("unknown family {}", fam);
            std::process::exit(2)
        }
    };
    let total = match tier {
        Tier::Quick => f.quick,
        Tier::Thorough => f.thorough,
    };
    let c = run_one(spec, f, idx, total, tier, seed);
    println!("replay property={} family={} index={} seed={} status={:?}", spec.property, fam, idx, seed, c.status);
    println!("case: {}", trunc_value(&c.descr));
    let known = load_known(spec.property);
    let mut bad = false;
    for v in &c.violations {
        if let Some(k) = known.iter().find(|k| matches(k, v)) {
            println!("KNOWN-FINDING: property={} {} [{} / {}]", spec.property, k.what, v.oracle, v.signature);
        } else {
            println!("VIOLATION property={} replay={}", spec.property, path);
            println!("  oracle={} signature={}\n  {}", v.oracle, v.signature, v.detail);
            bad = true;
        }
    }
    if !bad {
        println!("replay: property held on this case");
    }
    std::process::exit(if bad { 1 } else { 0 });
}
