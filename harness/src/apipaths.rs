//! The uniform `api::{SupervisedEstimator, UnsupervisedEstimator, Predictor, Transformer}` entry points must
//! behave exactly like the inherent `fit` / `predict` / `transform` of every estimator (generic code such as
//! cross-validation only ever uses the traits). One family per property, called from the property's monitor.
//!
//! The same cases also drive the call sequence fit → store → restore → use: a model that went through a
//! serialisation round trip (bincode bytes, or a serde_json::Value, both exact for floats) has to give the same
//! outputs as the fitted object it was stored from, on rows it has never seen.

use crate::refla::Mat;
use crate::runner::Case;
use crate::{mat_json, to_dense};
use serde_json::json;
use smartcore::algorithm::neighbour::KNNAlgorithmName;
use smartcore::api::{Predictor, SupervisedEstimator, Transformer, UnsupervisedEstimator};
use smartcore::cluster::dbscan::{DBSCANParameters, DBSCAN};
use smartcore::cluster::kmeans::{KMeans, KMeansParameters};
use smartcore::decomposition::pca::{PCAParameters, PCA};
use smartcore::decomposition::svd::{SVDParameters, SVD};
use smartcore::ensemble::random_forest_classifier::{RandomForestClassifier, RandomForestClassifierParameters};
use smartcore::ensemble::random_forest_regressor::{RandomForestRegressor, RandomForestRegressorParameters};
use smartcore::linalg::naive::dense_matrix::DenseMatrix;
use smartcore::linalg::BaseMatrix;
use smartcore::linear::elastic_net::{ElasticNet, ElasticNetParameters};
use smartcore::linear::lasso::{Lasso, LassoParameters};
use smartcore::linear::linear_regression::{LinearRegression, LinearRegressionParameters};
use smartcore::linear::logistic_regression::{LogisticRegression, LogisticRegressionParameters};
use smartcore::linear::ridge_regression::{RidgeRegression, RidgeRegressionParameters};
use smartcore::neighbors::knn_classifier::{KNNClassifier, KNNClassifierParameters};
use smartcore::neighbors::knn_regressor::{KNNRegressor, KNNRegressorParameters};
use smartcore::neighbors::KNNWeightFunction;
use smartcore::svm::svc::{SVCParameters, SVC};
use smartcore::svm::svr::{SVRParameters, SVR};
use smartcore::svm::Kernels;
use smartcore::tree::decision_tree_classifier::{DecisionTreeClassifier, DecisionTreeClassifierParameters};
use smartcore::tree::decision_tree_regressor::{DecisionTreeRegressor, DecisionTreeRegressorParameters};

type DM = DenseMatrix<f64>;

fn same(a: &[f64], b: &[f64]) -> bool {
    a.len() == b.len() && a.iter().zip(b.iter()).all(|(x, y)| x == y || (x.is_nan() && y.is_nan()))
}

/// the output for a row is a function of that row (and the fitted model) only: a batch with the rows in
/// another order, some of them repeated, gives the same per-row outputs (no state carried from row to row or
/// from call to call). `width` = outputs per row.
fn batch_independent(c: &mut Case, name: &str, xq: &Mat, o1: &[f64], run: impl Fn(&DM) -> Result<Vec<f64>, smartcore::error::Failed>) {
    let nq = xq.r;
    if nq == 0 || o1.len() % nq != 0 {
        return;
    }
    let width = o1.len() / nq;
    // reversed order, then two repeated rows
    let mut order: Vec<usize> = (0..nq).rev().collect();
    order.push(c.rng.below(nq));
    order.push(c.rng.below(nq));
    let x2 = Mat::from_fn(order.len(), xq.c, |i, j| xq.at(order[i], j));
    let x2m: DM = to_dense(&x2);
    if let Some(Ok(o2)) = c.must(&format!("{}::use(reordered batch)", name), || run(&x2m)) {
        let scale = o1.iter().fold(0.0f64, |m, v| if v.is_finite() { m.max(v.abs()) } else { m });
        let ok = o2.len() == order.len() * width
            && order.iter().enumerate().all(|(i, src)| (0..width).all(|k| {
                let (a, b) = (o1[src * width + k], o2[i * width + k]);
                a == b || (a.is_nan() && b.is_nan()) || (a - b).abs() <= 1e-10 * scale
            }));
        c.check(&format!("sequence.row-output-independent-of-batch:{}", name), ok, name, || format!("rows {:?} of the query batch give {:?}; the batch itself gave {:?} ({} outputs per row)", order, o2, o1, width));
    }
}

/// fit → store → restore → use: outputs of the restored model equal those of the fitted one
fn restored_same<M: serde::Serialize + serde::de::DeserializeOwned>(c: &mut Case, name: &str, m1: &M, o1: &[f64], run: impl Fn(&M) -> Result<Vec<f64>, smartcore::error::Failed>) {
    let json = c.rng.bool(0.5);
    let fmt = if json { "json-value" } else { "bincode" };
    c.bucket(&format!("sequence:fit-store-restore-use/{}", fmt));
    let back: Option<Result<M, String>> = c.must(&format!("{}::restore", name), || {
        if json {
            serde_json::to_value(m1).and_then(serde_json::from_value).map_err(|e| format!("serde_json value round trip: {}", e))
        } else {
            crate::restored(m1, false)
        }
    });
    match back {
        Some(Ok(m2)) => match c.must(&format!("{}::use(restored)", name), || run(&m2)) {
            Some(Ok(o2)) => {
                c.check(&format!("sequence.restored=fitted:{}/{}", name, fmt), same(o1, &o2), name, || format!("fitted model gives {:?}, its restored copy {:?}", o1, o2));
            }
            Some(Err(e)) => {
                c.check(&format!("sequence.restored=fitted:{}/{}", name, fmt), false, name, || format!("the restored copy returned Err({})", e));
            }
            None => {}
        },
        Some(Err(msg)) => {
            c.check(&format!("sequence.restorable:{}/{}", name, fmt), false, name, || msg.clone());
        }
        None => {}
    }
}

/// inherent predict vs Predictor::predict on the same model (and on a model fitted through the trait)
macro_rules! supervised {
    ($c:expr, $name:expr, $E:ty, $params:expr, $x:expr, $y:expr, $xq:expr, $xqm:expr, trait_fit) => {{
        let p = $params;
        if let Some(Ok(m1)) = $c.must(&format!("{}::fit", $name), || <$E>::fit($x, $y, p.clone())) {
            if let (Some(Ok(o1)), Some(Ok(o2))) = ($c.must(&format!("{}::predict", $name), || m1.predict($xq)), $c.must(&format!("{}::predict(trait)", $name), || Predictor::predict(&m1, $xq))) {
                $c.check(&format!("api.predictor=inherent:{}", $name), same(&o1, &o2), $name, || format!("inherent predict {:?}, api::Predictor::predict {:?}", o1, o2));
                restored_same($c, $name, &m1, &o1, |m| m.predict($xq));
                batch_independent($c, $name, $xqm, &o1, |q| m1.predict(q));
                if let Some(Ok(m2)) = $c.must(&format!("{}::fit(trait)", $name), || <$E as SupervisedEstimator<DM, Vec<f64>, _>>::fit($x, $y, p.clone())) {
                    if let Some(Ok(o3)) = $c.must(&format!("{}::predict(trait-fitted)", $name), || Predictor::predict(&m2, $xq)) {
                        $c.check(&format!("api.supervised-estimator=inherent:{}", $name), same(&o1, &o3), $name, || format!("inherent fit+predict {:?}, api::SupervisedEstimator::fit + api::Predictor::predict {:?}", o1, o3));
                    }
                }
                $c.nontrivial();
            }
        }
    }};
    ($c:expr, $name:expr, $E:ty, $params:expr, $x:expr, $y:expr, $xq:expr, $xqm:expr) => {{
        let p = $params;
        if let Some(Ok(m1)) = $c.must(&format!("{}::fit", $name), || <$E>::fit($x, $y, p.clone())) {
            if let (Some(Ok(o1)), Some(Ok(o2))) = ($c.must(&format!("{}::predict", $name), || m1.predict($xq)), $c.must(&format!("{}::predict(trait)", $name), || Predictor::predict(&m1, $xq))) {
                $c.check(&format!("api.predictor=inherent:{}", $name), same(&o1, &o2), $name, || format!("inherent predict {:?}, api::Predictor::predict {:?}", o1, o2));
                restored_same($c, $name, &m1, &o1, |m| m.predict($xq));
                batch_independent($c, $name, $xqm, &o1, |q| m1.predict(q));
                $c.nontrivial();
            }
        }
    }};
}

pub fn case(c: &mut Case, pid: &str) {
    let n = c.rng.us(10, 30);
    let p = c.rng.us(1, 4);
    let nq = c.rng.us(2, 6);
    let shift = if c.rng.bool(0.5) { 0.0 } else { c.rng.uni(-5.0, 5.0) };
    let xm = Mat::from_fn(n, p, |_, _| (c.rng.normal() * 2.0 + shift) * if c.rng.bool(0.1) { 10.0 } else { 1.0 });
    let w: Vec<f64> = (0..p).map(|_| c.rng.normal()).collect();
    let yr: Vec<f64> = (0..n).map(|i| xm.row(i).iter().zip(w.iter()).map(|(a, b)| a * b).sum::<f64>() + 0.3 * c.rng.normal() + 1.5).collect();
    let med = {
        let mut s = yr.clone();
        s.sort_by(|a, b| a.partial_cmp(b).unwrap());
        s[n / 2]
    };
    let (la, lb) = *c.rng.pick(&[(0.0, 1.0), (-1.0, 1.0), (2.0, 7.0)]);
    let mut yc: Vec<f64> = yr.iter().map(|v| if *v > med { lb } else { la }).collect();
    yc[0] = la;
    yc[1] = lb;
    let qm = Mat::from_fn(nq, p, |i, j| xm.at(i % n, j) + 0.5 * c.rng.normal());
    let x: DM = to_dense(&xm);
    let xq: DM = to_dense(&qm);
    let alpha = c.rng.logu(1e-2, 2.0);
    let k = c.rng.us(2, 4);
    let flag = c.rng.bool(0.5);
    let seed = c.rng.next_u64();
    c.describe(json!({"api-paths-of": pid, "x": mat_json(&xm), "y_real": yr, "y_class": yc, "xq": mat_json(&qm), "alpha": alpha, "k": k, "flag": flag, "seed": seed.to_string()}));
    match pid {
        "C04" => {
            let alg = if flag { KNNAlgorithmName::CoverTree } else { KNNAlgorithmName::LinearSearch };
            let wf = if seed % 2 == 0 { KNNWeightFunction::Uniform } else { KNNWeightFunction::Distance };
            supervised!(c, "KNNClassifier", KNNClassifier<f64, _>, KNNClassifierParameters::default().with_k(k).with_algorithm(alg.clone()).with_weight(wf.clone()), &x, &yc, &xq, &qm);
            supervised!(c, "KNNRegressor", KNNRegressor<f64, _>, KNNRegressorParameters::default().with_k(k).with_algorithm(alg).with_weight(wf), &x, &yr, &xq, &qm);
        }
        "C05" => {
            supervised!(c, "DecisionTreeClassifier", DecisionTreeClassifier<f64>, DecisionTreeClassifierParameters::default().with_min_samples_leaf(k - 1), &x, &yc, &xq, &qm);
            supervised!(c, "DecisionTreeRegressor", DecisionTreeRegressor<f64>, DecisionTreeRegressorParameters::default().with_min_samples_leaf(k - 1), &x, &yr, &xq, &qm);
        }
        "C06" => {
            supervised!(c, "RandomForestClassifier", RandomForestClassifier<f64>, RandomForestClassifierParameters::default().with_n_trees(4).with_seed(seed), &x, &yc, &xq, &qm);
            supervised!(c, "RandomForestRegressor", RandomForestRegressor<f64>, RandomForestRegressorParameters::default().with_n_trees(4).with_seed(seed), &x, &yr, &xq, &qm);
        }
        "C07" => {
            supervised!(c, "LinearRegression", LinearRegression<f64, DM>, LinearRegressionParameters::default(), &x, &yr, &xq, &qm, trait_fit);
            supervised!(c, "RidgeRegression", RidgeRegression<f64, DM>, RidgeRegressionParameters::default().with_alpha(alpha).with_normalize(flag), &x, &yr, &xq, &qm, trait_fit);
        }
        "C08" => {
            supervised!(c, "Lasso", Lasso<f64, DM>, LassoParameters::default().with_alpha(alpha * 0.1).with_normalize(flag), &x, &yr, &xq, &qm, trait_fit);
            supervised!(c, "ElasticNet", ElasticNet<f64, DM>, ElasticNetParameters::default().with_alpha(alpha * 0.1).with_normalize(flag), &x, &yr, &xq, &qm, trait_fit);
        }
        "C09" => {
            supervised!(c, "LogisticRegression", LogisticRegression<f64, DM>, LogisticRegressionParameters::default().with_alpha(alpha), &x, &yc, &xq, &qm);
        }
        "C10" => {
            supervised!(c, "SVR", SVR<f64, DM, _>, SVRParameters::default().with_c(alpha * 5.0).with_eps(0.1).with_kernel(Kernels::rbf(0.3)), &x, &yr, &xq, &qm);
            // the SVC trainer draws its visiting order from an unseeded RNG: only the two predict paths of one model
            supervised!(c, "SVC", SVC<f64, DM, _>, SVCParameters::default().with_c(alpha * 5.0).with_kernel(Kernels::linear()), &x, &yc, &xq, &qm);
        }
        "C12" => {
            let p = KMeansParameters::default().with_k(k);
            if let Some(Ok(m1)) = c.must("KMeans::fit", || KMeans::<f64>::fit(&x, p.clone())) {
                if let (Some(Ok(o1)), Some(Ok(o2))) = (c.must("KMeans::predict", || m1.predict(&xq)), c.must("KMeans::predict(trait)", || Predictor::predict(&m1, &xq))) {
                    c.check("api.predictor=inherent:KMeans", same(&o1, &o2), "KMeans", || format!("inherent predict {:?}, api::Predictor::predict {:?}", o1, o2));
                    restored_same(c, "KMeans", &m1, &o1, |m| m.predict(&xq));
                    batch_independent(c, "KMeans", &qm, &o1, |q| m1.predict(q));
                    c.nontrivial();
                }
            }
            // fit through the trait must at least produce a valid model of the requested k
            if let Some(r) = c.must("KMeans::fit(trait)", || <KMeans<f64> as UnsupervisedEstimator<DM, KMeansParameters>>::fit(&x, p.clone())) {
                c.check("api.unsupervised-estimator-fits:KMeans", r.is_ok(), "KMeans", || "fit through api::UnsupervisedEstimator returned Err".to_string());
            }
        }
        "C13" => {
            let alg = if flag { KNNAlgorithmName::CoverTree } else { KNNAlgorithmName::LinearSearch };
            let p = DBSCANParameters::default().with_eps(1.5).with_min_samples(k).with_algorithm(alg);
            if let Some(Ok(m1)) = c.must("DBSCAN::fit", || DBSCAN::fit(&x, p.clone())) {
                if let (Some(Ok(o1)), Some(Ok(o2))) = (c.must("DBSCAN::predict", || m1.predict(&xq)), c.must("DBSCAN::predict(trait)", || Predictor::predict(&m1, &xq))) {
                    c.check("api.predictor=inherent:DBSCAN", same(&o1, &o2), "DBSCAN", || format!("inherent predict {:?}, api::Predictor::predict {:?}", o1, o2));
                    restored_same(c, "DBSCAN", &m1, &o1, |m| m.predict(&xq));
                    batch_independent(c, "DBSCAN", &qm, &o1, |q| m1.predict(q));
                    c.nontrivial();
                }
            }
        }
        "C14" => {
            let kk = c.rng.us(1, p);
            let pp = PCAParameters::default().with_n_components(kk).with_use_correlation_matrix(flag);
            if let (Some(Ok(m1)), Some(Ok(m2))) = (c.must("PCA::fit", || PCA::<f64, DM>::fit(&x, pp.clone())), c.must("PCA::fit(trait)", || <PCA<f64, DM> as UnsupervisedEstimator<DM, PCAParameters>>::fit(&x, pp.clone()))) {
                if let (Some(Ok(o1)), Some(Ok(o2)), Some(Ok(o3))) = (c.must("PCA::transform", || m1.transform(&xq)), c.must("PCA::transform(trait)", || Transformer::transform(&m1, &xq)), c.must("PCA::transform(trait-fitted)", || Transformer::transform(&m2, &xq))) {
                    let (a, b, d) = (crate::from_m(&o1), crate::from_m(&o2), crate::from_m(&o3));
                    c.check("api.transformer=inherent:PCA", a.r == b.r && same(&a.d, &b.d), "PCA", || "api::Transformer::transform differs from the inherent transform".to_string());
                    restored_same(c, "PCA", &m1, &a.d, |m| m.transform(&xq).map(|t| crate::from_m(&t).d));
                    batch_independent(c, "PCA", &qm, &a.d, |q| m1.transform(q).map(|t| crate::from_m(&t).d));
                    c.check("api.unsupervised-estimator=inherent:PCA", a.r == d.r && same(&a.d, &d.d), "PCA", || "a model fitted through api::UnsupervisedEstimator transforms differently".to_string());
                    c.nontrivial();
                }
            }
            if p >= 2 {
                let kk = c.rng.us(1, p - 1);
                let sp = SVDParameters::default().with_n_components(kk);
                if let (Some(Ok(m1)), Some(Ok(m2))) = (c.must("SVD::fit", || SVD::<f64, DM>::fit(&x, sp.clone())), c.must("SVD::fit(trait)", || <SVD<f64, DM> as UnsupervisedEstimator<DM, SVDParameters>>::fit(&x, sp.clone()))) {
                    if let (Some(Ok(o1)), Some(Ok(o2)), Some(Ok(o3))) = (c.must("SVD::transform", || m1.transform(&xq)), c.must("SVD::transform(trait)", || Transformer::transform(&m1, &xq)), c.must("SVD::transform(trait-fitted)", || Transformer::transform(&m2, &xq))) {
                        let (a, b, d) = (crate::from_m(&o1), crate::from_m(&o2), crate::from_m(&o3));
                        c.check("api.transformer=inherent:SVD", a.r == b.r && same(&a.d, &b.d), "SVD", || "api::Transformer::transform differs from the inherent transform".to_string());
                        restored_same(c, "SVD", &m1, &a.d, |m| m.transform(&xq).map(|t| crate::from_m(&t).d));
                        batch_independent(c, "SVD", &qm, &a.d, |q| m1.transform(q).map(|t| crate::from_m(&t).d));
                        c.check("api.unsupervised-estimator=inherent:SVD", a.r == d.r && same(&a.d, &d.d), "SVD", || "a model fitted through api::UnsupervisedEstimator transforms differently".to_string());
                    }
                }
            }
        }
        _ => {}
    }
    let _ = x.shape();
}
