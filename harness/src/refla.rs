//! Reference dense linear algebra in f64 on a row-major `Mat`. Written independently of smartcore
//! (different algorithms: Jacobi eigen/SVD, Householder QR, Gaussian elimination) and self-checked by
//! the callers through residuals before a result is used as an oracle.

use crate::rng::Rng;

#[derive(Clone, Debug, PartialEq)]
pub struct Mat {
    pub r: usize,
    pub c: usize,
    pub d: Vec<f64>,
}

/// Neumaier compensated sum
pub fn csum(xs: impl Iterator<Item = f64>) -> f64 {
    let mut s = 0.0f64;
    let mut comp = 0.0f64;
    for x in xs {
        let t = s + x;
        if s.abs() >= x.abs() {
            comp += (s - t) + x;
        } else {
            comp += (x - t) + s;
        }
        s = t;
    }
    s + comp
}

pub fn dotv(a: &[f64], b: &[f64]) -> f64 {
    csum(a.iter().zip(b.iter()).map(|(x, y)| x * y))
}

pub fn norm2v(a: &[f64]) -> f64 {
    let m = a.iter().fold(0.0f64, |m, x| m.max(x.abs()));
    if m == 0.0 || !m.is_finite() {
        return m;
    }
    m * csum(a.iter().map(|x| (x / m) * (x / m))).sqrt()
}

pub fn mean_v(a: &[f64]) -> f64 {
    csum(a.iter().cloned()) / a.len() as f64
}

/// two-pass population variance
pub fn var_pop(a: &[f64]) -> f64 {
    let m = mean_v(a);
    let n = a.len() as f64;
    let s2 = csum(a.iter().map(|x| (x - m) * (x - m)));
    let s1 = csum(a.iter().map(|x| x - m));
    (s2 - s1 * s1 / n) / n
}

impl Mat {
    pub fn zeros(r: usize, c: usize) -> Mat {
        Mat { r, c, d: vec![0.0; r * c] }
    }
    pub fn eye(n: usize) -> Mat {
        let mut m = Mat::zeros(n, n);
        for i in 0..n {
            m.d[i * n + i] = 1.0;
        }
        m
    }
    pub fn from_rows(rows: &[Vec<f64>]) -> Mat {
        let r = rows.len();
        let c = if r > 0 { rows[0].len() } else { 0 };
        let mut d = Vec::with_capacity(r * c);
        for row in rows {
            assert_eq!(row.len(), c);
            d.extend_from_slice(row);
        }
        Mat { r, c, d }
    }
    pub fn from_fn(r: usize, c: usize, mut f: impl FnMut(usize, usize) -> f64) -> Mat {
        let mut d = Vec::with_capacity(r * c);
        for i in 0..r {
            for j in 0..c {
                d.push(f(i, j));
            }
        }
        Mat { r, c, d }
    }
    pub fn diag(v: &[f64]) -> Mat {
        let n = v.len();
        let mut m = Mat::zeros(n, n);
        for i in 0..n {
            m.d[i * n + i] = v[i];
        }
        m
    }
    #[inline]
    pub fn at(&self, i: usize, j: usize) -> f64 {
        self.d[i * self.c + j]
    }
    #[inline]
    pub fn set(&mut self, i: usize, j: usize, v: f64) {
        self.d[i * self.c + j] = v;
    }
    pub fn row(&self, i: usize) -> Vec<f64> {
        self.d[i * self.c..(i + 1) * self.c].to_vec()
    }
    pub fn col(&self, j: usize) -> Vec<f64> {
        (0..self.r).map(|i| self.at(i, j)).collect()
    }
    pub fn rows(&self) -> Vec<Vec<f64>> {
        (0..self.r).map(|i| self.row(i)).collect()
    }
    pub fn t(&self) -> Mat {
        Mat::from_fn(self.c, self.r, |i, j| self.at(j, i))
    }
    pub fn mul(&self, o: &Mat) -> Mat {
        assert_eq!(self.c, o.r, "refla mul shape");
        let ot = o.t();
        Mat::from_fn(self.r, o.c, |i, j| {
            dotv(&self.d[i * self.c..(i + 1) * self.c], &ot.d[j * ot.c..(j + 1) * ot.c])
        })
    }
    pub fn sub(&self, o: &Mat) -> Mat {
        assert_eq!((self.r, self.c), (o.r, o.c), "refla sub shape");
        Mat { r: self.r, c: self.c, d: self.d.iter().zip(o.d.iter()).map(|(a, b)| a - b).collect() }
    }
    pub fn add(&self, o: &Mat) -> Mat {
        assert_eq!((self.r, self.c), (o.r, o.c), "refla add shape");
        Mat { r: self.r, c: self.c, d: self.d.iter().zip(o.d.iter()).map(|(a, b)| a + b).collect() }
    }
    pub fn scale(&self, s: f64) -> Mat {
        Mat { r: self.r, c: self.c, d: self.d.iter().map(|a| a * s).collect() }
    }
    pub fn fro(&self) -> f64 {
        norm2v(&self.d)
    }
    pub fn max_abs(&self) -> f64 {
        self.d.iter().fold(0.0f64, |m, x| m.max(x.abs()))
    }
    pub fn all_finite(&self) -> bool {
        self.d.iter().all(|x| x.is_finite())
    }
    pub fn mulv(&self, v: &[f64]) -> Vec<f64> {
        assert_eq!(self.c, v.len());
        (0..self.r).map(|i| dotv(&self.d[i * self.c..(i + 1) * self.c], v)).collect()
    }
    pub fn slice(&self, r0: usize, r1: usize, c0: usize, c1: usize) -> Mat {
        Mat::from_fn(r1 - r0, c1 - c0, |i, j| self.at(r0 + i, c0 + j))
    }
    pub fn hstack(&self, o: &Mat) -> Mat {
        assert_eq!(self.r, o.r);
        Mat::from_fn(self.r, self.c + o.c, |i, j| if j < self.c { self.at(i, j) } else { o.at(i, j - self.c) })
    }
    pub fn vstack(&self, o: &Mat) -> Mat {
        assert_eq!(self.c, o.c);
        let mut d = self.d.clone();
        d.extend_from_slice(&o.d);
        Mat { r: self.r + o.r, c: self.c, d }
    }
    pub fn randn(rng: &mut Rng, r: usize, c: usize) -> Mat {
        Mat::from_fn(r, c, |_, _| rng.normal())
    }
    /// rounds every entry to f32 and back (the data an f32 run actually sees)
    pub fn round_f32(&self) -> Mat {
        Mat { r: self.r, c: self.c, d: self.d.iter().map(|x| *x as f32 as f64).collect() }
    }
    /// ‖MᵀM − I‖_F
    pub fn orth_err(&self) -> f64 {
        let g = self.t().mul(self);
        g.sub(&Mat::eye(self.c)).fro()
    }
}

/// Householder QR: returns (Q m×m, R m×n).
pub fn house_qr(a: &Mat) -> (Mat, Mat) {
    let m = a.r;
    let n = a.c;
    let mut r = a.clone();
    let mut q = Mat::eye(m);
    for k in 0..n.min(m.saturating_sub(1)) {
        let x: Vec<f64> = (k..m).map(|i| r.at(i, k)).collect();
        let nx = norm2v(&x);
        if nx == 0.0 {
            continue;
        }
        let mut v = x.clone();
        v[0] += if x[0] >= 0.0 { nx } else { -nx };
        let nv = norm2v(&v);
        if nv == 0.0 {
            continue;
        }
        for e in v.iter_mut() {
            *e /= nv;
        }
        // R = (I - 2vv^T) R
        for j in 0..n {
            let s = 2.0 * csum((k..m).map(|i| v[i - k] * r.at(i, j)));
            for i in k..m {
                let val = r.at(i, j) - s * v[i - k];
                r.set(i, j, val);
            }
        }
        // Q = Q (I - 2vv^T)
        for i in 0..m {
            let s = 2.0 * csum((k..m).map(|j| q.at(i, j) * v[j - k]));
            for j in k..m {
                let val = q.at(i, j) - s * v[j - k];
                q.set(i, j, val);
            }
        }
    }
    (q, r)
}

/// Random orthogonal n×n matrix (Q factor of a Gaussian matrix, sign-fixed).
pub fn rand_orth(rng: &mut Rng, n: usize) -> Mat {
    let g = Mat::randn(rng, n, n);
    let (mut q, r) = house_qr(&g);
    for j in 0..n {
        if r.at(j, j) < 0.0 {
            for i in 0..n {
                let v = -q.at(i, j);
                q.set(i, j, v);
            }
        }
    }
    q
}

/// m×n matrix with orthonormal columns (m >= n).
pub fn rand_orth_cols(rng: &mut Rng, m: usize, n: usize) -> Mat {
    assert!(m >= n);
    if m > 400 {
        // tall case of the `large` families: Gram–Schmidt (twice) on a Gaussian m×n block, O(m·n²) instead of O(m³)
        let mut q = Mat::randn(rng, m, n);
        for j in 0..n {
            for _pass in 0..2 {
                for k in 0..j {
                    let d = csum((0..m).map(|i| q.at(i, k) * q.at(i, j)));
                    for i in 0..m {
                        let v = q.at(i, j) - d * q.at(i, k);
                        q.set(i, j, v);
                    }
                }
            }
            let nrm = csum((0..m).map(|i| q.at(i, j) * q.at(i, j))).sqrt();
            for i in 0..m {
                let v = q.at(i, j) / nrm;
                q.set(i, j, v);
            }
        }
        return q;
    }
    let q = rand_orth(rng, m);
    q.slice(0, m, 0, n)
}

/// Cyclic Jacobi for symmetric matrices. Returns (eigenvalues descending, eigenvectors as columns).
pub fn jacobi_eig(a: &Mat) -> (Vec<f64>, Mat) {
    let n = a.r;
    assert_eq!(a.r, a.c);
    let mut s = a.clone();
    // symmetrise
    for i in 0..n {
        for j in 0..i {
            let v = 0.5 * (s.at(i, j) + s.at(j, i));
            s.set(i, j, v);
            s.set(j, i, v);
        }
    }
    let mut v = Mat::eye(n);
    for _sweep in 0..100 {
        let mut off = 0.0;
        for i in 0..n {
            for j in 0..n {
                if i != j {
                    off += s.at(i, j) * s.at(i, j);
                }
            }
        }
        let tot = s.fro();
        if off.sqrt() <= 1e-16 * tot || tot == 0.0 {
            break;
        }
        for p in 0..n {
            for q in (p + 1)..n {
                let apq = s.at(p, q);
                if apq == 0.0 {
                    continue;
                }
                let app = s.at(p, p);
                let aqq = s.at(q, q);
                let theta = (aqq - app) / (2.0 * apq);
                let t = if theta.is_infinite() {
                    0.0
                } else {
                    theta.signum() / (theta.abs() + (theta * theta + 1.0).sqrt())
                };
                let t = if theta == 0.0 { 1.0 } else { t };
                let c = 1.0 / (t * t + 1.0).sqrt();
                let sn = t * c;
                for k in 0..n {
                    let akp = s.at(k, p);
                    let akq = s.at(k, q);
                    s.set(k, p, c * akp - sn * akq);
                    s.set(k, q, sn * akp + c * akq);
                }
                for k in 0..n {
                    let apk = s.at(p, k);
                    let aqk = s.at(q, k);
                    s.set(p, k, c * apk - sn * aqk);
                    s.set(q, k, sn * apk + c * aqk);
                }
                for k in 0..n {
                    let vkp = v.at(k, p);
                    let vkq = v.at(k, q);
                    v.set(k, p, c * vkp - sn * vkq);
                    v.set(k, q, sn * vkp + c * vkq);
                }
            }
        }
    }
    let mut idx: Vec<usize> = (0..n).collect();
    idx.sort_by(|&i, &j| s.at(j, j).partial_cmp(&s.at(i, i)).unwrap_or(std::cmp::Ordering::Equal));
    let d: Vec<f64> = idx.iter().map(|&i| s.at(i, i)).collect();
    let vv = Mat::from_fn(n, n, |i, j| v.at(i, idx[j]));
    (d, vv)
}

/// One-sided Jacobi SVD for m >= n: A = U diag(s) Vᵀ, U m×n, V n×n, s descending.
/// For m < n the transposed problem is solved and factors swapped (U m×m, V n×m).
pub fn jacobi_svd(a: &Mat) -> (Mat, Vec<f64>, Mat) {
    if a.r < a.c {
        let (u, s, v) = jacobi_svd(&a.t());
        return (v, s, u);
    }
    let m = a.r;
    let n = a.c;
    let mut u = a.clone();
    let mut v = Mat::eye(n);
    for _sweep in 0..80 {
        let mut rotated = false;
        for p in 0..n {
            for q in (p + 1)..n {
                let alpha = csum((0..m).map(|i| u.at(i, p) * u.at(i, p)));
                let beta = csum((0..m).map(|i| u.at(i, q) * u.at(i, q)));
                let gamma = csum((0..m).map(|i| u.at(i, p) * u.at(i, q)));
                if gamma == 0.0 || gamma.abs() <= 1e-17 * (alpha * beta).sqrt() {
                    continue;
                }
                rotated = true;
                let zeta = (beta - alpha) / (2.0 * gamma);
                let t = if zeta == 0.0 { 1.0 } else { zeta.signum() / (zeta.abs() + (1.0 + zeta * zeta).sqrt()) };
                let c = 1.0 / (1.0 + t * t).sqrt();
                let s = c * t;
                for i in 0..m {
                    let up = u.at(i, p);
                    let uq = u.at(i, q);
                    u.set(i, p, c * up - s * uq);
                    u.set(i, q, s * up + c * uq);
                }
                for i in 0..n {
                    let vp = v.at(i, p);
                    let vq = v.at(i, q);
                    v.set(i, p, c * vp - s * vq);
                    v.set(i, q, s * vp + c * vq);
                }
            }
        }
        if !rotated {
            break;
        }
    }
    let mut sv: Vec<f64> = (0..n).map(|j| norm2v(&u.col(j))).collect();
    let mut idx: Vec<usize> = (0..n).collect();
    idx.sort_by(|&i, &j| sv[j].partial_cmp(&sv[i]).unwrap_or(std::cmp::Ordering::Equal));
    let uu = Mat::from_fn(m, n, |i, j| {
        let s = sv[idx[j]];
        if s > 0.0 {
            u.at(i, idx[j]) / s
        } else {
            0.0
        }
    });
    let vv = Mat::from_fn(n, n, |i, j| v.at(i, idx[j]));
    sv = idx.iter().map(|&i| sv[i]).collect();
    (uu, sv, vv)
}

pub fn singular_values(a: &Mat) -> Vec<f64> {
    jacobi_svd(a).1
}

/// 2-norm condition number (inf when singular)
pub fn cond(a: &Mat) -> f64 {
    let s = singular_values(a);
    let k = a.r.min(a.c);
    if k == 0 {
        return 1.0;
    }
    let smin = s[k - 1];
    if smin == 0.0 {
        f64::INFINITY
    } else {
        s[0] / smin
    }
}

/// Solve square A x = b by Gaussian elimination with partial pivoting, one step of iterative
/// refinement. Returns None when singular to working precision.
pub fn solve(a: &Mat, b: &Mat) -> Option<Mat> {
    let n = a.r;
    assert_eq!(a.r, a.c);
    assert_eq!(b.r, n);
    let solve_once = |rhs: &Mat| -> Option<Mat> {
        let mut m = a.clone();
        let mut x = rhs.clone();
        for k in 0..n {
            let mut p = k;
            for i in k + 1..n {
                if m.at(i, k).abs() > m.at(p, k).abs() {
                    p = i;
                }
            }
            if m.at(p, k) == 0.0 {
                return None;
            }
            if p != k {
                for j in 0..n {
                    let t = m.at(k, j);
                    m.set(k, j, m.at(p, j));
                    m.set(p, j, t);
                }
                for j in 0..x.c {
                    let t = x.at(k, j);
                    x.set(k, j, x.at(p, j));
                    x.set(p, j, t);
                }
            }
            for i in k + 1..n {
                let f = m.at(i, k) / m.at(k, k);
                if f != 0.0 {
                    for j in k..n {
                        let v = m.at(i, j) - f * m.at(k, j);
                        m.set(i, j, v);
                    }
                    for j in 0..x.c {
                        let v = x.at(i, j) - f * x.at(k, j);
                        x.set(i, j, v);
                    }
                }
            }
        }
        for j in 0..x.c {
            for i in (0..n).rev() {
                let mut s = x.at(i, j);
                for k in i + 1..n {
                    s -= m.at(i, k) * x.at(k, j);
                }
                x.set(i, j, s / m.at(i, i));
            }
        }
        Some(x)
    };
    let x0 = solve_once(b)?;
    let r = b.sub(&a.mul(&x0));
    let dx = solve_once(&r)?;
    Some(x0.add(&dx))
}

/// Cholesky factor L (lower) of an SPD matrix; None if a pivot is not positive.
pub fn cholesky(a: &Mat) -> Option<Mat> {
    let n = a.r;
    let mut l = Mat::zeros(n, n);
    for j in 0..n {
        let mut d = a.at(j, j);
        for k in 0..j {
            d -= l.at(j, k) * l.at(j, k);
        }
        if !(d > 0.0) {
            return None;
        }
        let d = d.sqrt();
        l.set(j, j, d);
        for i in j + 1..n {
            let mut s = a.at(i, j);
            for k in 0..j {
                s -= l.at(i, k) * l.at(j, k);
            }
            l.set(i, j, s / d);
        }
    }
    Some(l)
}

/// Q1 · diag(s) · Q2ᵀ with random orthogonal factors; shape m×n, s.len() == min(m,n)
pub fn with_singular_values(rng: &mut Rng, m: usize, n: usize, s: &[f64]) -> Mat {
    let k = m.min(n);
    assert_eq!(s.len(), k);
    let u = rand_orth_cols(rng, m, k);
    let v = rand_orth_cols(rng, n, k);
    let us = Mat::from_fn(m, k, |i, j| u.at(i, j) * s[j]);
    us.mul(&v.t())
}

/// log-graded singular values from 1 down to 1/cond
pub fn graded(k: usize, cond: f64) -> Vec<f64> {
    (0..k).map(|i| if k == 1 { 1.0 } else { cond.powf(-(i as f64) / (k as f64 - 1.0)) }).collect()
}

#[cfg(test)]
mod tests {
    use super::*;
    #[test]
    fn selfcheck() {
        let mut rng = Rng::new(5);
        for &(m, n) in &[(5usize, 3usize), (4, 4), (3, 6), (1, 1), (7, 2)] {
            let a = Mat::randn(&mut rng, m, n);
            let (u, s, v) = jacobi_svd(&a);
            let k = m.min(n);
            let us = Mat::from_fn(m, k, |i, j| u.at(i, j) * s[j]);
            let rec = us.mul(&v.t());
            assert!(rec.sub(&a).fro() < 1e-13 * a.fro().max(1.0), "svd {} {}", m, n);
            let (q, r) = house_qr(&a);
            assert!(q.mul(&r).sub(&a).fro() < 1e-13 * a.fro().max(1.0));
            assert!(q.orth_err() < 1e-13);
        }
        let b = Mat::randn(&mut rng, 6, 6);
        let sym = b.add(&b.t());
        let (d, v) = jacobi_eig(&sym);
        let vd = Mat::from_fn(6, 6, |i, j| v.at(i, j) * d[j]);
        assert!(sym.mul(&v).sub(&vd).fro() < 1e-12 * sym.fro());
        let x = solve(&b, &Mat::eye(6)).unwrap();
        assert!(b.mul(&x).sub(&Mat::eye(6)).fro() < 1e-10);
        let spd = b.mul(&b.t()).add(&Mat::eye(6));
        let l = cholesky(&spd).unwrap();
        assert!(l.mul(&l.t()).sub(&spd).fro() < 1e-12 * spd.fro());
    }
}
