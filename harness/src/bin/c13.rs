//! C13 — DBSCAN: the training labelling satisfies the definition of density-based clustering, labels are
//! 0..c-1, core labels / noise set do not depend on the neighbour-search backend, predict = plurality vote
//! among the training points within eps (noise when there are none / unclustered points dominate).
//!
//! Oracle: brute force with the library's own metric object (so `d == eps` is decided on the very same
//! floating-point value the library sees): N(i) = {j : d(i,j) <= eps}, core(i) <=> |N(i)| >= min_samples,
//! connected components of the core graph. Model state is read through `serde_json::to_value(&model)`.
use scverif::refla::csum;
use scverif::*;
use serde::Serialize;
use smartcore::algorithm::neighbour::cover_tree::CoverTree;
use smartcore::algorithm::neighbour::KNNAlgorithmName;
use smartcore::cluster::dbscan::{DBSCANParameters, DBSCAN};
use smartcore::linalg::naive::dense_matrix::DenseMatrix;
use smartcore::math::distance::{Distance, Distances};
use smartcore::math::num::RealNumber;
use std::collections::{BTreeMap, BTreeSet};

#[derive(Clone, Copy, PartialEq, Debug)]
enum Backend {
    Linear,
    Cover,
}

impl Backend {
    fn name(self) -> &'static str {
        match self {
            Backend::Linear => "linear",
            Backend::Cover => "covertree",
        }
    }
    fn algo(self) -> KNNAlgorithmName {
        match self {
            Backend::Linear => KNNAlgorithmName::LinearSearch,
            Backend::Cover => KNNAlgorithmName::CoverTree,
        }
    }
}

/// per-case state shared by all configurations run on it
#[derive(Default)]
struct St {
    /// the cover tree cannot even be built on this data (n = 1 / all rows identical): reported once
    cover_dead: bool,
    nontrivial: bool,
    /// passed oracle evaluations, flushed into the case once (avoids one allocation per evaluation)
    pass: BTreeMap<&'static str, u64>,
    /// (oracle, signature) classes already reported for this case: a class is reported once per case
    reported: BTreeSet<(&'static str, String)>,
}

/// one oracle evaluation (detail only filled in when it failed)
struct Out {
    oracle: &'static str,
    ok: bool,
    detail: String,
}

fn out(v: &mut Vec<Out>, oracle: &'static str, ok: bool, detail: impl FnOnce() -> String) {
    v.push(Out { oracle, ok, detail: if ok { String::new() } else { detail() } });
}

fn emit(c: &mut Case, st: &mut St, outs: Vec<Out>, sig: &str, ctx: &dyn Fn() -> String) {
    for o in outs {
        if o.ok {
            *st.pass.entry(o.oracle).or_insert(0) += 1;
        } else if st.reported.insert((o.oracle, sig.to_string())) {
            c.check(o.oracle, false, sig, || format!("{}; {}", o.detail, ctx()));
        } else {
            c.count(o.oracle);
        }
    }
}

fn flush(c: &mut Case, st: &mut St) {
    for (k, v) in &st.pass {
        *c.checks.entry(k.to_string()).or_insert(0) += *v;
    }
    st.pass.clear();
}

/// Root-cause classification of a failure seen with the cover-tree backend (only used to choose the
/// signature, never the verdict): asks the library's CoverTree directly for the eps-neighbourhoods of
/// `probes` and compares with brute force. `scale` bounds the distances occurring in the tree.
fn covertree_diag<T, D>(pts: &[Vec<T>], metric: &D, eps: T, probes: &[Vec<T>], scale: T) -> Option<&'static str>
where
    T: RealNumber,
    D: Distance<Vec<T>, T> + Clone,
{
    let tree = match guard(|| CoverTree::new(pts.to_vec(), metric.clone())) {
        Ok(Ok(t)) => t,
        _ => return None,
    };
    let slack = T::from_f64(16.0).unwrap() * T::epsilon() * (eps + scale);
    let (mut wrong, mut at_eps) = (false, false);
    // geometrically distinct relations with d == eps exactly: how many exist, how many were dropped
    let mut boundary: BTreeMap<(Vec<u64>, Vec<u64>), bool> = BTreeMap::new();
    let bits = |v: &Vec<T>| -> Vec<u64> { v.iter().map(|x| f(*x).to_bits()).collect() };
    for q in probes {
        let got: Vec<usize> = match guard(|| tree.find_radius(q, eps).map(|v| v.iter().map(|x| x.0).collect::<Vec<usize>>())) {
            Ok(Ok(v)) => v,
            _ => return Some("covertree/radius-query-wrong"),
        };
        let mut seen = vec![0usize; pts.len()];
        for &j in &got {
            if j >= pts.len() {
                return Some("covertree/radius-query-wrong");
            }
            seen[j] += 1;
        }
        for j in 0..pts.len() {
            let d = metric.distance(q, &pts[j]);
            let inside = d <= eps;
            if seen[j] > 1 || (seen[j] == 1 && !inside) {
                wrong = true;
            }
            if d == eps {
                let e = boundary.entry((bits(q), bits(&pts[j]))).or_insert(true);
                *e = *e && seen[j] == 0;
            }
            if seen[j] == 0 && inside {
                if d >= eps - slack {
                    at_eps = true;
                } else {
                    wrong = true;
                }
            }
        }
    }
    if wrong {
        Some("covertree/radius-query-wrong")
    } else if at_eps && boundary.len() >= 6 && boundary.values().all(|missed| *missed) {
        // not the occasional rounding loss: the closed ball is treated as open
        Some("covertree/radius-query-drops-every-point-at-eps")
    } else if at_eps {
        Some("covertree/radius-query-drops-point-at-eps")
    } else {
        None
    }
}

struct Prep<T: RealNumber> {
    pts: Vec<Vec<T>>,
    x: DenseMatrix<T>,
    /// dm[i][j] = metric.distance(row i, row j), computed by the library's metric in T
    dm: Vec<Vec<T>>,
    all_identical: bool,
}

fn prep<T: RealNumber, D: Distance<Vec<T>, T>>(c: &mut Case, pts: Vec<Vec<T>>, metric: &D) -> Option<Prep<T>> {
    let n = pts.len();
    let mut dm = vec![vec![T::zero(); n]; n];
    for i in 0..n {
        for j in 0..n {
            dm[i][j] = metric.distance(&pts[i], &pts[j]);
        }
    }
    for i in 0..n {
        if dm[i][i] != T::zero() {
            c.inconclusive("metric: d(x,x) != 0 on a generated row");
            return None;
        }
        for j in 0..i {
            if !(dm[i][j] == dm[j][i]) || !dm[i][j].is_finite() {
                // the definition of the eps-neighbourhood would depend on the argument order
                c.inconclusive("metric not symmetric / not finite in floating point on the generated data");
                return None;
            }
        }
    }
    let all_identical = (0..n).all(|j| dm[0][j] == T::zero());
    let x = DenseMatrix::from_2d_vec(&pts);
    Some(Prep { pts, x, dm, all_identical })
}

/// definitional reference
struct Ref {
    nb: Vec<Vec<usize>>,
    core: Vec<bool>,
    /// component id (0..ncomp, numbered by smallest member index) of a core point, usize::MAX otherwise
    comp: Vec<usize>,
    ncomp: usize,
    n_core: usize,
    n_border: usize,
    n_noise: usize,
    ambiguous_border: bool,
    /// some non-core point with a core neighbour precedes (in row order) every core point of every
    /// component it touches: a scan in row order first meets it as "noise" and has to relabel it later
    provisional_noise: bool,
    boundary: bool,
}

fn uf_find(p: &mut Vec<usize>, mut i: usize) -> usize {
    while p[i] != i {
        p[i] = p[p[i]];
        i = p[i];
    }
    i
}

fn reference<T: RealNumber>(dm: &[Vec<T>], eps: T, ms: usize) -> Ref {
    let n = dm.len();
    let mut nb: Vec<Vec<usize>> = Vec::with_capacity(n);
    let mut boundary = false;
    for i in 0..n {
        let mut v = Vec::new();
        for j in 0..n {
            if dm[i][j] <= eps {
                v.push(j);
                if i != j && dm[i][j] == eps {
                    boundary = true;
                }
            }
        }
        nb.push(v);
    }
    let core: Vec<bool> = (0..n).map(|i| nb[i].len() >= ms).collect();
    let mut parent: Vec<usize> = (0..n).collect();
    for i in 0..n {
        if core[i] {
            for &j in &nb[i] {
                if core[j] {
                    let (a, b) = (uf_find(&mut parent, i), uf_find(&mut parent, j));
                    if a != b {
                        parent[a.max(b)] = a.min(b);
                    }
                }
            }
        }
    }
    let mut comp = vec![usize::MAX; n];
    let mut root_id: BTreeMap<usize, usize> = BTreeMap::new();
    let mut comp_min: Vec<usize> = Vec::new();
    for i in 0..n {
        if core[i] {
            let r = uf_find(&mut parent, i);
            let next = root_id.len();
            let id = *root_id.entry(r).or_insert(next);
            if id == comp_min.len() {
                comp_min.push(i);
            }
            comp[i] = id;
        }
    }
    let ncomp = root_id.len();
    let (mut n_border, mut n_noise, mut ambiguous, mut provisional) = (0, 0, false, false);
    for i in 0..n {
        if !core[i] {
            let cs: BTreeSet<usize> = nb[i].iter().filter(|&&j| core[j]).map(|&j| comp[j]).collect();
            if cs.is_empty() {
                n_noise += 1;
            } else {
                n_border += 1;
                if cs.len() >= 2 {
                    ambiguous = true;
                }
                if cs.iter().all(|&k| comp_min[k] > i) {
                    provisional = true;
                }
            }
        }
    }
    let n_core = core.iter().filter(|x| **x).count();
    Ref { nb, core, comp, ncomp, n_core, n_border, n_noise, ambiguous_border: ambiguous, provisional_noise: provisional, boundary }
}

struct Model<T: RealNumber, D: Distance<Vec<T>, T>> {
    m: DBSCAN<T, D>,
    labels: Vec<i64>,
    k: usize,
}

fn fit_one<T, D>(c: &mut Case, p: &Prep<T>, metric: &D, mname: &str, eps: T, ms: usize, b: Backend, st: &mut St) -> Option<Model<T, D>>
where
    T: SNum,
    D: Distance<Vec<T>, T> + Serialize + serde::de::DeserializeOwned + Clone,
{
    let n = p.pts.len();
    let r = guard(|| {
        DBSCAN::fit(
            &p.x,
            DBSCANParameters::default().with_distance(metric.clone()).with_eps(eps).with_min_samples(ms).with_algorithm(b.algo()),
        )
    });
    c.count("no-panic:fit");
    let model = match r {
        Err(pi) => {
            if pi.in_harness() {
                c.inconclusive(&format!("harness panic in fit: {}", pi.short()));
            } else if pi.is_budget() {
                c.violate("termination:fit", "step-budget", pi.short());
            } else {
                // the cover tree cannot be built on a single point / on identical points: defect of the
                // neighbour-search structure (owned by C04), kept under its own narrow signatures
                let sig = if b == Backend::Cover && n == 1 {
                    st.cover_dead = true;
                    "covertree/n=1".to_string()
                } else if b == Backend::Cover && p.all_identical {
                    st.cover_dead = true;
                    "covertree/all-identical".to_string()
                } else {
                    format!("{}/{}", b.name(), pi.loc())
                };
                c.violate("no-panic:fit", &sig, format!("DBSCAN::fit panicked: {} [n={} {} {} eps={:?} min_samples={}]", pi.short(), n, b.name(), mname, eps, ms));
            }
            return None;
        }
        Ok(Err(e)) => {
            c.check("fit.ok", false, &format!("{}/{}", b.name(), mname), || format!("fit returned Err({}) for eps={:?} > 0, min_samples={} >= 1, n={}", e, eps, ms, n));
            return None;
        }
        Ok(Ok(m)) => {
            c.check("fit.ok", true, "", String::new);
            m
        }
    };
    let v = match serde_json::to_value(&model) {
        Ok(v) => v,
        Err(_) => {
            c.inconclusive("serde_json::to_value(model) failed");
            return None;
        }
    };
    let labels: Option<Vec<i64>> = v.get("cluster_labels").and_then(|a| a.as_array()).and_then(|a| a.iter().map(|x| x.as_i64()).collect::<Option<Vec<i64>>>());
    let k = v.get("num_classes").and_then(|x| x.as_u64());
    match (labels, k) {
        (Some(labels), Some(k)) => Some(Model { m: model, labels, k: k as usize }),
        _ => {
            c.inconclusive("serialised DBSCAN model has no cluster_labels / num_classes fields");
            None
        }
    }
}

/// all clauses of the definition on the training labelling; second value: labels are usable for predict
fn eval_fit(r: &Ref, labels: &[i64], k: usize) -> (Vec<Out>, bool) {
    let mut o: Vec<Out> = Vec::with_capacity(10);
    let n = r.core.len();
    out(&mut o, "fit.labels-length", labels.len() == n, || format!("{} labels for {} rows", labels.len(), n));
    if labels.len() != n {
        return (o, false);
    }
    let bad = (0..n).find(|&i| labels[i] < -1 || labels[i] >= k as i64);
    let range_ok = bad.is_none();
    out(&mut o, "fit.label-range", range_ok, || {
        format!("row {} has label {} outside {{-1}} ∪ 0..num_classes={} (labels {:?})", bad.unwrap(), labels[bad.unwrap()], k, labels)
    });
    // labels in use are exactly 0..k-1
    let mut seen = vec![false; k];
    let mut stray = false;
    for &l in labels {
        if l >= 0 {
            if (l as usize) < k {
                seen[l as usize] = true;
            } else {
                stray = true;
            }
        }
    }
    out(&mut o, "fit.labels-0..c-1", !stray && seen.iter().all(|x| *x), || {
        let used: BTreeSet<i64> = labels.iter().cloned().filter(|&l| l >= 0).collect();
        format!("labels in use {:?} are not exactly 0..num_classes-1 with num_classes={}", used, k)
    });
    // every core point belongs to a cluster
    let bad = (0..n).find(|&i| r.core[i] && labels[i] < 0);
    out(&mut o, "fit.core-in-cluster", bad.is_none(), || {
        let i = bad.unwrap();
        format!("core row {} (|N|={}) has label {} (labels {:?})", i, r.nb[i].len(), labels[i], labels)
    });
    // same label <=> density-connected, over core points
    let mut comp_label: Vec<Option<(i64, usize)>> = vec![None; r.ncomp];
    let mut label_comp: BTreeMap<i64, (usize, usize)> = BTreeMap::new();
    let mut split: Option<(usize, usize)> = None;
    let mut merged: Option<(usize, usize)> = None;
    for i in 0..n {
        if r.core[i] && labels[i] >= 0 {
            match comp_label[r.comp[i]] {
                None => comp_label[r.comp[i]] = Some((labels[i], i)),
                Some((l, j)) => {
                    if l != labels[i] && split.is_none() {
                        split = Some((j, i));
                    }
                }
            }
            match label_comp.get(&labels[i]) {
                None => {
                    label_comp.insert(labels[i], (r.comp[i], i));
                }
                Some(&(cc, j)) => {
                    if cc != r.comp[i] && merged.is_none() {
                        merged = Some((j, i));
                    }
                }
            }
        }
    }
    out(&mut o, "fit.connected-cores-same-label", split.is_none(), || {
        let (a, b) = split.unwrap();
        format!("core rows {} and {} are density-connected but labelled {} and {} (labels {:?})", a, b, labels[a], labels[b], labels)
    });
    out(&mut o, "fit.unconnected-cores-differ", merged.is_none(), || {
        let (a, b) = merged.unwrap();
        format!("core rows {} and {} are not density-connected but both labelled {} (labels {:?})", a, b, labels[a], labels)
    });
    // number of clusters = number of components (every label is carried by some core point)
    out(&mut o, "fit.num_classes=components", k == r.ncomp, || format!("num_classes={} but the core graph has {} components (labels {:?})", k, r.ncomp, labels));
    // non-core points
    let mut bad_border: Option<usize> = None;
    let mut bad_noise: Option<usize> = None;
    let (mut nb_eval, mut nn_eval) = (false, false);
    for i in 0..n {
        if r.core[i] {
            continue;
        }
        let mut has_core = false;
        let mut ok = false;
        for &j in &r.nb[i] {
            if r.core[j] {
                has_core = true;
                if labels[j] == labels[i] && labels[i] >= 0 {
                    ok = true;
                }
            }
        }
        if has_core {
            nb_eval = true;
            if !ok && bad_border.is_none() {
                bad_border = Some(i);
            }
        } else {
            nn_eval = true;
            if labels[i] != -1 && bad_noise.is_none() {
                bad_noise = Some(i);
            }
        }
    }
    if nb_eval {
        out(&mut o, "fit.border-label", bad_border.is_none(), || {
            let i = bad_border.unwrap();
            let cn: Vec<(usize, i64)> = r.nb[i].iter().filter(|&&j| r.core[j]).map(|&j| (j, labels[j])).collect();
            format!("non-core row {} has label {} but its core neighbours (row,label) are {:?} (labels {:?})", i, labels[i], cn, labels)
        });
    }
    if nn_eval {
        out(&mut o, "fit.noise", bad_noise.is_none(), || {
            let i = bad_noise.unwrap();
            format!("row {} is neither core nor within eps of a core point but has label {} (labels {:?})", i, labels[i], labels)
        });
    }
    (o, range_ok)
}

/// predict = plurality among the training points within eps (incl. the noise bucket, ties accepted),
/// noise when there are none. Returns (general outcomes, outcome of the "none -> noise" clause).
fn eval_predict<T, D>(c: &mut Case, m: &Model<T, D>, n: usize, queries: &[Vec<T>], qd: &[Vec<T>], eps: T, b: Backend, ctx: &dyn Fn() -> String) -> (Vec<Out>, Option<Out>)
where
    T: SNum,
    D: Distance<Vec<T>, T> + Serialize + serde::de::DeserializeOwned + Clone,
{
    let mut o: Vec<Out> = Vec::with_capacity(4);
    if queries.is_empty() {
        return (o, None);
    }
    let qm = DenseMatrix::from_2d_vec(&queries.to_vec());
    let r = guard(|| m.m.predict(&qm));
    c.count("no-panic:predict");
    let res: Vec<T> = match r {
        Err(pi) => {
            if pi.in_harness() {
                c.inconclusive(&format!("harness panic in predict: {}", pi.short()));
            } else if pi.is_budget() {
                c.violate("termination:predict", "step-budget", pi.short());
            } else {
                c.violate("no-panic:predict", &format!("{}/{}", b.name(), pi.loc()), format!("predict panicked: {}; {}", pi.short(), ctx()));
            }
            return (o, None);
        }
        Ok(Err(e)) => {
            out(&mut o, "predict.ok", false, || format!("predict returned Err({})", e));
            return (o, None);
        }
        Ok(Ok(v)) => v,
    };
    out(&mut o, "predict.length", res.len() == queries.len(), || format!("{} predictions for {} rows", res.len(), queries.len()));
    if res.len() != queries.len() {
        return (o, None);
    }
    sequence_checks(c, "predict", b.name(), &m.m, &qm, &fv(&res), |mm, q| mm.predict(q));
    let k = m.k;
    let mut bad_value: Option<usize> = None;
    let mut bad_none: Option<usize> = None;
    let mut bad_plur: Option<(usize, Vec<usize>)> = None;
    let (mut none_eval, mut plur_eval) = (false, false);
    let mut counts = vec![0usize; k + 1];
    for qi in 0..queries.len() {
        let pred = f(res[qi]);
        let valid = pred == -1.0 || (pred.fract() == 0.0 && pred >= 0.0 && pred < k as f64);
        if !valid {
            if bad_value.is_none() {
                bad_value = Some(qi);
            }
            continue;
        }
        for x in counts.iter_mut() {
            *x = 0;
        }
        let mut any = false;
        for j in 0..n {
            if qd[qi][j] <= eps {
                any = true;
                let l = m.labels[j];
                counts[if l < 0 { k } else { l as usize }] += 1;
            }
        }
        if !any {
            none_eval = true;
            c.bucket("predict:no-neighbour");
            if pred != -1.0 && bad_none.is_none() {
                bad_none = Some(qi);
            }
        } else {
            plur_eval = true;
            let mx = *counts.iter().max().unwrap_or(&0);
            let nwin = counts.iter().filter(|&&x| x == mx).count();
            if nwin > 1 {
                c.bucket(if counts[k] == mx { "predict:tie-with-noise" } else { "predict:tie-between-clusters" });
            } else if counts[k] == mx {
                c.bucket("predict:noise-dominates");
            } else {
                c.bucket(if counts[k] > 0 { "predict:cluster-wins-over-noise-votes" } else { "predict:cluster-wins" });
            }
            let pl = if pred < 0.0 { k } else { pred as usize };
            if counts[pl] != mx && bad_plur.is_none() {
                bad_plur = Some((qi, counts.clone()));
            }
        }
    }
    out(&mut o, "predict.label-range", bad_value.is_none(), || {
        let qi = bad_value.unwrap();
        format!("prediction {} for query {} is not -1 or an integer in 0..{}", f(res[qi]), qi, k)
    });
    if plur_eval {
        out(&mut o, "predict.plurality", bad_plur.is_none(), || {
            let (qi, counts) = bad_plur.clone().unwrap();
            let q: Vec<f64> = fv(&queries[qi]);
            format!("query {} = {:?}: votes per label 0..{} then noise = {:?}, predict returned {} which is not a plurality label; training labels {:?}", qi, q, k, counts, f(res[qi]), m.labels)
        });
    }
    let none = if none_eval {
        let mut v = Vec::new();
        out(&mut v, "predict.none->noise", bad_none.is_none(), || {
            let qi = bad_none.unwrap();
            let q: Vec<f64> = fv(&queries[qi]);
            let dmin = qd[qi].iter().map(|x| f(*x)).fold(f64::INFINITY, f64::min);
            format!("query {} = {:?} has no training point within eps (nearest at {:e}) but predict returned {} instead of -1", qi, q, dmin, f(res[qi]))
        });
        v.pop()
    } else {
        None
    };
    (o, none)
}

fn sig_of(b: Backend, mname: &str) -> &'static str {
    match (b, mname) {
        (Backend::Linear, "euclidean") => "linear/euclidean",
        (Backend::Linear, "minkowski3") => "linear/minkowski3",
        (Backend::Linear, _) => "linear/manhattan",
        (Backend::Cover, "euclidean") => "covertree/euclidean",
        (Backend::Cover, "minkowski3") => "covertree/minkowski3",
        (Backend::Cover, _) => "covertree/manhattan",
    }
}

/// runs both backends on one prepared data set for every (eps, min_samples) of `configs`
fn run_configs<T, D>(c: &mut Case, pts: Vec<Vec<T>>, queries: &[Vec<T>], metric: &D, mname: &'static str, configs: &[(T, usize)], st: &mut St, small: bool)
where
    T: SNum,
    D: Distance<Vec<T>, T> + Serialize + serde::de::DeserializeOwned + Clone,
{
    let p = match prep(c, pts, metric) {
        Some(p) => p,
        None => return,
    };
    let n = p.pts.len();
    let qd: Vec<Vec<T>> = queries.iter().map(|q| (0..n).map(|j| metric.distance(q, &p.pts[j])).collect()).collect();
    let mut dmax = T::zero();
    for i in 0..n {
        for j in 0..i {
            if p.dm[i][j] > dmax {
                dmax = p.dm[i][j];
            }
        }
    }
    let mut qmax = dmax;
    for qi in 0..queries.len() {
        for j in 0..n {
            if !(metric.distance(&p.pts[j], &queries[qi]) == qd[qi][j]) || !qd[qi][j].is_finite() {
                c.inconclusive("metric not symmetric / not finite in floating point on a generated query");
                return;
            }
            if qd[qi][j] > qmax {
                qmax = qd[qi][j];
            }
        }
    }
    let pts_s = || if small { format!(" points={:?}", p.pts.iter().map(|r| fv(r)).collect::<Vec<_>>()) } else { String::new() };
    for &(eps, ms) in configs {
        let r = reference(&p.dm, eps, ms);
        c.bucket(match r.ncomp {
            0 => "clusters:0",
            1 => "clusters:1",
            2 => "clusters:2",
            _ => "clusters:3+",
        });
        c.bucket_if(r.n_border > 0, "border-points");
        c.bucket_if(r.n_noise > 0, "noise-points");
        c.bucket_if(r.ambiguous_border, "border-between-two-clusters");
        c.bucket_if(r.provisional_noise, "border-scanned-before-its-cluster");
        c.bucket_if(r.boundary, "boundary:d==eps");
        c.bucket_if(r.n_core == n && n > 0, "all-core");
        let mut models: Vec<(Backend, Model<T, D>)> = Vec::with_capacity(2);
        for &b in &[Backend::Linear, Backend::Cover] {
            if b == Backend::Cover && st.cover_dead {
                continue;
            }
            let ctx = || format!("[{} {} eps={:?} min_samples={} n={}{}]", b.name(), mname, eps, ms, n, pts_s());
            let m = match fit_one(c, &p, metric, mname, eps, ms, b, st) {
                Some(m) => m,
                None => continue,
            };
            let (outs, usable) = eval_fit(&r, &m.labels, m.k);
            let mut sg = sig_of(b, mname);
            if b == Backend::Cover && outs.iter().any(|o| !o.ok) {
                if let Some(d) = covertree_diag(&p.pts, metric, eps, &p.pts, dmax) {
                    sg = d;
                }
            }
            emit(c, st, outs, sg, &ctx);
            if r.ncomp >= 1 && (r.ncomp >= 2 || r.n_border > 0 || r.n_noise > 0) {
                st.nontrivial = true;
            }
            if usable {
                let (outs, none) = eval_predict(c, &m, n, queries, &qd, eps, b, &ctx);
                let mut sg = sig_of(b, mname);
                if b == Backend::Cover && outs.iter().any(|o| !o.ok) {
                    if let Some(d) = covertree_diag(&p.pts, metric, eps, queries, qmax) {
                        sg = d;
                    }
                }
                emit(c, st, outs, sg, &ctx);
                if let Some(o) = none {
                    let sgn = match (b, m.k >= 1) {
                        (Backend::Linear, true) => "linear/c>=1",
                        (Backend::Linear, false) => "linear/c=0",
                        (Backend::Cover, true) => "covertree/c>=1",
                        (Backend::Cover, false) => "covertree/c=0",
                    };
                    emit(c, st, vec![o], sgn, &ctx);
                }
            }
            models.push((b, m));
        }
        if models.len() == 2 && models[0].1.labels.len() == n && models[1].1.labels.len() == n {
            let (la, lb) = (&models[0].1.labels, &models[1].1.labels);
            let ctx = || format!("[{} eps={:?} min_samples={} n={}{}] linear {:?} covertree {:?}", mname, eps, ms, n, pts_s(), la, lb);
            let mut outs: Vec<Out> = Vec::with_capacity(2);
            let bad = (0..n).find(|&i| r.core[i] && la[i] != lb[i]);
            out(&mut outs, "backend.core-labels-equal", bad.is_none(), || format!("core row {} is labelled {} by LinearSearch and {} by CoverTree", bad.unwrap(), la[bad.unwrap()], lb[bad.unwrap()]));
            let bad = (0..n).find(|&i| (la[i] == -1) != (lb[i] == -1));
            out(&mut outs, "backend.noise-set-equal", bad.is_none(), || format!("row {} is noise for one backend only ({} vs {})", bad.unwrap(), la[bad.unwrap()], lb[bad.unwrap()]));
            let mut sg: &str = mname;
            if outs.iter().any(|o| !o.ok) {
                if let Some(d) = covertree_diag(&p.pts, metric, eps, &p.pts, dmax) {
                    sg = d;
                }
            }
            emit(c, st, outs, sg, &ctx);
        }
    }
    flush(c, st);
}

// ------------------------------------------------------------------------------------------ generators

/// (points, kind, constructed (eps, min_samples) if the generator aims at a specific structure)
type Gen = (Vec<Vec<f64>>, String, Option<(f64, usize)>);

fn draw_n(rng: &mut Rng, max: usize) -> usize {
    // the `large` family: more than a thousand points
    if scverif::big() > 0 {
        return rng.us(1025, 2000);
    }
    let r = rng.f();
    let hi = if r < 0.3 {
        12.min(max)
    } else if r < 0.7 {
        50.min(max)
    } else {
        max
    };
    rng.us(1, hi)
}

fn gen_blobs(rng: &mut Rng) -> Gen {
    let d = rng.us(1, 4);
    let n = draw_n(rng, 150);
    let nb = rng.us(1, 5);
    let centres: Vec<Vec<f64>> = (0..nb).map(|_| (0..d).map(|_| rng.uni(-10.0, 10.0)).collect()).collect();
    let sig: Vec<f64> = (0..nb).map(|_| rng.logu(0.1, 2.0)).collect();
    let noise = if rng.bool(0.6) { rng.uni(0.0, 0.3) } else { 0.0 };
    let mut pts: Vec<Vec<f64>> = Vec::with_capacity(n);
    for _ in 0..n {
        if rng.bool(noise) {
            pts.push((0..d).map(|_| rng.uni(-12.0, 12.0)).collect());
        } else {
            let b = rng.below(nb);
            pts.push((0..d).map(|a| centres[b][a] + sig[b] * rng.normal()).collect());
        }
    }
    let mut kind = "blobs".to_string();
    if rng.bool(0.15) {
        for p in pts.iter_mut() {
            for v in p.iter_mut() {
                *v = (*v * 2.0).round() / 2.0;
            }
        }
        kind.push_str("+grid0.5");
    }
    if rng.bool(0.1) && n >= 2 {
        for _ in 0..rng.us(1, 1 + n / 5) {
            let (a, b) = (rng.below(n), rng.below(n));
            pts[a] = pts[b].clone();
        }
        kind.push_str("+duplicates");
    }
    (pts, kind, None)
}

fn gen_chains(rng: &mut Rng) -> Gen {
    let d = rng.us(1, 4);
    let n = draw_n(rng, 150);
    let step = match rng.below(6) {
        0 => 1.0,
        1 => 0.1,
        2 => 0.25,
        3 => 0.3,
        _ => rng.logu(0.01, 10.0),
    };
    let jitter = if rng.bool(0.5) { 0.0 } else { rng.uni(0.01, 0.3) };
    let dir = |rng: &mut Rng| -> Vec<f64> {
        match rng.below(3) {
            0 => {
                let a = rng.below(d);
                (0..d).map(|i| if i == a { 1.0 } else { 0.0 }).collect()
            }
            1 => (0..d).map(|_| *rng.pick(&[-1.0, 0.0, 1.0, 1.0])).collect(),
            _ => {
                let v: Vec<f64> = (0..d).map(|_| rng.normal()).collect();
                let nn = v.iter().map(|x| x * x).sum::<f64>().sqrt().max(1e-9);
                v.iter().map(|x| x / nn).collect()
            }
        }
    };
    let mut start: Vec<f64> = if rng.bool(0.5) { vec![0.0; d] } else { (0..d).map(|_| rng.uni(-5.0, 5.0)).collect() };
    let mut u = dir(rng);
    let mut t = 0.0f64;
    let mut kidx = 0.0f64;
    let mut pts: Vec<Vec<f64>> = Vec::with_capacity(n);
    let end_blobs = rng.bool(0.3);
    let blob_n = if end_blobs { (n / 4).min(12) } else { 0 };
    let chain_n = n - 2 * blob_n;
    for _ in 0..chain_n {
        let mut p: Vec<f64> = (0..d).map(|a| start[a] + t * u[a]).collect();
        if jitter > 0.0 {
            for v in p.iter_mut() {
                *v += jitter * step * rng.normal();
            }
        }
        pts.push(p);
        let r = rng.f();
        let mult = if r < 0.03 {
            0.0
        } else if r < 0.10 {
            2.0
        } else if r < 0.13 {
            3.0
        } else {
            1.0
        };
        kidx += mult;
        // positions as k*step (not accumulated) so that equal gaps are equal up to one rounding
        t = kidx * step;
        if rng.bool(0.04) && !pts.is_empty() {
            start = pts[rng.below(pts.len())].clone();
            u = dir(rng);
            kidx = 1.0;
            t = step;
        }
    }
    if end_blobs && !pts.is_empty() {
        let ends = [pts[0].clone(), pts[pts.len() - 1].clone()];
        let s = step * rng.uni(0.2, 0.8);
        for e in ends.iter() {
            for _ in 0..blob_n {
                pts.push((0..d).map(|a| e[a] + s * rng.normal()).collect());
            }
        }
    }
    if pts.is_empty() {
        pts.push(vec![0.0; d]);
    }
    let mut kind = format!("chain(step={},jitter={})", step, if jitter > 0.0 { "yes" } else { "no" });
    if end_blobs {
        kind.push_str("+end-blobs");
    }
    if rng.bool(0.6) {
        rng.shuffle(&mut pts);
        kind.push_str("+shuffled");
    }
    (pts, kind, None)
}

/// two chains (spacing 0.45 eps, min_samples 4) whose end points are core and share one non-core point
/// lying within eps of both: a border point between two clusters; row order shuffled
fn gen_shared_border(rng: &mut Rng) -> Gen {
    let d = rng.us(1, 3);
    let eps = match rng.below(5) {
        0 => 1.0,
        1 => 0.5,
        2 => 0.1,
        3 => 0.3,
        _ => rng.logu(0.01, 10.0),
    };
    let s = 0.45 * eps;
    let axis = rng.below(d);
    let off: Vec<f64> = (0..d).map(|_| if rng.bool(0.5) { 0.0 } else { rng.uni(-3.0, 3.0) }).collect();
    let at = |x: f64| -> Vec<f64> { (0..d).map(|i| if i == axis { off[i] + x } else { off[i] }).collect() };
    let mut pts: Vec<Vec<f64>> = vec![at(0.0)];
    let mut exact = false;
    for side in [-1.0f64, 1.0] {
        let db = if rng.bool(0.4) {
            exact = true;
            eps
        } else {
            eps * rng.uni(0.56, 0.999)
        };
        for j in 0..rng.us(3, 6) {
            pts.push(at(side * (db + j as f64 * s)));
        }
    }
    let mut kind = format!("shared-border(eps={}{})", eps, if exact { ",arm at exactly eps" } else { "" });
    if rng.bool(0.2) {
        pts.push(at(0.0));
        kind.push_str("+duplicated-border");
    }
    for _ in 0..rng.below(3) {
        pts.push(at(rng.uni(5.0, 9.0) * eps * if rng.bool(0.5) { 1.0 } else { -1.0 } * 3.0));
    }
    if rng.bool(0.75) {
        rng.shuffle(&mut pts);
        kind.push_str("+shuffled");
    }
    (pts, kind, Some((eps, 4)))
}

fn gen_lattice(rng: &mut Rng) -> Gen {
    let d = rng.us(1, 4);
    let l = rng.us(1, 5) as i64;
    let n = draw_n(rng, 150);
    let scale = *rng.pick(&[1.0, 1.0, 1.0, 0.5, 0.1, 0.3, 3.0]);
    let pts: Vec<Vec<f64>> = (0..n).map(|_| (0..d).map(|_| rng.int(0, l) as f64 * scale).collect()).collect();
    (pts, format!("lattice(0..{},x{})", l, scale), None)
}

fn gen_uniform(rng: &mut Rng) -> Gen {
    let d = rng.us(1, 4);
    let n = draw_n(rng, 150);
    let scale = *rng.pick(&[1.0, 1.0, 10.0, 0.01, 100.0]);
    let pts: Vec<Vec<f64>> = (0..n).map(|_| (0..d).map(|_| rng.f() * scale).collect()).collect();
    (pts, format!("uniform(x{})", scale), None)
}

/// 6..16 points with many repetitions on a 2x2, 3x2 or 3x3 (x1..2) lattice, eps in {1, sqrt 2, 2}, min_samples 4..8: clusters that
/// touch through border points, core seeds surrounded by points that are already claimed, neighbourhoods full of duplicates
fn gen_dense_lattice(rng: &mut Rng) -> Gen {
    let d = rng.us(2, 3);
    let side: Vec<i64> = (0..d).map(|j| if j == 2 { rng.int(0, 1) } else { rng.int(1, 2) }).collect();
    let n = rng.us(6, 16);
    let nsites = rng.us(2, 6);
    let sites: Vec<Vec<f64>> = (0..nsites).map(|_| (0..d).map(|j| rng.int(0, side[j]) as f64).collect()).collect();
    let pts: Vec<Vec<f64>> = (0..n).map(|_| if rng.bool(0.75) { rng.pick(&sites).clone() } else { (0..d).map(|j| rng.int(0, side[j]) as f64).collect() }).collect();
    let eps = *rng.pick(&[1.0, 1.0, std::f64::consts::SQRT_2, 2.0]);
    let ms = rng.us(4, 8);
    (pts, "dense-lattice(repetitions)".to_string(), Some((eps, ms)))
}

fn gen_small(rng: &mut Rng) -> Gen {
    let d = rng.us(1, 3);
    let n = if rng.bool(0.2) { 1 } else { rng.us(2, 6) };
    if rng.bool(0.3) {
        let p: Vec<f64> = (0..d).map(|_| *rng.pick(&[0.0, 1.0, -2.5, 0.1])).collect();
        return (vec![p; n], "small:all-identical".to_string(), None);
    }
    let pts: Vec<Vec<f64>> = (0..n).map(|_| (0..d).map(|_| rng.int(0, 2) as f64).collect()).collect();
    (pts, "small:lattice(0..2)".to_string(), None)
}

/// eps over the whole range, both generic and exactly equal to occurring distances
fn draw_eps<T: RealNumber>(rng: &mut Rng, dm: &[Vec<T>], ms: usize) -> (T, &'static str) {
    let n = dm.len();
    let mut pos: Vec<f64> = Vec::new();
    for i in 0..n {
        for j in 0..i {
            if dm[i][j] > T::zero() {
                pos.push(f(dm[i][j]));
            }
        }
    }
    if pos.is_empty() {
        return (t::<T>(rng.logu(0.01, 10.0)), "free");
    }
    pos.sort_by(|a, b| a.partial_cmp(b).unwrap());
    let sorted_row = |i: usize| -> Vec<f64> {
        let mut r: Vec<f64> = (0..n).map(|j| f(dm[i][j])).collect();
        r.sort_by(|a, b| a.partial_cmp(b).unwrap());
        r
    };
    let r = rng.f();
    let (e, kind): (f64, &'static str) = if r < 0.30 {
        // exactly the distance to the k-th nearest neighbour of some point
        let row = sorted_row(rng.below(n));
        let k = rng.us(1, (n - 1).min(10));
        let v = row[k];
        if v > 0.0 {
            (v, "exact:kth-neighbour-distance")
        } else {
            (pos[0], "exact:min-distance")
        }
    } else if r < 0.45 {
        (pos[rng.below(pos.len())], "exact:some-pair-distance")
    } else if r < 0.75 {
        let row = sorted_row(rng.below(n));
        let v = row[(ms.max(2) - 1).min(n - 1)];
        let v = if v > 0.0 { v } else { pos[0] };
        (v * rng.uni(0.6, 1.6), "generic:around-kth-neighbour")
    } else if r < 0.85 {
        let i = rng.below(pos.len());
        let hi = if i + 1 < pos.len() { pos[i + 1] } else { pos[i] * 1.5 };
        (0.5 * (pos[i] + hi), "generic:between-distances")
    } else if r < 0.92 {
        (pos[0] * rng.uni(0.1, 0.99), "below-min-distance")
    } else if rng.bool(0.3) {
        (pos[pos.len() - 1], "exact:max-distance")
    } else {
        (pos[pos.len() - 1] * rng.uni(1.0, 3.0), "above-max-distance")
    };
    let et = t::<T>(e);
    if et > T::zero() && et.is_finite() {
        (et, kind)
    } else {
        (T::one(), "free")
    }
}

fn draw_queries<T: RealNumber>(rng: &mut Rng, pts: &[Vec<T>], eps: T) -> Vec<Vec<T>> {
    let n = pts.len();
    let d = pts[0].len();
    let e = f(eps);
    let lo: Vec<f64> = (0..d).map(|a| pts.iter().map(|p| f(p[a])).fold(f64::INFINITY, f64::min)).collect();
    let hi: Vec<f64> = (0..d).map(|a| pts.iter().map(|p| f(p[a])).fold(f64::NEG_INFINITY, f64::max)).collect();
    let m = rng.us(4, 14);
    let mut q: Vec<Vec<T>> = Vec::with_capacity(m);
    for _ in 0..m {
        let r = rng.f();
        let base: Vec<f64> = fv(&pts[rng.below(n)]);
        let v: Vec<f64> = if r < 0.15 {
            base
        } else if r < 0.5 {
            let u: Vec<f64> = (0..d).map(|_| rng.normal()).collect();
            let nn = u.iter().map(|x| x * x).sum::<f64>().sqrt().max(1e-12);
            let len = e * rng.uni(0.0, 2.2);
            (0..d).map(|a| base[a] + len * u[a] / nn).collect()
        } else if r < 0.65 {
            // at distance eps (up to rounding) along an axis
            let a = rng.below(d);
            let s = if rng.bool(0.5) { 1.0 } else { -1.0 };
            (0..d).map(|i| if i == a { base[i] + s * e } else { base[i] }).collect()
        } else if r < 0.82 {
            // far from everything
            (0..d).map(|a| hi[a] + (hi[a] - lo[a]) + 3.0 * e + rng.f()).collect()
        } else {
            (0..d).map(|a| rng.uni(lo[a] - e, hi[a] + e + 1e-9)).collect()
        };
        q.push(tv::<T>(&v));
    }
    q
}

fn run_random_t<T, D>(c: &mut Case, pts64: Vec<Vec<f64>>, kind: String, force: Option<(f64, usize)>, metric: D, mname: &'static str)
where
    T: SNum,
    D: Distance<Vec<T>, T> + Serialize + serde::de::DeserializeOwned + Clone,
{
    let pts: Vec<Vec<T>> = pts64.iter().map(|p| tv::<T>(p)).collect();
    let n = pts.len();
    let d = pts[0].len();
    let ms = match force {
        Some((_, ms)) => ms,
        None => {
            if c.rng.bool(0.85) {
                c.rng.us(1, 5)
            } else {
                c.rng.us(6, 8)
            }
        }
    };
    // distances for the choice of eps (the same values the oracle uses later)
    let dm: Vec<Vec<T>> = (0..n).map(|i| (0..n).map(|j| metric.distance(&pts[i], &pts[j])).collect()).collect();
    // "for every metric": the metric object handed to DBSCAN has to be the metric it is named after — its values
    // are compared with the closed form evaluated in f64 on the same (already rounded) coordinates
    {
        let tol = 64.0 * d as f64 * eps::<T>();
        let mut worst: (f64, usize, usize, f64) = (0.0, 0, 0, 0.0);
        for i in 0..n.min(40) {
            for j in 0..n.min(40) {
                let (a, b) = (fv(&pts[i]), fv(&pts[j]));
                let r = match mname {
                    "euclidean" => csum(a.iter().zip(b.iter()).map(|(x, y)| (x - y) * (x - y))).sqrt(),
                    "manhattan" => csum(a.iter().zip(b.iter()).map(|(x, y)| (x - y).abs())),
                    _ => csum(a.iter().zip(b.iter()).map(|(x, y)| (x - y).abs().powi(3))).cbrt(),
                };
                let got = f(dm[i][j]);
                // below min_normal^(1/p) the p-th powers of the coordinate differences leave the normal range of the
                // width under test: such distances are outside what "the metric" promises (no verdict)
                let pw = match mname {
                    "manhattan" => 1.0,
                    "euclidean" => 2.0,
                    _ => 3.0,
                };
                let min_normal: f64 = if width::<T>() == "f32" { 1.1754944e-38 } else { 2.2250738585072014e-308 };
                if r > 0.0 && r < 4.0 * min_normal.powf(1.0 / pw) {
                    continue;
                }
                let q = if got == r { 0.0 } else if r > 0.0 && got.is_finite() { (got - r).abs() / (tol * r) } else { f64::INFINITY };
                if q > worst.0 {
                    worst = (q, i, j, r);
                }
            }
        }
        c.ratio("metric.closed-form", worst.0, 1.0, &format!("{}/{}", mname, width::<T>()), || {
            format!("distance(points[{}], points[{}]) = {:e}, closed form {:e}", worst.1, worst.2, f(dm[worst.1][worst.2]), worst.3)
        });
    }
    let (eps, ekind) = match force {
        Some((e, _)) if t::<T>(e) > T::zero() => (t::<T>(e), "constructed"),
        _ => draw_eps::<T>(&mut c.rng, &dm, ms),
    };
    let queries = draw_queries::<T>(&mut c.rng, &pts, eps);
    c.describe(json!({
        "width": width::<T>(), "metric": mname, "kind": kind, "eps": f(eps), "eps_kind": ekind, "min_samples": ms, "n": n, "dims": d,
        "points": pts.iter().map(|p| fv(p)).collect::<Vec<_>>(),
        "queries": queries.iter().map(|p| fv(p)).collect::<Vec<_>>(),
    }));
    for p in &pts {
        c.hash_f64s(&fv(p));
    }
    c.hash_f64s(&[f(eps), ms as f64, d as f64, if mname == "euclidean" { 1.0 } else if mname == "manhattan" { 2.0 } else { 3.0 }, if width::<T>() == "f32" { 1.0 } else { 2.0 }]);
    c.bucket(&format!("width:{}", width::<T>()));
    c.bucket(&format!("metric:{}", mname));
    c.bucket(&format!("dims:{}", d));
    c.bucket(&format!("eps:{}", ekind));
    c.bucket(&format!("min_samples:{}", ms));
    c.bucket(match n {
        1 => "n:1",
        2..=12 => "n:2-12",
        13..=50 => "n:13-50",
        _ => "n:51-150",
    });
    let mut dup = false;
    for i in 0..n {
        for j in 0..i {
            if dm[i][j] == T::zero() {
                dup = true;
            }
        }
    }
    c.bucket_if(dup, "duplicate-rows");
    let mut st = St::default();
    run_configs(c, pts, &queries, &metric, mname, &[(eps, ms)], &mut st, n <= 12);
    if st.nontrivial {
        c.nontrivial();
    }
}

fn run_random(c: &mut Case, g: fn(&mut Rng) -> Gen) {
    let (pts, kind, force) = g(&mut c.rng);
    let f32w = c.rng.bool(0.2);
    let m = c.rng.below(10);
    let which = if m < 5 { 0 } else if m < 8 { 1 } else { 2 };
    match (f32w, which) {
        (false, 0) => run_random_t::<f64, _>(c, pts, kind, force, Distances::euclidian(), "euclidean"),
        (false, 1) => run_random_t::<f64, _>(c, pts, kind, force, Distances::manhattan(), "manhattan"),
        (false, _) => run_random_t::<f64, _>(c, pts, kind, force, Distances::minkowski(3), "minkowski3"),
        (true, 0) => run_random_t::<f32, _>(c, pts, kind, force, Distances::euclidian(), "euclidean"),
        (true, 1) => run_random_t::<f32, _>(c, pts, kind, force, Distances::manhattan(), "manhattan"),
        (true, _) => run_random_t::<f32, _>(c, pts, kind, force, Distances::minkowski(3), "minkowski3"),
    }
}

fn blobs(c: &mut Case) {
    run_random(c, gen_blobs)
}
fn chains(c: &mut Case) {
    run_random(c, gen_chains)
}
fn lattice(c: &mut Case) {
    run_random(c, gen_lattice)
}
fn uniform(c: &mut Case) {
    run_random(c, gen_uniform)
}
fn small(c: &mut Case) {
    run_random(c, gen_small)
}
fn shared_border(c: &mut Case) {
    run_random(c, gen_shared_border)
}
fn dense_lattice(c: &mut Case) {
    run_random(c, gen_dense_lattice)
}

/// DBSCAN expands clusters from an explicit stack that can hold a point several times. Random data keep it short
/// (about 1.4 n at most); this family *searches* for point sets and row orders that make it long — hill climbing on
/// small half-step lattice sets (moves: relocate a point, stack it onto another point, swap two rows), guided by the
/// high-water mark of the stack reported by the `verif` gauge — and then judges the labelling of the set it ended
/// with (and of the one it started from) by the same oracles as every other family, on both backends.
fn stack_stress(c: &mut Case) {
    const SITE: &str = "dbscan.stack";
    let n = c.rng.us(16, 36);
    let dims = c.rng.us(1, 2);
    let span = c.rng.us(6, 14) as i64;
    let ms = c.rng.us(5, 9);
    let eps = *c.rng.pick(&[0.5, 1.0, 1.0, 1.5]);
    // start: a few sites carrying several points each (dense duplicates) plus scattered points
    let sites: Vec<Vec<f64>> = (0..c.rng.us(2, 5)).map(|_| (0..dims).map(|_| c.rng.int(0, span) as f64 / 2.0).collect()).collect();
    let mut pts: Vec<Vec<f64>> = (0..n).map(|_| if c.rng.bool(0.6) { c.rng.pick(&sites).clone() } else { (0..dims).map(|_| c.rng.int(0, span) as f64 / 2.0).collect() }).collect();
    // fitness: the stack high-water mark; while it is still zero (no cluster at all) the number of core points
    let measure = |pts: &Vec<Vec<f64>>| -> Option<(u64, usize)> {
        let cores = (0..pts.len()).filter(|&i| (0..pts.len()).filter(|&j| csum((0..pts[i].len()).map(|t| (pts[i][t] - pts[j][t]).powi(2))).sqrt() <= eps).count() >= ms).count();
        let x = DenseMatrix::from_2d_vec(pts);
        let _ = smartcore::verif::take_max(SITE);
        let r = guard(|| DBSCAN::fit(&x, DBSCANParameters::default().with_eps(eps).with_min_samples(ms).with_algorithm(KNNAlgorithmName::LinearSearch)));
        let g = smartcore::verif::take_max(SITE);
        match r {
            Ok(Ok(_)) => Some((g, if g == 0 { cores } else { 0 })),
            _ => None,
        }
    };
    let mut best = match measure(&pts) {
        Some(g) => g,
        None => {
            c.inconclusive("stack-stress: the starting set could not be fitted");
            return;
        }
    };
    let steps = 2500;
    for _ in 0..steps {
        let mut cand = pts.clone();
        match c.rng.below(4) {
            0 => {
                let i = c.rng.below(n);
                cand[i] = (0..dims).map(|_| c.rng.int(0, span) as f64 / 2.0).collect();
            }
            1 => {
                let (i, j) = (c.rng.below(n), c.rng.below(n));
                cand[i] = cand[j].clone();
            }
            2 => {
                let (i, j) = (c.rng.below(n), c.rng.below(n));
                cand.swap(i, j);
            }
            _ => {
                let i = c.rng.below(n);
                let j = c.rng.below(dims);
                cand[i][j] = (cand[i][j] + if c.rng.bool(0.5) { 0.5 } else { -0.5 }).max(0.0);
            }
        }
        if let Some(g) = measure(&cand) {
            if g >= best {
                best = g;
                pts = cand;
            }
        }
    }
    let best = best.0;
    let ratio = best as f64 / n as f64;
    c.bucket(&format!("stack-high-water/n:{}", if ratio <= 1.0 { "<=1" } else if ratio <= 1.5 { "1..1.5" } else if ratio <= 2.0 { "1.5..2" } else if ratio <= 3.0 { "2..3" } else { ">3" }));
    c.describe(json!({"search": "hill climbing on the expansion-stack high-water mark", "eps": eps, "min_samples": ms, "n": n, "stack_high_water": best, "points": pts}));
    for p in &pts {
        c.hash_f64s(p);
    }
    c.hash_f64s(&[eps, ms as f64]);
    c.bucket("metric:euclidean");
    let queries: Vec<Vec<f64>> = (0..6).map(|_| (0..dims).map(|_| c.rng.int(0, span) as f64 / 2.0).collect()).collect();
    let mut st = St::default();
    run_configs::<f64, _>(c, pts, &queries, &Distances::euclidian(), "euclidean", &[(eps, ms)], &mut st, false);
    c.nontrivial();
}

// ------------------------------------------------------------------------------------------ exhaustive

/// index -> sequence with repetition over 0..base, ordered by length 1..=maxlen
fn decode_rep(mut idx: u64, base: u64, maxlen: usize) -> Option<Vec<usize>> {
    for len in 1..=maxlen {
        let cnt = base.pow(len as u32);
        if idx < cnt {
            let mut out = Vec::with_capacity(len);
            for _ in 0..len {
                out.push((idx % base) as usize);
                idx /= base;
            }
            return Some(out);
        }
        idx -= cnt;
    }
    None
}

/// index -> sequence without repetition over 0..nsym, ordered by length 1..=maxlen
fn decode_perm(mut idx: u64, nsym: usize, maxlen: usize) -> Option<Vec<usize>> {
    for len in 1..=maxlen.min(nsym) {
        let cnt: u64 = (0..len).map(|p| (nsym - p) as u64).product();
        if idx < cnt {
            let mut avail: Vec<usize> = (0..nsym).collect();
            let mut out = Vec::with_capacity(len);
            for p in 0..len {
                let ch = (nsym - p) as u64;
                out.push(avail.remove((idx % ch) as usize));
                idx /= ch;
            }
            return Some(out);
        }
        idx -= cnt;
    }
    None
}

fn run_exhaustive(c: &mut Case, pts: Vec<Vec<f64>>, queries: Vec<Vec<f64>>) {
    c.describe(json!({
        "points": pts, "queries": queries,
        "configurations": "eps in {1, sqrt(2), 2} x min_samples 1..4 x {euclidean, manhattan} x {LinearSearch, CoverTree}, f64",
    }));
    let n = pts.len();
    c.bucket(&format!("n:{}", n));
    let mut dup = false;
    for i in 0..n {
        for j in 0..i {
            if pts[i] == pts[j] {
                dup = true;
            }
        }
    }
    c.bucket_if(dup, "duplicate-rows");
    let mut configs: Vec<(f64, usize)> = Vec::new();
    for &e in &[1.0, 2.0f64.sqrt(), 2.0] {
        for ms in 1..=4 {
            configs.push((e, ms));
        }
    }
    let mut st = St::default();
    run_configs::<f64, _>(c, pts.clone(), &queries, &Distances::euclidian(), "euclidean", &configs, &mut st, true);
    run_configs::<f64, _>(c, pts, &queries, &Distances::manhattan(), "manhattan", &configs, &mut st, true);
    if st.nontrivial {
        c.nontrivial();
    }
}

/// all sequences (order and repetitions matter: the scan is sequential) of 1..=6 (quick) / 1..=7 (thorough)
/// points of {0,1,2,3}
fn lattice1d(c: &mut Case) {
    let seq = match decode_rep(c.index, 4, 7) {
        Some(s) => s,
        None => {
            c.skip("index outside the enumerated space");
            return;
        }
    };
    let pts: Vec<Vec<f64>> = seq.iter().map(|&v| vec![v as f64]).collect();
    let queries: Vec<Vec<f64>> = [-2.0, -1.0, 0.0, 1.0, 2.0, 3.0, 1.5, 4.5, 9.0].iter().map(|&v| vec![v]).collect();
    run_exhaustive(c, pts, queries);
}

fn grid_point(k: usize) -> Vec<f64> {
    vec![(k / 3) as f64, (k % 3) as f64]
}

fn grid_queries() -> Vec<Vec<f64>> {
    let mut q: Vec<Vec<f64>> = (0..9).map(grid_point).collect();
    q.push(vec![1.0, -1.0]);
    q.push(vec![3.0, 3.0]);
    q.push(vec![0.5, 0.5]);
    q.push(vec![10.0, 10.0]);
    q
}

/// all ordered selections without repetition of 1..=5 (quick) / 1..=7 (thorough) points of the 3x3 lattice
fn lattice2d(c: &mut Case) {
    let seq = match decode_perm(c.index, 9, 7) {
        Some(s) => s,
        None => {
            c.skip("index outside the enumerated space");
            return;
        }
    };
    run_exhaustive(c, seq.iter().map(|&k| grid_point(k)).collect(), grid_queries());
}

/// all sequences with repetition of 1..=4 (quick) / 1..=5 (thorough) points of the 3x3 lattice
fn lattice2d_rep(c: &mut Case) {
    let seq = match decode_rep(c.index, 9, 5) {
        Some(s) => s,
        None => {
            c.skip("index outside the enumerated space");
            return;
        }
    };
    run_exhaustive(c, seq.iter().map(|&k| grid_point(k)).collect(), grid_queries());
}

/// parameter builders keep every configured value whatever the order of the `with_*` steps
fn builders_fam(c: &mut Case) {
    scverif::builders::case(c, "C13")
}

/// the uniform api traits (Predictor / SupervisedEstimator / UnsupervisedEstimator / Transformer) behave
/// exactly like the inherent methods
fn api_paths_fam(c: &mut Case) {
    scverif::apipaths::case(c, "C13")
}

/// blobs, chains, lattices and uniform clouds of 1025..2000 points (beyond the ordinary bound of 150)
fn large(c: &mut Case) {
    let g = c.index % 4;
    scverif::with_big(1, || match g {
        0 => blobs(c),
        1 => chains(c),
        2 => lattice(c),
        _ => uniform(c),
    })
}

fn main() {
    runner::main(Spec {
        property: "C13",
        rule: "random families (blobs, chains, lattice, uniform, small, shared_border): 1..150 points in 1..4 dimensions (Gaussian blobs with background noise, equispaced / jittered / branching chains with gaps and end blobs, integer lattices with duplicates, uniform clouds, tiny sets incl. a single point and identical points, two chains sharing a non-core point within eps of a core point of each with constructed eps and min_samples = 4), f64 (80 %) or f32, Euclidean or Manhattan metric, min_samples 1..8, eps drawn over the whole range (below the smallest distance ... above the largest) both generic and exactly equal to an occurring distance; 4..14 predict queries (training rows, perturbed rows, rows at distance eps, far rows, box-uniform rows). Exhaustive families: lattice1d = every sequence of 1..6 (quick) / 1..7 (thorough) points of {0,1,2,3}; lattice2d = every ordered selection without repetition of 1..5 / 1..7 points of the 3x3 lattice; lattice2d_rep = every sequence with repetition of 1..4 / 1..5 points of the 3x3 lattice; each with eps in {1, sqrt 2, 2} x min_samples 1..4 x both metrics x both backends and 9 / 13 fixed predict queries. Every fit is run with both backends. A case is non-trivial when, for at least one checked configuration, the reference labelling has at least one cluster and additionally a second cluster, a border point or a noise point; distinct = distinct hash of (points, eps, min_samples, metric, width) resp. of the enumerated point sequence; metrics: Euclidean (50 %), Manhattan (30 %), Minkowski(3) (20 %), and the metric object handed to DBSCAN is compared with its closed form on the first 40 points (distances whose p-th powers underflow the width excepted); large: blobs, chains, lattices and uniform clouds of 1025..2000 points; dense_lattice: 6..16 points with many repetitions on a 2x2 .. 3x3x2 lattice, eps in {1, sqrt 2, 2}, min_samples 4..8",
        assumptions: vec![
            "neighbourhoods of the oracle are computed with the library's own metric object in the model's float type (Distances::euclidian()/manhattan()), so d == eps is decided on the identical floating-point value; both metrics are exactly symmetric in IEEE arithmetic (verified per case, otherwise inconclusive)",
            "cluster_labels / num_classes are read from serde_json::to_value(&model)",
            "inputs are finite; eps > 0 finite; min_samples >= 1 (rejection of invalid parameters is not part of the statement)",
            "ties in the predict vote (also between a cluster and the noise bucket) accept every tied label; which adjacent cluster a border point joins is free; the numbering of clusters is free as long as it is 0..c-1, except that core labels must coincide between the two backends as the statement demands",
            "a cover-tree construction panic on a single point / on identical points is reported under its own signatures covertree/n=1 and covertree/all-identical (defect of the neighbour-search structure, property C04)",
            "when a check fails for the cover-tree backend the monitor asks the library's CoverTree::find_radius directly and, if its answer differs from brute force, files the violation under the root-cause signature covertree/radius-query-drops-point-at-eps (only points at distance eps up to rounding are lost), covertree/radius-query-drops-every-point-at-eps or covertree/radius-query-wrong instead of covertree/<metric>; this only selects the signature, never the verdict",
            "an (oracle, signature) class is reported at most once per case (further failures of the same class in the same case are only counted)",
        ],
        families: vec![
            Family::new("api_paths", 300, 3000, api_paths_fam),
            Family::new("builders", 300, 3000, builders_fam),
            Family::new("blobs", 2500, 40000, blobs),
            Family::new("chains", 2500, 40000, chains),
            Family::new("lattice", 2500, 40000, lattice),
            Family::new("uniform", 1500, 20000, uniform),
            Family::new("small", 1000, 10000, small),
            Family::new("shared_border", 1000, 10000, shared_border),
            Family::new("dense_lattice", 4000, 60000, dense_lattice),
            Family::new("stack_stress", 64, 640, stack_stress),
            Family::new("large", 80, 500, large),
            Family::new("lattice1d", 5460, 21844, lattice1d).exhaustive(true, true),
            Family::new("lattice2d", 18729, 260649, lattice2d).exhaustive(true, true),
            Family::new("lattice2d_rep", 7380, 66429, lattice2d_rep).exhaustive(true, true),
        ],
        min_nontrivial: 5000,
        case_timeout_s: 120,
    });
}
