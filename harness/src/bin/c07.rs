//! C07 — ordinary least squares and ridge regression return the exact minimiser of their objective:
//! residual identities (normal equations / vanishing gradient), intercept algebra, solver agreement,
//! predict == X·w + b.
#![allow(non_snake_case)]
use scverif::gen::*;
use scverif::refla::*;
use scverif::*;
use smartcore::linalg::naive::dense_matrix::DenseMatrix;
use smartcore::linalg::stats::MatrixStats;
use smartcore::linear::linear_regression::{LinearRegression, LinearRegressionParameters, LinearRegressionSolverName};
use smartcore::linear::ridge_regression::{RidgeRegression, RidgeRegressionParameters, RidgeRegressionSolverName};

// ------------------------------------------------------------------------------------------------
// tolerances (all relative to the quantities the property names; ε = machine epsilon of the width)
// ------------------------------------------------------------------------------------------------
/// OLS normal equations: ‖Aᵀr‖ ≤ OLS_C·(n+p)·ε·‖A‖_F(‖y‖ + ‖A‖_F‖ŵ‖)   (DESIGN §5 C07)
const OLS_C: f64 = 1e3;
/// ridge gradient: ‖g‖ ≤ RIDGE_C·p·ε·((‖ZᵀZ‖_F + α)‖w_z‖ + ‖Z‖_F‖y‖)  (DESIGN §5 C07)
///                      + MEAN_C·n·ε·|Σy|·‖(mean_j/std_j)_j‖₂            (standardised columns only).
/// The second term is the backward error of the column mean itself: a mean summed in the working
/// precision is off by up to (n−1)·ε·mean|x_j| (≥ ½ulp even when compensated), which shifts column j of
/// Z by up to n·ε·|mean_j|/std_j and enters Zᵀy (the library, legitimately, does not centre y) as Σy·shift.
const RIDGE_C: f64 = 1e4;
const MEAN_C: f64 = 10.0;
/// standardised designs with max_j |mean_j|/std_j above this get the signature suffix "/mean>10std": the
/// relative error of a one-pass variance E[x²]−mean² grows like c·ε·(mean/std)² (c ≈ √n typically) and
/// enters the gradient as 2α·δ_std·‖w_z‖; below the bound that is ≤ c/(100p) of the DESIGN threshold, so
/// the unsuffixed class does not depend on how the library computes the variance
const BIG_MEAN: f64 = 10.0;
/// intercept algebra b = ȳ − Σ w_j·mean_j: INTERCEPT_C·(n+p)·ε·(mean|y| + Σ|w_j|·mean_i|x_ij|)
const INTERCEPT_C: f64 = 100.0;
/// predict: |ŷ_i − (x_i·w + b)| ≤ PREDICT_C·(p+2)·ε·(Σ|x_ij·w_j| + |b|)
const PREDICT_C: f64 = 1e3;
/// QR vs SVD (least-squares perturbation bound, Wedin / Higham Thm 20.1):
/// ‖Δŵ‖ ≤ AGREE_OLS_C·(n+p)·ε·κ·(2‖ŵ‖ + (κ+1)‖r‖/σ_max),  κ = κ₂([X 1]) by reference SVD
const AGREE_OLS_C: f64 = 100.0;
/// Cholesky vs SVD on the same normal equations: ‖Δw_z‖ ≤ AGREE_RIDGE_C·ε·κ₂(ZᵀZ+αI)·‖w_z‖ (DESIGN)
const AGREE_RIDGE_C: f64 = 1e3;
/// measured precondition: κ·ε of the system actually solved must stay ≤ this ("cond·eps << 1")
const MAX_COND_EPS: f64 = 1e-3;

fn round<T: SNum>(v: f64) -> f64 {
    f(t::<T>(v))
}

fn is32<T: SNum>() -> bool {
    width::<T>() == "f32"
}

#[derive(Clone, Copy, PartialEq)]
enum Model {
    Ols,
    RidgeNorm,
    RidgeRaw,
    /// normalised ridge on columns with a large offset: mean magnitude / column scale log-uniform in
    /// 30..1e4 (f32: 30..300), generated part cond <= 3, κ₂ of the raw X measured <= 1e6
    RidgeOffset,
}

struct Data {
    x: Mat,      // n×p, already rounded to T
    y: Vec<f64>, // already rounded to T
    n: usize,
    p: usize,
    mu: Vec<f64>, // column means (compensated, f64)
    sd: Vec<f64>, // population standard deviations (two-pass, f64)
    ykind: &'static str,
    scale_mode: &'static str,
    mean_mag: f64,
    /// κ₂ of the centred, standardised part of X (the part the generator conditions)
    kz: f64,
    /// max_j |mean_j| / std_j
    mean_over_std: f64,
}

fn standardised(d: &Data) -> Mat {
    Mat::from_fn(d.n, d.p, |i, j| (d.x.at(i, j) - d.mu[j]) / d.sd[j])
}

/// Draws (X, y) inside the quantifier: 1 ≤ p ≤ 8, p < n ≤ 80, cond ≤ 1e6 (f32: ≤ 30 / 10), column
/// scales 1e-2..1e3 (either one per column or one common scale), non-zero column means.
fn draw_data<T: SNum>(c: &mut Case, model: Model) -> Option<Data> {
    let big = scverif::big() > 0;
    // the `large` family: 9..40 features, up to 300 rows more than features
    let p = if big { c.rng.us(9, 40) } else { c.rng.us(1, 8) };
    let r = c.rng.f();
    let n = if big {
        c.rng.us(p + 1, p + 300)
    } else if r < 0.12 {
        p + 1
    } else if r < 0.5 {
        c.rng.us(p + 1, (p + 12).min(80))
    } else {
        c.rng.us(p + 1, 80)
    };
    let maxcond = if model == Model::RidgeOffset {
        3.0
    } else if is32::<T>() {
        if model == Model::RidgeRaw {
            10.0
        } else {
            30.0
        }
    } else {
        1e6
    };
    // per-column scales over the whole range; or one common scale drawn from the same range. In f32
    // the raw models (no standardisation inside the library) only get the common scale, because the
    // column scaling multiplies the condition number of the system that is solved (up to 1e5).
    let wide_allowed = (!is32::<T>() || model == Model::RidgeNorm) && model != Model::RidgeOffset;
    let wide = wide_allowed && c.rng.bool(0.5);
    // offset family: one common column scale (≈ std) in [1e-2, 1e3/mean_mag], so that the entries
    // themselves stay within 1e-2..1e3 in magnitude as well and κ₂(X) ≈ mean_mag·cond stays ≤ 1e6
    let mean_mag = if model == Model::RidgeOffset { c.rng.logu(30.0, if is32::<T>() { 300.0 } else { 1e4 }) } else { *c.rng.pick(&[0.3, 1.0, 1.0, 3.0]) };
    let top = if model == Model::RidgeOffset { (1e3 / mean_mag).max(1e-2) } else { 1e3 };
    let (smin, smax, scale_mode) = if wide {
        (1e-2, top, "per-column 1e-2..1e3")
    } else {
        let s = c.rng.logu(1e-2, top);
        (s, s, "common")
    };
    let mut x = design(&mut c.rng, n, p, maxcond, smin, smax, mean_mag);
    // integer-valued designs (contrast codes, dummies, small counts): exact cancellations between entries, exactly
    // orthogonal columns and exactly zero cross-products occur here and never in real-valued draws
    let mut scale_mode = scale_mode;
    if model != Model::RidgeOffset && c.rng.bool(0.15) {
        let dummy = c.rng.bool(0.4);
        x = Mat::from_fn(n, p, |_, _| if dummy { c.rng.below(2) as f64 } else { c.rng.int(-2, 2) as f64 });
        scale_mode = if dummy { "integer:0/1-dummies" } else { "integer:-2..2" };
    }
    if is32::<T>() {
        x = x.round_f32();
    }
    let mu: Vec<f64> = (0..p).map(|j| mean_v(&x.col(j))).collect();
    let sd: Vec<f64> = (0..p).map(|j| var_pop(&x.col(j)).max(0.0).sqrt()).collect();
    if sd.iter().any(|s| !(*s > 0.0)) || !x.all_finite() {
        c.skip("a drawn column is constant");
        return None;
    }
    // ---- target
    let yk = c.rng.f();
    let ykind = if yk < 0.40 {
        "linear+noise"
    } else if yk < 0.68 {
        "pure-noise"
    } else if yk < 0.80 {
        "noise+offset"
    } else if yk < 0.92 {
        "exact-linear"
    } else if yk < 0.95 {
        "constant"
    } else if yk < 0.98 {
        "small-integers"
    } else {
        "zero"
    };
    let mut y: Vec<f64> = match ykind {
        "linear+noise" | "exact-linear" => {
            let w0: Vec<f64> = (0..p).map(|j| c.rng.normal() / sd[j]).collect();
            let b0 = 3.0 * c.rng.normal();
            let sig: Vec<f64> = (0..n).map(|i| dotv(&x.row(i), &w0) + b0).collect();
            let m = mean_v(&sig);
            let rms = (csum(sig.iter().map(|s| (s - m) * (s - m))) / n as f64).sqrt();
            let lvl = if ykind == "exact-linear" { 0.0 } else { c.rng.logu(1e-8, 1.0) * rms.max(1e-300) };
            sig.iter().map(|s| s + lvl * c.rng.normal()).collect()
        }
        "pure-noise" => (0..n).map(|_| c.rng.normal()).collect(),
        "noise+offset" => {
            let off = c.rng.logu(1.0, 1e3) * if c.rng.bool(0.5) { -1.0 } else { 1.0 };
            (0..n).map(|_| c.rng.normal() + off).collect()
        }
        "constant" => {
            let v = c.rng.uni(-5.0, 5.0);
            vec![v; n]
        }
        "small-integers" => (0..n).map(|_| if c.rng.bool(0.3) { 0.0 } else { c.rng.int(-3, 3) as f64 }).collect(),
        _ => vec![0.0; n],
    };
    if c.rng.bool(0.5) {
        let ys = c.rng.logu(1e-3, 1e3);
        for v in y.iter_mut() {
            *v *= ys;
        }
    }
    if is32::<T>() {
        for v in y.iter_mut() {
            *v = round::<T>(*v);
        }
    }
    let mut d = Data { x, y, n, p, mu, sd, ykind, scale_mode, mean_mag, kz: f64::NAN, mean_over_std: 0.0 };
    d.mean_over_std = (0..p).map(|j| d.mu[j].abs() / d.sd[j]).fold(0.0, f64::max);
    d.kz = cond(&standardised(&d));
    if !(d.kz <= 1e6) {
        c.skip("condition number of the centred, standardised design above 1e6");
        return None;
    }
    Some(d)
}

/// behavioural / input-class buckets, recorded only for cases that pass all measured preconditions
fn data_buckets<T: SNum>(c: &mut Case, d: &Data) {
    let (n, p) = (d.n, d.p);
    c.bucket(&format!("width:{}", width::<T>()));
    c.bucket(&format!("p:{}", p));
    c.bucket(if n == p + 1 { "n:p+1" } else if n <= p + 12 { "n:<=p+12" } else { "n:large" });
    c.bucket(&format!("y:{}", d.ykind));
    c.bucket(&format!("scales:{}", d.scale_mode));
    c.bucket(if d.kz > 1e4 { "cond(Z):1e4..1e6" } else if d.kz > 1e2 { "cond(Z):1e2..1e4" } else { "cond(Z):<=1e2" });
    c.bucket(if d.mean_over_std > 1e4 {
        "mean/std:>1e4"
    } else if d.mean_over_std > 1e3 {
        "mean/std:1e3..1e4"
    } else if d.mean_over_std > 100.0 {
        "mean/std:100..1e3"
    } else if d.mean_over_std > 10.0 {
        "mean/std:10..100"
    } else {
        "mean/std:<=10"
    });
}

fn describe<T: SNum>(c: &mut Case, d: &Data, model: &str, alpha: Option<f64>, extra: Value) {
    c.describe(json!({"model": model, "width": width::<T>(), "n": d.n, "p": d.p, "alpha": alpha, "y_kind": d.ykind,
        "scales": d.scale_mode, "mean_mag": d.mean_mag, "cond_standardised": d.kz, "max_mean_over_std": d.mean_over_std,
        "measured": extra, "X": mat_json(&d.x), "y": d.y}));
    c.hash_f64s(&d.x.d);
    c.hash_f64s(&d.y);
    c.hash_f64s(&[d.n as f64, alpha.unwrap_or(-1.0), if is32::<T>() { 1.0 } else { 2.0 }, (scverif::rng::hash_str(model) % 1000003) as f64]);
}

/// r_i = y_i − (x_i·w + b), one compensated sum per row
fn residual(x: &Mat, w: &[f64], b: f64, y: &[f64]) -> Vec<f64> {
    (0..x.r).map(|i| csum((0..x.c).map(|j| -x.at(i, j) * w[j]).chain([-b, y[i]].iter().cloned()))).collect()
}

/// predict(X) == X·w + b row by row
fn check_predict<T: SNum>(c: &mut Case, oracle: &str, sg: &str, d: &Data, w: &[f64], b: f64, pred: Option<Result<Vec<T>, smartcore::error::Failed>>) {
    let pred = match pred {
        Some(Ok(v)) => fv(&v),
        Some(Err(e)) => {
            c.check(&format!("{}.ok", oracle), false, sg, || format!("predict returned Err({})", e));
            return;
        }
        None => return,
    };
    if !c.check(&format!("{}.len", oracle), pred.len() == d.n, sg, || format!("predict returned {} values for {} rows", pred.len(), d.n)) {
        return;
    }
    let mut worst = 0.0f64;
    let mut at = 0usize;
    for i in 0..d.n {
        let exp = csum((0..d.p).map(|j| d.x.at(i, j) * w[j]).chain(std::iter::once(b)));
        let sc = csum((0..d.p).map(|j| (d.x.at(i, j) * w[j]).abs())) + b.abs();
        let diff = (pred[i] - exp).abs();
        let rel = if diff == 0.0 {
            0.0
        } else if sc > 0.0 && diff.is_finite() {
            diff / sc
        } else {
            f64::INFINITY
        };
        if rel > worst || rel.is_nan() {
            worst = if rel.is_nan() { f64::INFINITY } else { rel };
            at = i;
        }
    }
    let tol = PREDICT_C * (d.p as f64 + 2.0) * eps::<T>();
    c.ratio(oracle, worst, tol, sg, || format!("row {}: predict = {:e}, x·w + b from the reported coefficients differs (relative to Σ|x_ij·w_j| + |b|)", at, pred[at]));
}

// ------------------------------------------------------------------------------------------------
// OLS
// ------------------------------------------------------------------------------------------------
struct OlsFit {
    w: Vec<f64>, // p coefficients followed by the intercept
    rn: f64,
}

fn ols_one<T: SNum>(c: &mut Case, d: &Data, A: &Mat, cn: &[f64], solver: &str) -> Option<OlsFit> {
    let idx = c.index;
    let (n, p) = (d.n, d.p);
    let sg = format!("{}/{}", width::<T>(), solver);
    let xm: DenseMatrix<T> = to_dense(&d.x);
    let yv: Vec<T> = tv(&d.y);
    let params = LinearRegressionParameters::default().with_solver(if solver == "qr" { LinearRegressionSolverName::QR } else { LinearRegressionSolverName::SVD });
    let model = match c.must(&format!("ols.fit({})", solver), || LinearRegression::fit(&xm, &yv, scverif::reused(idx, params))) {
        Some(Ok(m)) => m,
        Some(Err(e)) => {
            c.check("ols.fit-ok", false, &sg, || format!("fit returned Err({}) for a full-column-rank design", e));
            return None;
        }
        None => return None,
    };
    c.check("ols.fit-ok", true, &sg, String::new);
    let coef = from_m(model.coefficients());
    let b = f(model.intercept());
    if !c.check("ols.coef-shape", (coef.r, coef.c) == (p, 1), &sg, || format!("coefficients() is {}x{}, expected {}x1", coef.r, coef.c, p)) {
        return None;
    }
    let mut w: Vec<f64> = coef.d.clone();
    w.push(b);
    if !c.check("ols.finite", w.iter().all(|v| v.is_finite()), &sg, || format!("non-finite coefficient / intercept: {:?}", w)) {
        return None;
    }
    let e = eps::<T>();
    let tau = OLS_C * (n + p) as f64 * e;
    let an = A.fro();
    let wn = norm2v(&w);
    let yn = norm2v(&d.y);
    let r = residual(&d.x, &w[..p], b, &d.y);
    let rn = norm2v(&r);
    let g: Vec<f64> = (0..=p).map(|j| dotv(&A.col(j), &r)).collect();
    // (1) residual ⟂ every column of [X 1], jointly, at the backward error of a stable LS solver
    c.ratio("ols.normal-eq", norm2v(&g), tau * an * (yn + an * wn), &sg, || format!("‖[X 1]ᵀ(y − ŷ)‖₂ with coefficients {:?}", w));
    // (2) per column: |a_jᵀr| ≤ τ(‖A‖‖r‖ + ‖a_j‖(‖A‖‖ŵ‖ + ‖y‖)) — same backward-error model (ΔA normwise
    //     bounded), but not swamped by the large columns when the fit is nearly exact
    let mut worst = 0.0f64;
    let mut at = 0;
    for j in 0..p {
        let thr = tau * (an * rn + cn[j] * (an * wn + yn));
        let q = if g[j] == 0.0 { 0.0 } else { g[j].abs() / thr };
        if !(q <= worst) {
            worst = if q.is_nan() { f64::INFINITY } else { q };
            at = j;
        }
    }
    c.ratio("ols.column-orthogonality", worst, 1.0, &sg, || format!("column {}: |x_jᵀ(y − ŷ)| = {:e} relative to τ(‖A‖‖r‖ + ‖x_j‖(‖A‖‖ŵ‖ + ‖y‖))", at, g[at].abs()));
    c.ratio("ols.residual-sum-zero", g[p].abs(), tau * (an * rn + cn[p] * (an * wn + yn)), &sg, || format!("|Σ(y − ŷ)| (intercept {:e})", b));
    // (3) predict
    let pred = c.must(&format!("ols.predict({})", solver), || model.predict(&xm));
    check_predict::<T>(c, "ols.predict", &sg, d, &w[..p], b, pred);
    // (4) call sequence fit → store → restore → predict: the restored model is the same linear map
    if c.rng.bool(0.15) {
        let json = c.rng.bool(0.5);
        let fmt = if json { "json" } else { "bincode" };
        c.bucket(&format!("sequence:fit-store-restore-predict/{}", fmt));
        match c.must("ols.restore", || restored(&model, json)) {
            Some(Ok(m2)) => {
                let c2 = from_m(m2.coefficients());
                let b2 = f(m2.intercept());
                let same = (c2.r, c2.c) == (p, 1) && c2.d.iter().zip(coef.d.iter()).all(|(x, y)| close(*x, *y, 4.0 * e, y.abs())) && close(b2, b, 4.0 * e, b.abs());
                if c.check(&format!("ols.restored.coefficients/{}", fmt), same, &sg, || format!("restored coefficients {}x{} {:?} / {:e}, fitted {}x{} {:?} / {:e}", c2.r, c2.c, c2.d, b2, coef.r, coef.c, coef.d, b)) {
                    let pred = c.must("ols.restored.predict", || m2.predict(&xm));
                    check_predict::<T>(c, &format!("ols.restored.predict/{}", fmt), &sg, d, &c2.d, b2, pred);
                }
            }
            Some(Err(msg)) => {
                c.check(&format!("ols.restored.ok/{}", fmt), false, &sg, || msg.clone());
            }
            None => {}
        }
    }
    Some(OlsFit { w, rn })
}

fn ols_t<T: SNum>(c: &mut Case) {
    let d = match draw_data::<T>(c, Model::Ols) {
        Some(d) => d,
        None => return,
    };
    let (n, p) = (d.n, d.p);
    let e = eps::<T>();
    let A = d.x.hstack(&Mat::from_fn(n, 1, |_, _| 1.0));
    let sv = singular_values(&A);
    let ka = if sv[p] > 0.0 { sv[0] / sv[p] } else { f64::INFINITY };
    if !(ka * e <= MAX_COND_EPS) {
        c.skip("κ₂([X 1])·eps above 1e-3 (system not well-conditioned in this float width)");
        return;
    }
    describe::<T>(c, &d, "ols", None, json!({"cond_[X 1]": ka}));
    data_buckets::<T>(c, &d);
    c.bucket(if ka > 1e9 { "cond([X 1]):>1e9" } else if ka > 1e6 { "cond([X 1]):1e6..1e9" } else if ka > 1e3 { "cond([X 1]):1e3..1e6" } else { "cond([X 1]):<=1e3" });
    let cn: Vec<f64> = (0..=p).map(|j| norm2v(&A.col(j))).collect();
    let q = ols_one::<T>(c, &d, &A, &cn, "qr");
    let s = ols_one::<T>(c, &d, &A, &cn, "svd");
    if q.is_some() || s.is_some() {
        c.nontrivial();
    }
    if let (Some(q), Some(s)) = (q, s) {
        // both are backward-stable LS solutions of the same (A, y): each is within the LS perturbation
        // bound of the exact solution, so they are within twice that of each other
        let dw: Vec<f64> = q.w.iter().zip(s.w.iter()).map(|(a, b)| a - b).collect();
        let wn = norm2v(&q.w).max(norm2v(&s.w));
        let rn = q.rn.max(s.rn);
        let tol = AGREE_OLS_C * (n + p) as f64 * e * ka * (2.0 * wn + (ka + 1.0) * rn / sv[0]);
        if tol <= 0.1 * wn || wn == 0.0 {
            c.bucket("ols.agree:checked");
            c.ratio("ols.qr=svd", norm2v(&dw), tol, &width::<T>().to_string(), || {
                format!("‖ŵ_qr − ŵ_svd‖₂ (coefficients+intercept), κ₂([X 1]) = {:e}, ‖ŵ‖ = {:e}, ‖r‖ = {:e}; qr {:?} svd {:?}", ka, wn, rn, q.w, s.w)
            });
        } else {
            c.bucket("ols.agree:vacuous(cond)");
        }
    }
}

// ------------------------------------------------------------------------------------------------
// ridge
// ------------------------------------------------------------------------------------------------
struct RidgeCtx {
    alpha: f64,
    normalize: bool,
    /// max_j |mean_j|/std_j > BIG_MEAN (normalize only)
    big_mean: bool,
    /// MEAN_C·n·ε·|Σy|·‖(mean_j/std_j)_j‖₂ (0 for raw)
    mean_allow: f64,
    /// diagnostic only: the library's public column std against the two-pass reference
    libstd: String,
    /// diagnostic only: min_j std_j / ulp(mean_j)
    min_std_ulps: f64,
    z: Mat,     // standardised with the population std (normalize) or X itself
    ztz_f: f64, // ‖ZᵀZ‖_F
    z_f: f64,   // ‖Z‖_F
    kg: f64,    // κ₂(ZᵀZ + αI)
}

impl RidgeCtx {
    fn mode(&self) -> &'static str {
        if !self.normalize {
            "raw"
        } else if self.big_mean {
            "normalize/mean>10std"
        } else {
            "normalize"
        }
    }
}

struct RidgeFit {
    wz: Vec<f64>,
}

fn ridge_one<T: SNum>(c: &mut Case, d: &Data, k: &RidgeCtx, solver: &str) -> Option<RidgeFit> {
    let idx = c.index;
    let (n, p) = (d.n, d.p);
    let sg = format!("{}/{}/{}", width::<T>(), solver, k.mode());
    let xm: DenseMatrix<T> = to_dense(&d.x);
    let yv: Vec<T> = tv(&d.y);
    let params = RidgeRegressionParameters::default()
        .with_alpha(t::<T>(k.alpha))
        .with_normalize(k.normalize)
        .with_solver(if solver == "cholesky" { RidgeRegressionSolverName::Cholesky } else { RidgeRegressionSolverName::SVD });
    let model = match c.must(&format!("ridge.fit({})", solver), || RidgeRegression::fit(&xm, &yv, scverif::reused(idx, params))) {
        Some(Ok(m)) => m,
        Some(Err(e)) => {
            c.check("ridge.fit-ok", false, &sg, || format!("fit returned Err({}) for n > p, non-constant columns (smallest std/ulp(mean) = {:e}), κ(ZᵀZ+αI) = {:e}; {}", e, k.min_std_ulps, k.kg, k.libstd));
            return None;
        }
        None => return None,
    };
    c.check("ridge.fit-ok", true, &sg, String::new);
    let coef = from_m(model.coefficients());
    let b = f(model.intercept());
    if !c.check("ridge.coef-shape", (coef.r, coef.c) == (p, 1), &sg, || format!("coefficients() is {}x{}, expected {}x1", coef.r, coef.c, p)) {
        return None;
    }
    let w: Vec<f64> = coef.d.clone();
    if !c.check("ridge.finite", w.iter().all(|v| v.is_finite()) && b.is_finite(), &sg, || format!("non-finite coefficient / intercept: {:?} / {}; {}", w, b, k.libstd)) {
        return None;
    }
    let e = eps::<T>();
    let yn = norm2v(&d.y);
    // fitted − y from the reported (w, b) on the raw columns (identical to Z·w_z + b_z − y)
    let res: Vec<f64> = residual(&d.x, &w, b, &d.y).iter().map(|v| -v).collect();
    let zr: Vec<f64> = (0..p).map(|j| dotv(&k.z.col(j), &res)).collect();
    // gradient w.r.t. the standardised coefficients, for std = population std · fac
    let grad_ratio = |fac: f64| -> (f64, f64, f64) {
        let wz: Vec<f64> = (0..p).map(|j| if k.normalize { w[j] * d.sd[j] * fac } else { w[j] }).collect();
        let g: Vec<f64> = (0..p).map(|j| zr[j] / fac + k.alpha * wz[j]).collect();
        let thr = RIDGE_C * p as f64 * e * ((k.ztz_f / (fac * fac) + k.alpha) * norm2v(&wz) + k.z_f / fac * yn) + k.mean_allow / fac;
        let gn = norm2v(&g);
        (if gn == 0.0 { 0.0 } else { gn / thr }, gn, thr)
    };
    let (r_pop, gn, thr) = grad_ratio(1.0);
    let wz: Vec<f64> = (0..p).map(|j| if k.normalize { w[j] * d.sd[j] } else { w[j] }).collect();
    if k.normalize {
        // the statement does not say whether "standardised" divides by the population or the sample
        // standard deviation: the gradient may vanish under either convention
        let (r_smp, _, _) = grad_ratio((n as f64 / (n as f64 - 1.0)).sqrt());
        let r = if r_smp < r_pop { r_smp } else { r_pop };
        c.bucket(if r_smp < r_pop && !(r_pop <= 1.0) { "std-convention:sample" } else { "std-convention:population" });
        c.ratio("ridge.gradient", r, 1.0, &sg, || {
            format!("‖Zᵀ(Z·w_z + b_z − y) + α·w_z‖₂ = {:e} (population std) vs threshold {:e}; ratio under sample std {:e}; α = {:e}, w = {:?}, b = {:e}; {}", gn, thr, r_smp, k.alpha, w, b, k.libstd)
        });
        // unpenalised intercept: Σ residual = 0  ⇔  b = ȳ − Σ w_j·mean_j
        let ybar = mean_v(&d.y);
        let exp_b = csum(std::iter::once(ybar).chain((0..p).map(|j| -w[j] * d.mu[j])));
        let sc = csum(d.y.iter().map(|v| v.abs())) / n as f64 + csum((0..p).map(|j| w[j].abs() * csum((0..n).map(|i| d.x.at(i, j).abs())) / n as f64));
        c.ratio("ridge.intercept", (b - exp_b).abs(), INTERCEPT_C * (n + p) as f64 * e * sc, &sg, || format!("intercept {:e}, ȳ − Σ w_j·mean_j = {:e}", b, exp_b));
    } else {
        c.ratio("ridge.gradient", r_pop, 1.0, &sg, || format!("‖Xᵀ(X·w − y) + α·w‖₂ = {:e} vs threshold {:e}; α = {:e}, w = {:?}", gn, thr, k.alpha, w));
        c.check("ridge.intercept-zero", b == 0.0, &sg, || format!("normalize = false must give b = 0, got {:e}", b));
    }
    let pred = c.must(&format!("ridge.predict({})", solver), || model.predict(&xm));
    check_predict::<T>(c, "ridge.predict", &sg, d, &w, b, pred);
    // call sequence fit → store → restore → predict
    if c.rng.bool(0.15) {
        let json = c.rng.bool(0.5);
        let fmt = if json { "json" } else { "bincode" };
        c.bucket(&format!("sequence:fit-store-restore-predict/{}", fmt));
        match c.must("ridge.restore", || restored(&model, json)) {
            Some(Ok(m2)) => {
                let c2 = from_m(m2.coefficients());
                let b2 = f(m2.intercept());
                let same = (c2.r, c2.c) == (p, 1) && c2.d.iter().zip(coef.d.iter()).all(|(x, y)| close(*x, *y, 4.0 * e, y.abs())) && close(b2, b, 4.0 * e, b.abs());
                if c.check(&format!("ridge.restored.coefficients/{}", fmt), same, &sg, || format!("restored coefficients {}x{} {:?} / {:e}, fitted {}x{} {:?} / {:e}", c2.r, c2.c, c2.d, b2, coef.r, coef.c, coef.d, b)) {
                    let pred = c.must("ridge.restored.predict", || m2.predict(&xm));
                    check_predict::<T>(c, &format!("ridge.restored.predict/{}", fmt), &sg, d, &c2.d, b2, pred);
                }
            }
            Some(Err(msg)) => {
                c.check(&format!("ridge.restored.ok/{}", fmt), false, &sg, || msg.clone());
            }
            None => {}
        }
    }
    Some(RidgeFit { wz })
}

fn ridge_t<T: SNum>(c: &mut Case, model: Model) {
    let normalize = model != Model::RidgeRaw;
    let d = match draw_data::<T>(c, model) {
        Some(d) => d,
        None => return,
    };
    let p = d.p;
    let e = eps::<T>();
    let mut kx = f64::NAN;
    if model == Model::RidgeOffset {
        // keep the large-offset inputs inside the literal reading of the quantifier as well: κ₂ of the
        // raw X itself (≈ cond·|mean|/std for p ≥ 2) must be <= 1e6 (f32: cond·eps <= 1e-3)
        kx = cond(&d.x);
        if !(kx <= 1e6 && kx * e <= MAX_COND_EPS) {
            c.skip("offset family: κ₂(X) of the raw design above 1e6 (f32: above 1e-3/eps)");
            return;
        }
    }
    let alpha = round::<T>(c.rng.logu(1e-3, 1e2));
    let z = if normalize { standardised(&d) } else { d.x.clone() };
    let sz = singular_values(&z);
    let kg = (sz[0] * sz[0] + alpha) / (sz[p - 1] * sz[p - 1] + alpha);
    if !(kg * e <= MAX_COND_EPS) {
        c.skip("κ₂(ZᵀZ+αI)·eps above 1e-3 (normal equations not well-conditioned in this float width)");
        return;
    }
    describe::<T>(c, &d, if normalize { "ridge/normalize" } else { "ridge/raw" }, Some(alpha), json!({"cond_ZtZ+aI": kg, "cond_raw_X": kx}));
    data_buckets::<T>(c, &d);
    if model == Model::RidgeOffset {
        c.bucket(if kx > 1e4 { "cond(raw X):1e4..1e6" } else if kx > 1e2 { "cond(raw X):1e2..1e4" } else { "cond(raw X):<=1e2" });
    }
    let big_mean = normalize && d.mean_over_std > BIG_MEAN;
    let mean_allow = if normalize {
        let ms: Vec<f64> = (0..p).map(|j| d.mu[j] / d.sd[j]).collect();
        MEAN_C * d.n as f64 * e * csum(d.y.iter().cloned()).abs() * norm2v(&ms)
    } else {
        0.0
    };
    let (libstd, min_std_ulps) = if normalize {
        let xm: DenseMatrix<T> = to_dense(&d.x);
        let ls: Vec<f64> = guard(|| fv(&xm.std(0))).unwrap_or_default();
        let rel = (0..ls.len().min(p)).map(|j| ((ls[j] - d.sd[j]) / d.sd[j]).abs()).fold(0.0f64, |m, v| if v.is_nan() { f64::INFINITY } else { m.max(v) });
        let ulps = (0..p).map(|j| d.sd[j] / (e * d.mu[j].abs().max(f64::MIN_POSITIVE))).fold(f64::INFINITY, f64::min);
        (format!("library std(0) = {:?} vs two-pass reference {:?} (max relative error {:e}, max |mean|/std = {:e})", ls, d.sd, rel, d.mean_over_std), ulps)
    } else {
        (String::new(), f64::INFINITY)
    };
    c.bucket(if alpha < 0.1 { "alpha:<0.1" } else if alpha < 10.0 { "alpha:0.1..10" } else { "alpha:>=10" });
    c.bucket(if kg > 1e8 { "cond(ZtZ+aI):>1e8" } else if kg > 1e4 { "cond(ZtZ+aI):1e4..1e8" } else { "cond(ZtZ+aI):<=1e4" });
    let ztz_f = z.t().mul(&z).fro();
    let k = RidgeCtx { alpha, normalize, big_mean, mean_allow, libstd, min_std_ulps, ztz_f, z_f: z.fro(), z, kg };
    let a = ridge_one::<T>(c, &d, &k, "cholesky");
    let b = ridge_one::<T>(c, &d, &k, "svd");
    if a.is_some() || b.is_some() {
        c.nontrivial();
    }
    if let (Some(a), Some(b)) = (a, b) {
        let dw: Vec<f64> = a.wz.iter().zip(b.wz.iter()).map(|(x, y)| x - y).collect();
        let wn = norm2v(&a.wz).max(norm2v(&b.wz));
        let tol = AGREE_RIDGE_C * e * kg * wn;
        if AGREE_RIDGE_C * e * kg <= 0.1 {
            c.bucket("ridge.agree:checked");
            let sg = format!("{}/{}", width::<T>(), k.mode());
            c.ratio("ridge.cholesky=svd", norm2v(&dw), tol, &sg, || {
                format!("‖w_chol − w_svd‖₂ (standardised coordinates), κ₂(ZᵀZ+αI) = {:e}, ‖w_z‖ = {:e}; chol {:?} svd {:?}", kg, wn, a.wz, b.wz)
            });
        } else {
            c.bucket("ridge.agree:vacuous(cond)");
        }
    }
}

fn ridge_norm_t<T: SNum>(c: &mut Case) {
    ridge_t::<T>(c, Model::RidgeNorm)
}

fn ridge_raw_t<T: SNum>(c: &mut Case) {
    ridge_t::<T>(c, Model::RidgeRaw)
}

fn ridge_offset_t<T: SNum>(c: &mut Case) {
    ridge_t::<T>(c, Model::RidgeOffset)
}

macro_rules! both {
    ($name:ident, $g:ident, $p32:expr) => {
        fn $name(c: &mut Case) {
            if c.rng.bool($p32) {
                $g::<f32>(c)
            } else {
                $g::<f64>(c)
            }
        }
    };
}
both!(ols, ols_t, 0.25);
both!(ridge_norm, ridge_norm_t, 0.25);
both!(ridge_raw, ridge_raw_t, 0.25);
both!(ridge_offset, ridge_offset_t, 0.25);

/// parameter builders keep every configured value whatever the order of the `with_*` steps
fn builders_fam(c: &mut Case) {
    scverif::builders::case(c, "C07")
}

/// the uniform api traits (Predictor / SupervisedEstimator / UnsupervisedEstimator / Transformer) behave
/// exactly like the inherent methods
fn api_paths_fam(c: &mut Case) {
    scverif::apipaths::case(c, "C07")
}

/// OLS and ridge on designs with 9..40 features (beyond the ordinary bound of 8)
fn large(c: &mut Case) {
    let g = c.index % 3;
    scverif::with_big(1, || match g {
        0 => ols(c),
        1 => ridge_norm(c),
        _ => ridge_raw(c),
    })
}

fn main() {
    runner::main(Spec {
        property: "C07",
        rule: "each case draws one data set from gen::design (1<=p<=8, p<n<=80 incl. n=p+1; centred/normalised part with log-graded singular values, cond<=1e6 (f32: <=30, raw ridge f32: <=10) re-measured after standardisation by an independent Jacobi SVD; column scales 1e-2..1e3 per column or common; non-zero column means 0.3/1/3 column scales; family ridge_offset: means 30..1e4 (f32: 30..300) column scales with a common scale <= 1e3/that factor, generated cond <= 3 and kappa_2 of the raw X measured <= 1e6), a target (linear+noise, exact linear, pure noise, noise+offset, constant, zero; rescaled 1e-3..1e3), alpha log-uniform in [1e-3,1e2], f64 (75 %) or f32, and fits BOTH solvers of the family's model on it (ols: QR+SVD; ridge_norm / ridge_raw / ridge_offset: Cholesky+SVD, normalize on / off / on); non-trivial = measured preconditions hold and at least one fit returned a model whose optimality conditions were evaluated; distinct = distinct hash of (model, width, alpha, X, y); large: 9..40 features and up to 300 rows more than features; parameter objects are passed to fit as clones in every second case",
        assumptions: vec![
            "'condition number <= 1e6' is read as the 2-norm condition number of the centred, standardised design (measured); the condition number of the system actually solved ([X 1] for OLS, ZᵀZ+αI for ridge) is measured separately, enters only the solver-agreement tolerances, and cases with cond·eps > 1e-3 are skipped (affects f32 and a few f64 raw-ridge cases)",
            "f32: cond of the generated part <= 30 (raw ridge <= 10) and a common column scale for OLS / raw ridge, so that cond·eps << 1 for the system solved in single precision",
            "'standardised columns' = (x − mean)/std; the statement leaves population vs sample std open, the gradient may vanish under either (the library uses the population std)",
            "oracle arithmetic is f64 with compensated sums on the already-rounded inputs; tolerances: OLS 1e3(n+p)eps‖A‖_F(‖y‖+‖A‖_F‖w‖); ridge 1e4·p·eps((‖ZᵀZ‖_F+α)‖w_z‖+‖Z‖_F‖y‖) + 10·n·eps·|Σy|·‖(mean_j/std_j)‖ (the second term, standardised columns only, is the backward error of a column mean summed in the working precision; the library does not centre y); intercept 100(n+p)eps·(mean|y|+Σ|w_j|mean|x_j|); predict 1e3(p+2)eps(Σ|x_ij w_j|+|b|); QR=SVD 100(n+p)eps·κ(2‖w‖+(κ+1)‖r‖/σ_max), κ=κ₂([X 1]); Cholesky=SVD 1e3·eps·κ₂(ZᵀZ+αI)‖w_z‖",
            "predict is checked on the training matrix X (the statement says predict(X))",
        ],
        families: vec![
            Family::new("api_paths", 300, 3000, api_paths_fam),
            Family::new("builders", 300, 3000, builders_fam),
            Family::new("ols", 4000, 60000, ols),
            Family::new("ridge_norm", 3500, 50000, ridge_norm),
            Family::new("ridge_raw", 2500, 40000, ridge_raw),
            Family::new("ridge_offset", 1000, 15000, ridge_offset),
            Family::new("large", 80, 300, large),
        ],
        min_nontrivial: 1500,
        case_timeout_s: 120,
    });
}
