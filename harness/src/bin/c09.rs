//! C09 — Logistic regression reaches the optimum of its penalised likelihood via L-BFGS.
//!
//! Oracles (DESIGN §5 C09):
//!  A  stationarity: ‖∇f(ŵ)‖₂ ≤ ρ·‖∇f(0)‖₂ with f = NLL + (α/2)‖W‖² (intercepts unpenalised), ρ = 1e-4 (two
//!     classes) / 1e-2 (k > 2); reference gradient in f64 with compensated sums, log-sum-exp stable.
//!  B  optimum: damped Newton in the harness gives f* (self-certified: own gradient ≤ 1e-10·‖∇f(0)‖, else the
//!     case is inconclusive); (f(ŵ) − f*) ≤ 1e-4·(f(0) − f*). Verdict for two classes; for k > 2 the ratio is
//!     recorded as a distribution only: the multi-class minimiser exhausts its fixed 1000 iterations in 1–3 % of
//!     the fits (measured on the unchanged tree), where A with its ρ = 1e-2 still holds, so a 1e-4 gap would be
//!     stricter than the statement.
//!  C  for α ≥ 0: f(ŵ) finite and ≤ f(0); predicted labels are original label values and equal
//!     classes[arg-max] (two classes: larger label iff score > 0) of the scores recomputed from the reported
//!     parameters (rows whose decision gap is at rounding level are skipped).
//!  L  L-BFGS (verification re-export) on SPD quadratics: an event log written by the f/df closures is
//!     inspected offline: objective along accepted iterates (= points where df was evaluated) never increases
//!     beyond 1e-12 relative, final ‖g‖ ≤ 1e-6·‖g0‖ + 1e-7 (+ an allowance for the rounding noise of the objective
//!     values the harness itself hands to the minimiser, see NOISE_C), no panic, ≤ 1000 iterations.
//!
//! Families: lr_binary, lr_multi (α ∈ [1e-2,10]: A, B, C), lr_alpha0, lr_alpha0_lattice (α = 0: C only),
//! lr_mixed (mixed feature scales: informational, no verdict), lbfgs_quad (L).
#![allow(non_snake_case)]
use scverif::refla::*;
use scverif::*;
use smartcore::linalg::naive::dense_matrix::DenseMatrix;
use smartcore::linalg::BaseMatrix;
use smartcore::linear::logistic_regression::{LogisticRegression, LogisticRegressionParameters};
use smartcore::verif::{Backtracking, FirstOrderOptimizer, FunctionOrder, DF, F, LBFGS};
use std::cell::RefCell;

const RHO_BINARY: f64 = 1e-4;
const RHO_MULTI: f64 = 1e-3;
/// coarse optimum check: a gradient ratio of 1e-4 does not bound the objective gap more tightly on nearly
/// separable data (tiny curvature); observed worst relative gap on the repaired tree 4.3e-4 while the stationarity
/// criterion held. Mutations of the objective (penalised intercept, dropped 1/2, wrong class index) move the
/// optimum by O(1) of f(0) - f*.
const GAP_TOL: f64 = 1e-2;
const NEWTON_CERT: f64 = 1e-10;
/// Oracle B for k > 2 as a verdict. Off: on the unchanged tree the multi-class minimiser runs into its fixed
/// max_iter = 1000 in 1-3 % of the fits (gap up to 1e-1). With `max_iter: 100_000` in
/// `LogisticRegression::minimize` all 18 000 probe fits had gap <= 1e-5 and gradient ratio <= 1.3e-6, i.e. the
/// flag can be switched on (and RHO_MULTI lowered to 1e-4) once the iteration cap is lifted in the library.
const B_MULTI_VERDICT: bool = true;
/// allowance for the rounding noise of the objective the harness hands to L-BFGS: NOISE_C·sqrt(λmax·ε·fmag)
const NOISE_C: f64 = 20.0;

// ------------------------------------------------------------------------------------------------
// data sets
// ------------------------------------------------------------------------------------------------

struct Data {
    x: Mat,
    yi: Vec<usize>,   // class index per row (index into `labels`)
    labels: Vec<f64>, // distinct, ascending  (== what `unique()` gives the library)
    k: usize,
    layout: &'static str,
    label_kind: &'static str,
    scales: Vec<f64>,
    shifts: Vec<f64>,
    lattice: bool,
}

fn draw_labels(rng: &mut Rng, k: usize) -> (Vec<f64>, &'static str) {
    if k > 16 {
        // many classes (the `many_classes` family): spaced integers from a random start, or quarter steps
        let start = rng.int(-500, 500) as f64;
        return if rng.bool(0.5) { ((0..k).map(|j| start + 3.0 * j as f64).collect(), "spaced-integers") } else { ((0..k).map(|j| start + 0.25 * j as f64).collect(), "quarter-steps") };
    }
    for _ in 0..100 {
        let kind = rng.below(9);
        if kind >= 7 {
            return scverif::gen::tricky_labels(rng, k);
        }
        let (mut v, name): (Vec<f64>, &'static str) = match kind {
            0 => ((0..k).map(|j| j as f64).collect(), "0..k-1"),
            1 => ((0..k).map(|_| rng.int(-60, -1) as f64).collect(), "negative-integers"),
            2 => ((0..k).map(|_| rng.int(-1000, 1000) as f64).collect(), "non-contiguous-integers"),
            3 => ((0..k).map(|_| rng.int(-40, 40) as f64 / 8.0 + 0.0625).collect(), "fractional"),
            4 => ((0..k).map(|_| rng.normal() * 10f64.powi(rng.int(-3, 9) as i32)).collect(), "real-any-magnitude"),
            5 => {
                if k == 2 {
                    (vec![-1.0, 1.0], "-1/+1")
                } else {
                    ((1..=k).map(|j| j as f64).collect(), "1..k")
                }
            }
            _ => ((0..k).map(|_| (rng.int(-5, 5) * 10) as f64 + 0.5).collect(), "half-integers"),
        };
        v.sort_by(|a, b| a.partial_cmp(b).unwrap_or(std::cmp::Ordering::Equal));
        v.dedup();
        if v.len() == k && v.iter().all(|x| x.is_finite()) {
            return (v, name);
        }
    }
    ((0..k).map(|j| j as f64).collect(), "0..k-1")
}

/// class centres in unit coordinates with pairwise distance >= dmin (falls back to a line)
fn centres(rng: &mut Rng, k: usize, p: usize, spread: f64, dmin: f64) -> Vec<Vec<f64>> {
    for _ in 0..200 {
        let cs: Vec<Vec<f64>> = (0..k).map(|_| (0..p).map(|_| rng.normal() * spread).collect()).collect();
        let mut ok = true;
        for a in 0..k {
            for b in 0..a {
                let d: f64 = (0..p).map(|l| (cs[a][l] - cs[b][l]).powi(2)).sum::<f64>().sqrt();
                if d < dmin {
                    ok = false;
                }
            }
        }
        if ok {
            return cs;
        }
    }
    // on a line along a random direction, in random order
    let dir: Vec<f64> = {
        let v: Vec<f64> = (0..p).map(|_| rng.normal()).collect();
        let n = norm2v(&v).max(1e-300);
        v.iter().map(|x| x / n).collect()
    };
    let order = rng.perm(k);
    (0..k).map(|j| dir.iter().map(|d| d * dmin.max(1.0) * 1.05 * (order[j] as f64 - (k as f64 - 1.0) / 2.0)).collect()).collect()
}

fn draw_data(c: &mut Case, k: usize, mixed: bool) -> Data {
    draw_data_mode(c, k, mixed, false)
}

/// `corner`: every dimension of the quantifier at its far end at once — 85..100 rows, 3..6 features, feature scale
/// 50..100, every feature 8..12 scale units off centre
fn draw_data_mode(c: &mut Case, k: usize, mixed: bool, corner: bool) -> Data {
    let rng = &mut c.rng;
    let p = if corner { rng.us(3, 6) } else if mixed { rng.us(2, 6) } else { rng.us(1, 6) };
    let n = if k > 16 {
        rng.us(2 * k, 3 * k)
    } else if corner {
        rng.us(85, 100)
    } else if rng.bool(0.4) {
        rng.us(6.max(k), 20)
    } else {
        rng.us(6.max(k), 100)
    };
    let layout: &'static str = *rng.pick(&["overlap", "overlap", "moderate", "separable", "separable"]);
    // class membership: every class present, otherwise by random (possibly very unbalanced) weights
    let wts: Vec<f64> = (0..k).map(|_| if rng.bool(0.2) { rng.uni(0.02, 0.2) } else { rng.uni(0.5, 1.0) }).collect();
    let wsum: f64 = wts.iter().sum();
    let mut yi: Vec<usize> = (0..n)
        .map(|i| {
            if i < k {
                i
            } else {
                let mut u = rng.f() * wsum;
                let mut j = 0;
                while j + 1 < k && u >= wts[j] {
                    u -= wts[j];
                    j += 1;
                }
                j
            }
        })
        .collect();
    rng.shuffle(&mut yi);
    let cs = match layout {
        "overlap" => {
            let sep = rng.uni(0.0, 1.5);
            centres(rng, k, p, sep, 0.0)
        }
        "moderate" => {
            let d = rng.uni(2.0, 4.0);
            centres(rng, k, p, d, d)
        }
        _ => {
            let d = rng.uni(4.0, 8.0);
            centres(rng, k, p, d, d)
        }
    };
    let lattice = layout != "separable" && rng.bool(0.15);
    let mut u = Mat::zeros(n, p);
    for i in 0..n {
        let ctr = &cs[yi[i]];
        if layout == "separable" {
            // uniformly inside the unit ball around the centre (centres are >= 4 apart): the classes are
            // separated by the Voronoi cells of the centres, i.e. by a linear arg-max model, with a margin
            let v: Vec<f64> = (0..p).map(|_| rng.normal()).collect();
            let nv = norm2v(&v).max(1e-300);
            let r = rng.f().powf(1.0 / p as f64);
            for l in 0..p {
                u.set(i, l, ctr[l] + v[l] / nv * r);
            }
        } else {
            for l in 0..p {
                let mut val = ctr[l] + rng.normal();
                if lattice {
                    val = (val * 2.0).round() / 2.0;
                }
                u.set(i, l, val);
            }
        }
    }
    // feature scales: one scale per data set × jitter in [0.5,2] (clamped to the quantifier's 1e-1..1e2);
    // `mixed`: independent per-feature scales spanning at least a factor 30
    let scales: Vec<f64> = if mixed {
        let mut s: Vec<f64> = (0..p).map(|_| rng.logu(0.1, 100.0)).collect();
        s[0] = rng.logu(0.1, 0.3);
        s[1] = rng.logu(30.0, 100.0);
        let pm = rng.perm(p);
        (0..p).map(|j| s[pm[j]]).collect()
    } else {
        let s = if corner { rng.uni(50.0, 100.0) } else { rng.logu(0.1, 100.0) };
        (0..p).map(|_| (s * rng.logu(0.5, 2.0)).max(0.1).min(100.0)).collect()
    };
    // shift: none, up to 5 scale units with random sign and size per feature, or (1 in 8) every feature far off
    // centre by 8..12 scale units (a year column, a temperature in Kelvin)
    let far = corner || rng.bool(0.125);
    let sm = if far { rng.uni(8.0, 12.0) } else if rng.bool(0.25) { 0.0 } else { rng.uni(0.0, 5.0) };
    let shifts: Vec<f64> = (0..p).map(|j| scales[j] * sm * if far { if rng.bool(0.5) { 1.0 } else { -1.0 } } else { rng.uni(-1.0, 1.0) }).collect();
    let x = Mat::from_fn(n, p, |i, j| u.at(i, j) * scales[j] + shifts[j]);
    let (labels, label_kind) = draw_labels(rng, k);
    Data { x, yi, labels, k, layout, label_kind, scales, shifts, lattice }
}

/// small separable data sets on an integer lattice (6..12 rows, 1..2 features, entries = integer in
/// -10..10 times one multiplier for the whole data set, classes = intervals of the first feature)
fn draw_lattice(c: &mut Case, k: usize) -> Data {
    let rng = &mut c.rng;
    let p = rng.us(1, 2);
    let mult = *rng.pick(&[0.1, 0.5, 0.5, 1.0, 2.0, 5.0, 5.0, 10.0, 10.0]);
    for _ in 0..200 {
        let n = rng.us(6, 12);
        let u = Mat::from_fn(n, p, |_, _| rng.int(-10, 10) as f64);
        // k-1 distinct half-integer thresholds on the first feature
        let mut th: Vec<f64> = (0..k - 1).map(|_| rng.int(-8, 7) as f64 + 0.5).collect();
        th.sort_by(|a, b| a.partial_cmp(b).unwrap_or(std::cmp::Ordering::Equal));
        th.dedup();
        if th.len() != k - 1 {
            continue;
        }
        let up = rng.bool(0.5);
        let yi: Vec<usize> = (0..n)
            .map(|i| {
                let cls = th.iter().filter(|t| u.at(i, 0) > **t).count();
                if up {
                    cls
                } else {
                    k - 1 - cls
                }
            })
            .collect();
        if (0..k).any(|j| !yi.contains(&j)) {
            continue;
        }
        let (labels, label_kind) = draw_labels(rng, k);
        let x = u.scale(mult);
        return Data { x, yi, labels, k, layout: "lattice-separable", label_kind, scales: vec![mult; p], shifts: vec![0.0; p], lattice: true };
    }
    // (practically unreachable) fall back to the generic generator
    draw_data(c, k, false)
}

fn scale_bucket(s: f64) -> &'static str {
    if s < 1.0 {
        "scale:1e-1..1"
    } else if s < 10.0 {
        "scale:1..1e1"
    } else {
        "scale:1e1..1e2"
    }
}

fn describe_data(c: &mut Case, what: &str, d: &Data, alpha: f64) {
    let y: Vec<f64> = d.yi.iter().map(|&i| d.labels[i]).collect();
    c.describe(json!({"op": what, "alpha": alpha, "k": d.k, "layout": d.layout, "labels": d.labels, "label_kind": d.label_kind,
        "feature_scales": d.scales, "feature_shifts": d.shifts, "X": mat_json(&d.x), "y": y}));
    c.hash_f64s(&d.x.d);
    c.hash_f64s(&y);
    c.hash_f64s(&[alpha, d.x.r as f64, d.x.c as f64]);
    c.bucket(&format!("classes:{}", d.k));
    c.bucket(&format!("layout:{}", d.layout));
    c.bucket(&format!("labels:{}", d.label_kind));
    c.bucket(&format!("p:{}", d.x.c));
    c.bucket(if d.x.r <= 20 { "n:6..20" } else if d.x.r <= 50 { "n:21..50" } else { "n:51..100" });
    let smax = d.scales.iter().cloned().fold(0.0f64, f64::max);
    c.bucket(scale_bucket(smax));
    c.bucket_if(d.shifts.iter().any(|s| *s != 0.0), "shifted");
    c.bucket_if(d.shifts.iter().zip(d.scales.iter()).all(|(s, sc)| s.abs() >= 8.0 * sc), "shifted:all-features-8..12-scale-units");
    c.bucket_if(d.lattice, "lattice(duplicate/tied feature values)");
    let mut cnt = vec![0usize; d.k];
    for &i in &d.yi {
        cnt[i] += 1;
    }
    c.bucket_if(cnt.iter().any(|&m| m == 1), "class-with-single-member");
}

// ------------------------------------------------------------------------------------------------
// reference objective: NLL + (alpha/2)·‖W‖², intercepts unpenalised
// parameter layout: two classes [w_0..w_{p-1}, b]; k > 2: class j at offset j·(p+1): [w_j, b_j]
// ------------------------------------------------------------------------------------------------

struct Prob<'a> {
    x: &'a Mat,
    yi: &'a [usize],
    k: usize,
    alpha: f64,
}

fn softplus(z: f64) -> f64 {
    z.max(0.0) + (-z.abs()).exp().ln_1p()
}

fn sigm(z: f64) -> f64 {
    if z >= 0.0 {
        1.0 / (1.0 + (-z).exp())
    } else {
        let e = z.exp();
        e / (1.0 + e)
    }
}

impl<'a> Prob<'a> {
    fn dim(&self) -> usize {
        let p = self.x.c;
        if self.k == 2 {
            p + 1
        } else {
            self.k * (p + 1)
        }
    }

    fn score(&self, th: &[f64], i: usize, off: usize) -> f64 {
        let p = self.x.c;
        let xi = &self.x.d[i * p..(i + 1) * p];
        csum(xi.iter().zip(th[off..off + p].iter()).map(|(a, b)| a * b).chain(std::iter::once(th[off + p])))
    }

    /// (f, gradient, Hessian if requested)
    fn eval(&self, th: &[f64], want_h: bool) -> (f64, Vec<f64>, Option<Mat>) {
        let (n, p) = (self.x.r, self.x.c);
        let d = self.dim();
        let q = p + 1;
        // per-parameter lists of terms, summed with compensation at the end
        let mut fterms: Vec<f64> = Vec::with_capacity(n + d);
        let mut gterms: Vec<Vec<f64>> = vec![Vec::with_capacity(n + 1); d];
        let mut h = if want_h { Some(Mat::zeros(d, d)) } else { None };
        let xt = |i: usize, l: usize| if l < p { self.x.at(i, l) } else { 1.0 };
        if self.k == 2 {
            for i in 0..n {
                let z = self.score(th, i, 0);
                let y = self.yi[i];
                // softplus(z) - y z  ==  softplus(-z) for y = 1
                fterms.push(if y == 1 { softplus(-z) } else { softplus(z) });
                // sigma(z) - y without cancellation
                let r = if y == 1 { -sigm(-z) } else { sigm(z) };
                for l in 0..q {
                    gterms[l].push(r * xt(i, l));
                }
                if let Some(h) = h.as_mut() {
                    let s = sigm(z) * sigm(-z);
                    for a in 0..q {
                        let xa = xt(i, a) * s;
                        for b in 0..=a {
                            h.d[a * d + b] += xa * xt(i, b);
                        }
                    }
                }
            }
        } else {
            let k = self.k;
            let mut z = vec![0.0; k];
            let mut pr = vec![0.0; k];
            for i in 0..n {
                for j in 0..k {
                    z[j] = self.score(th, i, j * q);
                }
                let m = z.iter().cloned().fold(f64::NEG_INFINITY, f64::max);
                let se = csum(z.iter().map(|v| (v - m).exp()));
                let lse = m + se.ln();
                let y = self.yi[i];
                // lse - z_y  =  ln(1 + Σ_{j≠y} exp(z_j - z_y))  (accurate when the row is fitted well)
                let others = csum((0..k).filter(|&j| j != y).map(|j| (z[j] - z[y]).exp()));
                fterms.push(if others.is_finite() { others.ln_1p() } else { lse - z[y] });
                for j in 0..k {
                    pr[j] = (z[j] - lse).exp();
                }
                for j in 0..k {
                    let r = if j == y {
                        // p_y - 1 = -Σ_{l≠y} p_l
                        -csum((0..k).filter(|&l| l != y).map(|l| pr[l]))
                    } else {
                        pr[j]
                    };
                    for l in 0..q {
                        gterms[j * q + l].push(r * xt(i, l));
                    }
                }
                if let Some(h) = h.as_mut() {
                    for j in 0..k {
                        for l in 0..=j {
                            let wgt = if j == l { pr[j] * (1.0 - pr[j]) } else { -pr[j] * pr[l] };
                            if wgt == 0.0 {
                                continue;
                            }
                            for a in 0..q {
                                let xa = xt(i, a) * wgt;
                                for b in 0..q {
                                    h.d[(j * q + a) * d + (l * q + b)] += xa * xt(i, b);
                                }
                            }
                        }
                    }
                }
            }
        }
        // penalty on the weights only
        let nblocks = if self.k == 2 { 1 } else { self.k };
        if self.alpha > 0.0 {
            for j in 0..nblocks {
                for l in 0..p {
                    let w = th[j * q + l];
                    fterms.push(0.5 * self.alpha * w * w);
                    gterms[j * q + l].push(self.alpha * w);
                    if let Some(h) = h.as_mut() {
                        h.d[(j * q + l) * d + (j * q + l)] += self.alpha;
                    }
                }
            }
        }
        if let Some(h) = h.as_mut() {
            // mirror the lower triangle (binary: only lower filled; multi: blocks j>=l filled completely)
            for a in 0..d {
                for b in 0..a {
                    let v = h.d[a * d + b];
                    h.d[b * d + a] = v;
                }
            }
        }
        let f = csum(fterms.into_iter());
        let g: Vec<f64> = gterms.into_iter().map(|t| csum(t.into_iter())).collect();
        (f, g, h)
    }
}

struct NewtonOut {
    f: f64,
    gnorm: f64,
    iters: usize,
}

/// damped (Levenberg-regularised when necessary) Newton from 0; the caller certifies the result
fn newton(pr: &Prob) -> NewtonOut {
    let d = pr.dim();
    let q = pr.x.c + 1;
    let mut th = vec![0.0; d];
    let (mut f, mut g, mut h) = pr.eval(&th, true);
    let g0 = norm2v(&g);
    let mut iters = 0;
    while iters < 200 {
        let gn = norm2v(&g);
        if !(gn > 1e-13 * g0) {
            break;
        }
        iters += 1;
        let hm = match h.as_ref() {
            Some(m) => m.clone(),
            None => break,
        };
        let tr: f64 = (0..d).map(|i| hm.at(i, i)).sum::<f64>().max(1e-300);
        let mut sys = hm.clone();
        if pr.k > 2 {
            // the softmax objective is flat along "add one constant to all intercepts"; the gradient is
            // orthogonal to that direction, so adding c·e·eᵀ only removes the singularity
            let cc = tr / d as f64;
            for a in 0..pr.k {
                for b in 0..pr.k {
                    let (ia, ib) = (a * q + q - 1, b * q + q - 1);
                    sys.d[ia * d + ib] += cc / pr.k as f64;
                }
            }
        }
        let rhs = Mat { r: d, c: 1, d: g.iter().map(|v| -v).collect() };
        let mut mu = 0.0f64;
        let mut dir: Option<Vec<f64>> = None;
        for _ in 0..40 {
            let mut s2 = sys.clone();
            if mu > 0.0 {
                for i in 0..d {
                    s2.d[i * d + i] += mu;
                }
            }
            if let Some(sol) = solve(&s2, &rhs) {
                let gd = dotv(&g, &sol.d);
                if sol.d.iter().all(|v| v.is_finite()) && gd < 0.0 {
                    dir = Some(sol.d);
                    break;
                }
            }
            mu = if mu == 0.0 { 1e-12 * tr / d as f64 } else { mu * 100.0 };
        }
        let dir = match dir {
            Some(v) => v,
            None => break,
        };
        let gd = dotv(&g, &dir);
        let mut t = 1.0f64;
        let mut accepted = false;
        for _ in 0..70 {
            let cand: Vec<f64> = th.iter().zip(dir.iter()).map(|(a, b)| a + t * b).collect();
            let (fc, gc, hc) = pr.eval(&cand, true);
            let gcn = norm2v(&gc);
            let armijo = fc <= f + 1e-4 * t * gd;
            // at rounding level of f the gradient norm is the merit function (convex problem)
            let flat = fc <= f + 1e-13 * (f.abs() + 1.0) && gcn <= 0.9 * gn;
            if fc.is_finite() && gcn.is_finite() && (armijo || flat) {
                th = cand;
                f = fc;
                g = gc;
                h = hc;
                accepted = true;
                break;
            }
            t *= 0.5;
        }
        if !accepted {
            break;
        }
    }
    NewtonOut { f, gnorm: norm2v(&g), iters }
}

// ------------------------------------------------------------------------------------------------
// fitting + oracles
// ------------------------------------------------------------------------------------------------

fn decade_bucket(prefix: &str, r: f64) -> String {
    if !(r > 0.0) {
        return format!("{}:0", prefix);
    }
    if !r.is_finite() {
        return format!("{}:non-finite", prefix);
    }
    let e = r.log10().floor() as i32;
    let e = e.max(-17).min(3);
    format!("{}:1e{:+03}..1e{:+03}", prefix, e, e + 1)
}

struct Fitted {
    theta: Vec<f64>,
    model: LogisticRegression<f64, DenseMatrix<f64>>,
}

/// fits and extracts the parameter vector in the reference layout; reports shape / panic / Err violations
fn fit(c: &mut Case, d: &Data, alpha: f64, sg: &str, verdict: bool) -> Option<Fitted> {
    let idx = c.index;
    let xm: DenseMatrix<f64> = to_dense(&d.x);
    let y: Vec<f64> = d.yi.iter().map(|&i| d.labels[i]).collect();
    let params = LogisticRegressionParameters::default().with_alpha(alpha);
    let res = if verdict {
        c.must("lr.fit", || LogisticRegression::fit(&xm, &y, scverif::reused(idx, params)))
    } else {
        match guard(|| LogisticRegression::fit(&xm, &y, scverif::reused(idx, params))) {
            Ok(r) => Some(r),
            Err(p) => {
                if p.in_harness() {
                    c.inconclusive(&format!("harness panic: {}", p.short()));
                } else {
                    c.bucket(&format!("info:mixed-scale:panic@{}", p.loc()));
                }
                None
            }
        }
    };
    let model = match res {
        Some(Ok(m)) => m,
        Some(Err(e)) => {
            if verdict {
                c.check("lr.fit.ok", false, sg, || format!("fit returned Err({}) for a training set with {} classes", e, d.k));
            } else {
                c.bucket("info:mixed-scale:fit-err");
            }
            return None;
        }
        None => return None,
    };
    if verdict {
        c.check("lr.fit.ok", true, sg, String::new);
    }
    let (p, k) = (d.x.c, d.k);
    let co = from_m(model.coefficients());
    let ic = from_m(model.intercept());
    let rows = if k == 2 { 1 } else { k };
    let shapes_ok = (co.r, co.c) == (rows, p) && (ic.r, ic.c) == (rows, 1);
    if verdict {
        c.check("lr.param-shapes", shapes_ok, sg, || format!("coefficients {}x{}, intercept {}x{} for k={} p={}", co.r, co.c, ic.r, ic.c, k, p));
    }
    if !shapes_ok {
        return None;
    }
    let mut theta = Vec::with_capacity(rows * (p + 1));
    for j in 0..rows {
        for l in 0..p {
            theta.push(co.at(j, l));
        }
        theta.push(ic.at(j, 0));
    }
    Some(Fitted { theta, model })
}

/// Oracle C, second half: predictions are original labels and follow the recomputed scores
fn check_predictions(c: &mut Case, d: &Data, ft: &Fitted, sg: &str) {
    let (n, p, k) = (d.x.r, d.x.c, d.k);
    // training rows + perturbed copies (fresh points)
    let extra = c.rng.us(1, 12);
    let mut rows: Vec<Vec<f64>> = d.x.rows();
    for _ in 0..extra {
        let i = c.rng.below(n);
        let amp = c.rng.uni(0.0, 3.0);
        let r: Vec<f64> = (0..p).map(|l| d.x.at(i, l) + d.scales[l] * amp * c.rng.normal()).collect();
        rows.push(r);
    }
    let xp = Mat::from_rows(&rows);
    let xm: DenseMatrix<f64> = to_dense(&xp);
    let pred = match c.must("lr.predict", || ft.model.predict(&xm)) {
        Some(Ok(v)) => v,
        Some(Err(e)) => {
            c.check("lr.predict.ok", false, sg, || format!("predict returned Err({})", e));
            return;
        }
        None => return,
    };
    if !c.check("lr.predict.length", pred.len() == xp.r, sg, || format!("{} predictions for {} rows", pred.len(), xp.r)) {
        return;
    }
    sequence_checks(c, "lr", sg, &ft.model, &xm, &pred, |m, q| m.predict(q));
    let q = p + 1;
    let th = &ft.theta;
    let mut bad_label: Option<(usize, f64)> = None;
    let mut bad_arg: Option<String> = None;
    let mut decided = 0usize;
    let mut skipped = 0usize;
    for i in 0..xp.r {
        let got = pred[i];
        if !d.labels.iter().any(|l| l.to_bits() == got.to_bits() || *l == got) {
            if bad_label.is_none() {
                bad_label = Some((i, got));
            }
            continue;
        }
        let nb = if k == 2 { 1 } else { k };
        let mut sc = vec![0.0; nb];
        let mut mag = 0.0f64;
        for j in 0..nb {
            sc[j] = csum((0..p).map(|l| xp.at(i, l) * th[j * q + l]).chain(std::iter::once(th[j * q + p])));
            let m: f64 = (0..p).map(|l| (xp.at(i, l) * th[j * q + l]).abs()).sum::<f64>() + th[j * q + p].abs();
            mag = mag.max(m);
        }
        let tol = 1e-9 * (1.0 + mag);
        let expect: Option<usize> = if k == 2 {
            if sc[0].abs() < tol || !sc[0].is_finite() {
                None
            } else if sc[0] > 0.0 {
                Some(1)
            } else {
                Some(0)
            }
        } else {
            let mut best = 0;
            for j in 1..k {
                if sc[j] > sc[best] {
                    best = j;
                }
            }
            let second = (0..k).filter(|&j| j != best).map(|j| sc[j]).fold(f64::NEG_INFINITY, f64::max);
            if !(sc[best] - second >= tol) || sc.iter().any(|v| !v.is_finite()) {
                None
            } else {
                Some(best)
            }
        };
        match expect {
            None => skipped += 1,
            Some(e) => {
                decided += 1;
                if d.labels[e] != got && bad_arg.is_none() {
                    bad_arg = Some(format!("row {} {:?}: scores {:?} -> expected label {} (class index {}), predicted {}", i, xp.row(i), sc, d.labels[e], e, got));
                }
            }
        }
    }
    c.check("lr.predict.original-labels", bad_label.is_none(), sg, || {
        let (i, g) = bad_label.unwrap_or((0, f64::NAN));
        format!("row {}: predicted {} is not one of the training labels {:?}", i, g, d.labels)
    });
    if decided > 0 {
        c.check("lr.predict.argmax-of-scores", bad_arg.is_none(), sg, || bad_arg.clone().unwrap_or_default());
    }
    c.bucket_if(skipped > 0, "predict:rows-skipped(tie at rounding level)");
    // observed training accuracy (behavioural feature, not an oracle)
    let hits = (0..n).filter(|&i| pred[i] == d.labels[d.yi[i]]).count();
    c.bucket(if hits == n { "fit:training-set-separated" } else { "fit:training-errors-present" });
    let used: std::collections::BTreeSet<u64> = pred.iter().map(|v| v.to_bits()).collect();
    c.bucket_if(used.len() == k, "predict:all-classes-predicted");
}

fn logistic_case(c: &mut Case, k: usize, mode: &str) {
    let mixed = mode == "mixed";
    let d = if mode == "lattice0" { draw_lattice(c, k) } else { draw_data_mode(c, k, mixed, mode == "corner") };
    c.bucket_if(mode == "corner", "quantifier-corner:rows,features,scale,shift-all-at-the-far-end");
    let alpha = if mode == "alpha0" || mode == "lattice0" { 0.0 } else { c.rng.logu(1e-2, 10.0) };
    describe_data(c, if mixed { "logistic-fit(mixed feature scales, informational)" } else { "logistic-fit" }, &d, alpha);
    c.bucket(if alpha == 0.0 {
        "alpha:0"
    } else if alpha < 0.1 {
        "alpha:1e-2..1e-1"
    } else if alpha < 1.0 {
        "alpha:1e-1..1"
    } else {
        "alpha:1..10"
    });
    let kc = if k == 2 { "binary".to_string() } else { format!("k={}", k) };
    let smax = d.scales.iter().cloned().fold(0.0f64, f64::max);
    let sg = format!("{}/{}/{}", kc, d.layout, scale_bucket(smax));
    let ft = match fit(c, &d, alpha, &sg, !mixed) {
        Some(f) => f,
        None => return,
    };
    let pr = Prob { x: &d.x, yi: &d.yi, k, alpha };
    let zero = vec![0.0; pr.dim()];
    let (f0, g0v, _) = pr.eval(&zero, false);
    let (fw, gwv, _) = pr.eval(&ft.theta, false);
    let (g0, gw) = (norm2v(&g0v), norm2v(&gwv));
    let finite_params = ft.theta.iter().all(|v| v.is_finite());
    let tag = if k == 2 { "binary" } else { "multiclass" };

    if mixed {
        // informational only: distribution of the stationarity ratio, no verdict
        if !finite_params || !(g0 > 0.0) {
            c.bucket("info:mixed-scale:non-finite-or-degenerate");
        } else {
            c.bucket(&decade_bucket(&format!("info:mixed-scale:{}:grad-ratio", tag), gw / g0));
            let rho = if k == 2 { RHO_BINARY } else { RHO_MULTI };
            c.bucket(if gw / g0 <= rho { "info:mixed-scale:within-threshold" } else { "info:mixed-scale:ABOVE-threshold(no verdict)" });
        }
        return;
    }

    c.nontrivial();
    let sg_fin = format!("{}/{}", kc, if alpha == 0.0 { "alpha=0" } else { "alpha>0" });
    if !c.check("lr.params-finite", finite_params, &sg_fin, || format!("non-finite coefficient/intercept: {:?}", ft.theta)) {
        return;
    }
    // Oracle C (first half): objective finite and not above the start, alpha >= 0
    c.check("lr.objective-finite", fw.is_finite(), &sg, || format!("f(w) = {}", fw));
    c.ratio("lr.objective<=start", fw - f0, 1e-12 * f0.abs(), &sg, || format!("f(w) = {:e} > f(0) = {:e}", fw, f0));
    if fw < f0 {
        c.bucket(&decade_bucket("objective:f(w)/f(0)", fw / f0));
    }

    if alpha > 0.0 {
        // The minimiser's own stopping rule is absolute (‖g‖∞ <= 1e-8): a start that is already stationary up
        // to that level makes "relative to the size at the start" meaningless -> no verdict for A and B.
        let degenerate = !(g0 >= 1e-3 * (pr.dim() as f64).sqrt());
        if degenerate {
            c.bucket("degenerate:start-(almost)-stationary(no stationarity verdict)");
        } else {
            // Oracle A
            let rho = if k == 2 { RHO_BINARY } else { RHO_MULTI };
            c.bucket(&decade_bucket(&format!("{}:grad-ratio", tag), gw / g0));
            c.ratio(&format!("lr.stationarity.{}", tag), gw, rho * g0, &sg, || {
                format!("‖∇f(ŵ)‖ = {:e}, ‖∇f(0)‖ = {:e}, ratio {:e} (allowed {:e}), alpha = {}, θ̂ = {:?}", gw, g0, gw / g0, rho, alpha, ft.theta)
            });
            // Oracle B
            let nt = newton(&pr);
            c.bucket(if nt.iters <= 10 { "newton:<=10-iterations" } else if nt.iters <= 30 { "newton:11..30-iterations" } else { "newton:>30-iterations" });
            if !(nt.gnorm <= NEWTON_CERT * g0) || !nt.f.is_finite() {
                c.inconclusive("reference Newton optimum not certified (own gradient above 1e-10·‖∇f(0)‖)");
            } else {
                let denom = f0 - nt.f;
                if denom > 1e-9 * f0.abs() {
                    let gap = (fw - nt.f).max(0.0);
                    c.bucket(&decade_bucket(&format!("{}:objective-gap", tag), gap / denom));
                    let far_shifted = !d.shifts.is_empty() && d.shifts.iter().zip(d.scales.iter()).all(|(s, sc)| s.abs() >= 8.0 * sc);
                    if mode == "corner" || far_shifted {
                        // the statement's criterion is the gradient (oracle A above); the coarse objective-gap
                        // cross-check was calibrated on the main families and is informational in the corner of the
                        // quantifier and whenever every feature is 8..12 scale units off centre, where the objective is nearly flat
                        // along some directions (one unchanged-tree fit in ~1 500 / ~40 000 there has a gap of 1.1–1.3 %)
                        c.bucket(if gap <= GAP_TOL * denom { "info:far-shifted:objective-gap-within-1e-2" } else { "info:far-shifted:objective-gap-ABOVE-1e-2(no verdict)" });
                    } else if k == 2 || B_MULTI_VERDICT {
                        c.ratio(&format!("lr.optimum-gap.{}", tag), gap, GAP_TOL * denom, &sg, || {
                            format!("f(ŵ) = {:.15e}, f* = {:.15e} (Newton, {} iterations, own gradient {:e}), f(0) = {:.15e}, relative gap {:e}, alpha = {}", fw, nt.f, nt.iters, nt.gnorm, f0, gap / denom, alpha)
                        });
                    } else {
                        // k > 2: informational (see assumptions): the multi-class minimiser exhausts its fixed 1000
                        // iterations in 1-3 % of the fits; there the statement's own criterion (A, rho = 1e-2)
                        // still holds while a 1e-4 objective gap would be stricter than the statement.
                        c.bucket(if gap <= GAP_TOL * denom { "info:multiclass:objective-gap-within-1e-4" } else { "info:multiclass:objective-gap-ABOVE-1e-4(no verdict)" });
                    }
                } else {
                    c.bucket("degenerate:start-is-(almost)-optimal");
                }
            }
        }
    }
    check_predictions(c, &d, &ft, &sg);
}

fn lr_binary(c: &mut Case) {
    logistic_case(c, 2, "reg");
}
fn lr_multi(c: &mut Case) {
    let k = c.rng.us(3, 4);
    logistic_case(c, k, "reg");
}
fn lr_alpha0(c: &mut Case) {
    let k = c.rng.us(2, 4);
    logistic_case(c, k, "alpha0");
}
fn lr_alpha0_lattice(c: &mut Case) {
    let k = if c.rng.bool(0.7) { 2 } else { 3 };
    logistic_case(c, k, "lattice0");
}
fn lr_corner(c: &mut Case) {
    let k = c.rng.us(2, 4);
    logistic_case(c, k, "corner");
}
fn lr_mixed(c: &mut Case) {
    let k = c.rng.us(2, 4);
    logistic_case(c, k, "mixed");
}

// ------------------------------------------------------------------------------------------------
// L-BFGS on SPD quadratics q(x) = ½xᵀAx − bᵀx (+ const) with an event log
// ------------------------------------------------------------------------------------------------

enum Ev {
    /// objective evaluated at a point (trial points of the line search and iterates)
    F(Vec<f64>, f64),
    /// gradient evaluated at a point: the minimiser does this at accepted iterates only
    DF(Vec<f64>),
}

/// The quadratic exactly as the closures evaluate it (plain f64 loops, like user code).
/// form "expanded": ½xᵀAx − bᵀx;  form "centred": ½(x−x*)ᵀA(x−x*)  (the same quadratic up to a constant,
/// evaluated without the cancellation between the two terms of the expanded form).
struct Quad {
    a: Mat,
    b: Vec<f64>,
    xstar: Vec<f64>,
    centred: bool,
}

impl Quad {
    fn arg(&self, x: &[f64]) -> Vec<f64> {
        if self.centred {
            x.iter().zip(self.xstar.iter()).map(|(u, v)| u - v).collect()
        } else {
            x.to_vec()
        }
    }
    fn f(&self, x: &[f64]) -> f64 {
        let n = x.len();
        let z = self.arg(x);
        let mut s = 0.0;
        for i in 0..n {
            let mut az = 0.0;
            for j in 0..n {
                az += self.a.d[i * n + j] * z[j];
            }
            s += if self.centred { z[i] * (0.5 * az) } else { z[i] * (0.5 * az - self.b[i]) };
        }
        s
    }
    fn g(&self, x: &[f64]) -> Vec<f64> {
        let n = x.len();
        let z = self.arg(x);
        (0..n)
            .map(|i| {
                let mut az = 0.0;
                for j in 0..n {
                    az += self.a.d[i * n + j] * z[j];
                }
                if self.centred {
                    az
                } else {
                    az - self.b[i]
                }
            })
            .collect()
    }
    /// sum of the magnitudes of the terms f(x) is computed from (scale of its rounding noise)
    fn fmag(&self, x: &[f64]) -> f64 {
        let n = x.len();
        let z = self.arg(x);
        let mut s = 0.0;
        for i in 0..n {
            let mut az = 0.0;
            for j in 0..n {
                az += (self.a.d[i * n + j] * z[j]).abs();
            }
            s += z[i].abs() * (0.5 * az + if self.centred { 0.0 } else { self.b[i].abs() });
        }
        s
    }
    /// oracle-side gradient (compensated sums)
    fn grad_ref(&self, x: &[f64]) -> Vec<f64> {
        let z = self.arg(x);
        let az = self.a.mulv(&z);
        if self.centred {
            az
        } else {
            az.iter().zip(self.b.iter()).map(|(u, v)| u - v).collect()
        }
    }
}

fn row_of(m: &DenseMatrix<f64>) -> Vec<f64> {
    let (_, n) = m.shape();
    (0..n).map(|j| m.get(0, j)).collect()
}

fn lbfgs_quad(c: &mut Case) {
    let n = if c.rng.bool(0.25) { c.rng.us(1, 3) } else { c.rng.us(1, 12) };
    let cond = if n == 1 || c.rng.bool(0.15) { 1.0 } else { c.rng.logu(1.0, 1e4) };
    let scale = if c.rng.bool(0.2) { 1.0 } else { c.rng.logu(1e-2, 1e2) };
    // spectrum in [1/cond, 1]·scale: graded, two clusters or random inside the range (extremes always present)
    let mut lam: Vec<f64> = match c.rng.below(3) {
        0 => graded(n, cond),
        1 => (0..n).map(|_| if c.rng.bool(0.5) { 1.0 } else { 1.0 / cond }).collect(),
        _ => (0..n).map(|_| c.rng.logu(1.0 / cond, 1.0)).collect(),
    };
    lam[0] = 1.0;
    if n > 1 {
        lam[n - 1] = 1.0 / cond;
    }
    let structure = if c.rng.bool(0.15) { "diagonal" } else { "dense" };
    let mut a = if structure == "diagonal" {
        let pm = c.rng.perm(n);
        Mat::diag(&(0..n).map(|i| lam[pm[i]] * scale).collect::<Vec<f64>>())
    } else {
        let qm = rand_orth(&mut c.rng, n);
        let ql = Mat::from_fn(n, n, |i, j| qm.at(i, j) * lam[j] * scale);
        ql.mul(&qm.t())
    };
    scverif::gen::sym(&mut a);
    // minimiser and start
    let xs_mag = if c.rng.bool(0.15) { 0.0 } else { c.rng.logu(1e-2, 1e2) };
    let xstar: Vec<f64> = (0..n).map(|_| c.rng.normal() * xs_mag).collect();
    let b: Vec<f64> = a.mulv(&xstar);
    let start_kind = c.rng.below(4);
    let x0: Vec<f64> = match start_kind {
        0 => vec![0.0; n],
        1 => {
            let m = c.rng.logu(1e-2, 1e2);
            (0..n).map(|_| c.rng.normal() * m).collect()
        }
        2 => {
            let m = c.rng.logu(1e-3, 1e3);
            (0..n).map(|i| xstar[i] + c.rng.normal() * m).collect()
        }
        _ => (0..n).map(|_| c.rng.int(-20, 20) as f64).collect(),
    };
    let order_third = c.rng.bool(0.5);
    let centred = c.rng.bool(0.5);
    // measured conditioning (certifies the precondition cond <= 1e4 on the matrix actually used)
    let (ev, _) = jacobi_eig(&a);
    let (lmax, lmin) = (ev[0], ev[n - 1]);
    if !(lmin > 0.0) || !(lmax / lmin <= 1.0001e4) {
        c.skip("constructed matrix is not SPD with condition number <= 1e4");
        return;
    }
    let form = if centred { "centred" } else { "expanded" };
    c.describe(json!({"op": "lbfgs-quadratic", "n": n, "cond": lmax / lmin, "scale": scale, "structure": structure, "form": form,
        "order": if order_third { "THIRD" } else { "SECOND" }, "A": mat_json(&a), "b": b, "x0": x0, "xstar": xstar}));
    c.hash_f64s(&a.d);
    c.hash_f64s(&b);
    c.hash_f64s(&x0);
    c.hash_f64s(&[if order_third { 3.0 } else { 2.0 }, if centred { 1.0 } else { 0.0 }]);
    c.bucket(&format!("quad:n={}", if n <= 3 { n.to_string() } else if n <= 8 { "4..8".into() } else { "9..12".into() }));
    let kappa = lmax / lmin;
    let cb = if kappa <= 10.0 { "cond:<=1e1" } else if kappa <= 1e2 { "cond:1e1..1e2" } else if kappa <= 1e3 { "cond:1e2..1e3" } else { "cond:1e3..1e4" };
    c.bucket(&format!("quad:{}", cb));
    c.bucket(&format!("quad:scale:{}", if scale < 0.1 { "1e-2..1e-1" } else if scale < 1.0 { "1e-1..1" } else if scale <= 10.0 { "1..1e1" } else { "1e1..1e2" }));
    c.bucket(&format!("quad:order:{}", if order_third { "THIRD" } else { "SECOND" }));
    c.bucket(&format!("quad:start:{}", ["zero", "random", "around-minimiser", "integer"][start_kind]));
    c.bucket(&format!("quad:structure:{}", structure));
    c.bucket(&format!("quad:form:{}", form));
    let sg = format!("{}/{}/{}/{}", if order_third { "THIRD" } else { "SECOND" }, cb, if n == 1 { "n=1" } else { "n>1" }, form);

    let q = Quad { a, b, xstar, centred };
    let g0v = q.grad_ref(&x0);
    let g0 = norm2v(&g0v);
    let g0inf = g0v.iter().fold(0.0f64, |m, v| m.max(v.abs()));

    let log: RefCell<Vec<Ev>> = RefCell::new(Vec::new());
    let fcl = |x: &DenseMatrix<f64>| -> f64 {
        let xv = row_of(x);
        let v = q.f(&xv);
        log.borrow_mut().push(Ev::F(xv, v));
        v
    };
    let dfcl = |g: &mut DenseMatrix<f64>, x: &DenseMatrix<f64>| {
        let xv = row_of(x);
        let gv = q.g(&xv);
        for (j, v) in gv.iter().enumerate() {
            g.set(0, j, *v);
        }
        log.borrow_mut().push(Ev::DF(xv));
    };
    let fref: &F<'_, f64, DenseMatrix<f64>> = &fcl;
    let dfref: &DF<'_, DenseMatrix<f64>> = &dfcl;
    let x0m: DenseMatrix<f64> = DenseMatrix::from_array(1, n, &x0);
    let ls: Backtracking<f64> = Backtracking { order: if order_third { FunctionOrder::THIRD } else { FunctionOrder::SECOND }, ..Default::default() };
    let opt: LBFGS<f64> = Default::default();
    let max_iter = opt.max_iter;
    let res = match c.must("lbfgs.optimize", || opt.optimize(fref, dfref, &x0m, &ls)) {
        Some(r) => r,
        None => return,
    };
    if g0inf >= 1e-8 {
        c.nontrivial();
    } else {
        c.bucket("quad:start-already-stationary");
    }
    let xf = row_of(&res.x);
    if !c.check("lbfgs.result-finite", xf.iter().all(|v| v.is_finite()), &sg, || format!("x = {:?}", xf)) {
        return;
    }
    c.check("lbfgs.iterations<=1000", res.iterations <= max_iter, &sg, || format!("{} iterations", res.iterations));
    c.bucket(if res.iterations == 0 {
        "quad:iterations:0"
    } else if res.iterations <= n + 2 {
        "quad:iterations:<=n+2"
    } else if res.iterations <= 50 {
        "quad:iterations:<=50"
    } else if res.iterations < max_iter {
        "quad:iterations:51..999"
    } else {
        "quad:iterations:max_iter-reached"
    });

    // ---- offline inspection of the event log
    let events = log.into_inner();
    // accepted iterates = points at which the gradient was evaluated (consecutive duplicates merged);
    // every point carries the objective value the minimiser itself was given there (if it asked)
    let mut accepted: Vec<Vec<f64>> = Vec::new();
    let mut f_evals = 0usize;
    for e in &events {
        match e {
            Ev::DF(x) => {
                if accepted.last().map(|l| l != x).unwrap_or(true) {
                    accepted.push(x.clone());
                }
            }
            Ev::F(_, _) => f_evals += 1,
        }
    }
    c.bucket_if(f_evals > 3 * res.iterations + 1, "quad:line-search-backtracked");
    if accepted.last().map(|l| *l != xf).unwrap_or(true) {
        // the returned point closes the chain whatever the log says
        accepted.push(xf.clone());
    }
    c.check("lbfgs.first-gradient-at-start", accepted.first().map(|p| *p == x0).unwrap_or(false), &sg, || "the first gradient evaluation was not at the starting point".to_string());
    // seen[t]: value of the objective the closure returned at accepted[t] (the closure is deterministic, so
    // re-evaluating gives bit-identical values to what the line search compared)
    let vals: Vec<f64> = accepted.iter().map(|x| q.f(x)).collect();
    let mut worst = 0.0f64;
    let mut worst_at = 0usize;
    for t in 1..vals.len() {
        let sc = vals[t - 1].abs().max(vals[t].abs()).max(q.fmag(&accepted[t])).max(1e-300);
        let inc = (vals[t] - vals[t - 1]) / sc;
        if !(inc <= worst) {
            // (also catches NaN)
            worst = if inc.is_nan() { f64::INFINITY } else { inc };
            worst_at = t;
        }
    }
    c.ratio("lbfgs.objective-never-increases", worst, 1e-12, &sg, || {
        format!("accepted iterate {} of {}: f went from {:.17e} to {:.17e}", worst_at, vals.len() - 1, vals[worst_at.max(1) - 1], vals[worst_at])
    });
    c.ratio("lbfgs.final<=start", vals[vals.len() - 1] - vals[0], 1e-12 * vals[0].abs().max(q.fmag(&x0)), &sg, || format!("f(x_final) = {:e} > f(x0) = {:e}", vals[vals.len() - 1], vals[0]));
    // final gradient reduction. DESIGN threshold 1e-6·‖g0‖ + 1e-7, plus the resolution limit of the objective
    // the harness itself supplied: a line search that compares computed objective values cannot certify
    // progress once q(x) − q* is below the rounding noise δ ≈ n·ε·fmag(x) of those values, and
    // ‖g‖² <= 2·λmax·(q(x) − q*). The term vanishes for the centred form and for starts far from the minimiser.
    let gfin = norm2v(&q.grad_ref(&xf));
    let noise = (lmax * f64::EPSILON * q.fmag(&xf)).sqrt();
    let base = 1e-6 * g0 + 1e-7;
    let thr = base + NOISE_C * noise;
    if g0 > 0.0 {
        c.bucket(&decade_bucket("quad:final-gradient/‖g0‖", gfin / g0));
        if gfin > base {
            c.bucket("quad:objective-resolution-limited(final gradient above 1e-6·g0+1e-7, within noise allowance)");
            c.bucket(&decade_bucket("quad:noise-allowance-used", (gfin - base) / (NOISE_C * noise)));
        }
    }
    c.ratio("lbfgs.gradient-reduction", gfin, thr, &sg, || {
        format!("‖g(x_final)‖ = {:e}, ‖g(x0)‖ = {:e}, objective-noise allowance {:e}, {} iterations, {} accepted iterates, {} f-evaluations", gfin, g0, NOISE_C * noise, res.iterations, accepted.len(), f_evals)
    });
}

/// parameter builders keep every configured value whatever the order of the `with_*` steps
fn builders_fam(c: &mut Case) {
    scverif::builders::case(c, "C09")
}

/// the uniform api traits (Predictor / SupervisedEstimator / UnsupervisedEstimator / Transformer) behave
/// exactly like the inherent methods
fn api_paths_fam(c: &mut Case) {
    scverif::apipaths::case(c, "C09")
}

fn main() {
    runner::main(Spec {
        property: "C09",
        rule: "logistic families: seeded data sets with 6..100 rows, 1..6 features (one scale per data set log-uniform in [0.1,100] × per-feature jitter in [0.5,2], shift up to 5 scale units per feature, or all features 8..12 scale units off centre), 2..4 classes with arbitrary distinct label values (0..k-1, negative, non-contiguous, fractional, any magnitude), layouts overlap / moderate / separable (unit balls around centres >= 4 apart), optional lattice features with duplicates, alpha log-uniform in [1e-2,10] (families lr_binary, lr_multi) or alpha = 0 (lr_alpha0: monotonicity and predictions only; lr_alpha0_lattice: the same on small separable integer-lattice sets, 6..12 rows, 1..2 features, entries integer in -10..10 times one multiplier in {0.1,0.5,1,2,5,10}, classes = intervals of the first feature); every fit whose oracles were evaluated is non-trivial; lr_mixed (independent per-feature scales spanning >= 30x) is informational, never non-trivial, no verdict. lbfgs_quad: SPD quadratics of dimension 1..12, condition number <= 1e4 measured by a Jacobi eigen-solver, overall scale in [1e-2,1e2], minimiser magnitude 0 or [1e-2,1e2], starts zero / random / around the minimiser / integer, both interpolation orders, objective evaluated by the closures in expanded (½xᵀAx−bᵀx) or centred (½(x−x*)ᵀA(x−x*)) form; non-trivial when the start is not already stationary (‖g0‖∞ >= 1e-8). distinct = hash of the materialised input (X, y, alpha) resp. (A, b, x0, order); parameter objects are passed to fit as clones in every second case",
        assumptions: vec![
            "objective convention: NLL + (alpha/2)·‖W‖² with unpenalised intercepts (the convention under which the unchanged code is stationary); two classes: the larger label is the positive class",
            "'features scaled 1e-1..1e2' is read as one scale per data set with per-feature jitter in [0.5,2]; data sets mixing scales 0.1 and 100 are run as informational only (no verdict)",
            "stationarity thresholds: 1e-4 (two classes), 1e-3 (k > 2) relative to ‖∇f(0)‖₂; optimum gap 1e-2·(f(0) − f*) with f* from a self-certified damped Newton reference (coarse: a negligible gradient does not bound the gap more tightly on nearly separable data)",
            "a start whose gradient is below 1e-3·sqrt(dim) (already stationary at the level of the minimiser's absolute stopping rule ‖g‖∞ <= 1e-8) gets no stationarity/optimum verdict",
            "L-BFGS quadratics: final ‖g‖₂ <= 1e-6·‖g0‖₂ + 1e-7 + 20·sqrt(λmax·ε·fmag(x_final)) (the minimiser's own stopping rule is the absolute ‖g‖∞ <= 1e-8; the last term is the resolution limit of the objective values the harness closure itself supplies: fmag = sum of the magnitudes of the terms of q(x); it vanishes for the centred form ½(x−x*)ᵀA(x−x*) and matters only for the expanded form ½xᵀAx−bᵀx started close to a minimiser of large norm; measured use of the allowance <= 10 %); monotonicity is judged on exactly the values the minimiser saw, slack 1e-12 relative to the size of the objective's terms",
            "f64 only; default LBFGS parameters (m = 10, max_iter = 1000) and default Backtracking with order SECOND / THIRD",
            "prediction rows whose decision gap is below 1e-9·(1 + Σ|x_j w_j| + |b|) are skipped",
        ],
        families: vec![
            Family::new("api_paths", 300, 3000, api_paths_fam),
            Family::new("builders", 300, 3000, builders_fam),
            Family::new("lr_binary", 2500, 50000, lr_binary),
            Family::new("lr_multi", 1500, 30000, lr_multi),
            Family::new("lr_alpha0", 1500, 30000, lr_alpha0),
            Family::new("lr_alpha0_lattice", 1500, 30000, lr_alpha0_lattice),
            Family::new("lr_corner", 300, 1500, lr_corner),
            Family::new("lr_mixed", 200, 4000, lr_mixed),
            Family::new("lbfgs_quad", 5000, 100000, lbfgs_quad),
        ],
        min_nontrivial: 1500,
        case_timeout_s: 120,
    });
}
