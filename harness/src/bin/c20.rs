//! C20 — all matrix backends give the same answers.
//! Differential history checking: the C03 operation programs are executed on DenseMatrix,
//! ndarray::Array2 and nalgebra::DMatrix; every step of every backend is compared with the row-major
//! reference model (and, where the model leaves the result open, the backends with each other);
//! then decompositions and deterministic estimators are run generically on identical data.
use nalgebra::DMatrix;
use ndarray::{s, Array1, Array2, ShapeBuilder};
use scverif::matprog::*;
use scverif::*;
use smartcore::linalg::naive::dense_matrix::DenseMatrix;
use smartcore::linalg::Matrix;
use smartcore::math::num::RealNumber;

fn tiny<T: RealNumber>() -> f64 {
    if width::<T>() == "f32" {
        1e-37
    } else {
        1e-290
    }
}

/// Memory layouts an owned backend matrix can legitimately be in. The logical content never changes; only the
/// ndarray backend has more than one owned layout (nalgebra and the built-in matrix are always dense column-major).
const LAYOUTS: [&str; 6] = ["standard", "row-offset(sliced in place)", "column-cut(sliced in place)", "column-major", "reversed-rows(negative stride)", "every-second-row(stride 2)"];

trait Layout<T>: Sized {
    fn relayout(self, _code: usize) -> Self {
        self
    }
}
impl<T: RealNumber> Layout<T> for DenseMatrix<T> {}
impl<T: RealNumber + nalgebra::Scalar> Layout<T> for DMatrix<T> {}
impl<T: RealNumber> Layout<T> for Array2<T> {
    fn relayout(self, code: usize) -> Self {
        let (r, c) = self.dim();
        let pad = T::from_f64(7.5).unwrap_or_else(T::one);
        match code % LAYOUTS.len() {
            1 => {
                let mut big = Array2::from_elem((r + 2, c), pad);
                big.slice_mut(s![1..r + 1, ..]).assign(&self);
                big.slice_move(s![1..r + 1, ..])
            }
            2 => {
                let mut big = Array2::from_elem((r, c + 2), pad);
                big.slice_mut(s![.., 1..c + 1]).assign(&self);
                big.slice_move(s![.., 1..c + 1])
            }
            3 => {
                let mut f = Array2::from_elem((r, c).f(), pad);
                f.assign(&self);
                f
            }
            4 => {
                let mut big = Array2::from_elem((r, c), pad);
                for i in 0..r {
                    big.row_mut(r - 1 - i).assign(&self.row(i));
                }
                big.slice_move(s![..;-1, ..])
            }
            5 => {
                let mut big = Array2::from_elem((2 * r, c), pad);
                for i in 0..r {
                    big.row_mut(2 * i).assign(&self.row(i));
                }
                big.slice_move(s![..;2, ..])
            }
            _ => self,
        }
    }
}

const VLAYOUTS: [&str; 4] = ["standard", "offset(sliced in place)", "reversed(negative stride)", "every-second-entry(stride 2)"];

fn relayout_vec<T: RealNumber>(v: Array1<T>, code: usize) -> Array1<T> {
    let n = v.len();
    let pad = T::from_f64(7.5).unwrap_or_else(T::one);
    match code % VLAYOUTS.len() {
        1 => {
            let mut big = Array1::from_elem(n + 2, pad);
            big.slice_mut(s![1..n + 1]).assign(&v);
            big.slice_move(s![1..n + 1])
        }
        2 => {
            let mut big = Array1::from_elem(n, pad);
            for i in 0..n {
                big[n - 1 - i] = v[i];
            }
            big.slice_move(s![..;-1])
        }
        3 => {
            let mut big = Array1::from_elem(2 * n, pad);
            for i in 0..n {
                big[2 * i] = v[i];
            }
            big.slice_move(s![..;2])
        }
        _ => v,
    }
}

fn regs_json(r: &Regs) -> Value {
    json!({"matrices": r.m.iter().map(mat_json).collect::<Vec<_>>(), "vectors": r.v})
}

enum StepRes {
    Ok(Val),
    Panicked(String),
    Bad,
}

/// runs one step on one backend and judges it against the model; returns what happened
fn step_backend<T: RealNumber, M: Matrix<T>>(c: &mut Case, be: &str, op: &Op, mo: &MOut, regs: &mut BackendRegs<T, M>, step: usize) -> (StepRes, Option<BVal<T, M>>) {
    let name = op.name();
    let epsw = eps::<T>();
    let sig = format!("{}/{}/{}", be, name, width::<T>());
    let res = exec::<T, M>(op, regs);
    match (mo, res) {
        (MOut::Reject, Ok(_)) => {
            c.check(&format!("{}:shape-contract:{}", be, name), false, &sig, || format!("step {}: {:?} on incompatible operands returned normally on the {} backend; a rejection (panic) is required", step, op, be));
            (StepRes::Bad, None)
        }
        (MOut::Reject, Err(p)) => {
            if p.in_harness() {
                c.inconclusive(&format!("harness panic: {}", p.short()));
                return (StepRes::Bad, None);
            }
            c.check(&format!("{}:shape-contract:{}", be, name), true, &sig, String::new);
            (StepRes::Panicked(p.short()), None)
        }
        (MOut::Unspecified(_), Ok((bv, _))) => {
            let v = bv.to_val();
            (StepRes::Ok(v), Some(bv))
        }
        (MOut::Unspecified(_), Err(p)) => {
            if p.in_harness() {
                c.inconclusive(&format!("harness panic: {}", p.short()));
                return (StepRes::Bad, None);
            }
            (StepRes::Panicked(p.short()), None)
        }
        (_, Err(p)) => {
            if p.in_harness() {
                c.inconclusive(&format!("harness panic: {}", p.short()));
                return (StepRes::Bad, None);
            }
            c.check(&format!("{}:no-panic:{}", be, name), false, &sig, || format!("step {}: {:?} panicked on valid operands on the {} backend: {}", step, op, be, p.short()));
            (StepRes::Bad, None)
        }
        (_, Ok((bv, note))) => {
            let obs = bv.to_val();
            if let Some(n) = note {
                c.check(&format!("{}:inplace==copy:{}", be, name), false, &sig, || format!("step {}: {:?}: {}", step, op, n));
            }
            match compare(&obs, mo, epsw, tiny::<T>()) {
                Ok(w) => {
                    c.ratio(&format!("{}:value:{}", be, name), w, 1.0, &sig, String::new);
                    (StepRes::Ok(obs), Some(bv))
                }
                Err(d) => {
                    c.check(&format!("{}:value:{}", be, name), false, &sig, || format!("step {}: {:?} on the {} backend: {}", step, op, be, d));
                    (StepRes::Bad, None)
                }
            }
        }
    }
}

fn vals_close(a: &Val, b: &Val, tol: f64) -> bool {
    let cl = |x: f64, y: f64, s: f64| x == y || (x.is_nan() && y.is_nan()) || (x - y).abs() <= tol * s;
    match (a, b) {
        (Val::M(x), Val::M(y)) => {
            let s = x.max_abs().max(y.max_abs()).max(1e-300);
            (x.r, x.c) == (y.r, y.c) && x.d.iter().zip(y.d.iter()).all(|(p, q)| cl(*p, *q, s))
        }
        (Val::V(x), Val::V(y)) => {
            let s = x.iter().chain(y.iter()).fold(1e-300f64, |m, v| m.max(v.abs()));
            x.len() == y.len() && x.iter().zip(y.iter()).all(|(p, q)| cl(*p, *q, s))
        }
        (Val::S(x), Val::S(y)) => cl(*x, *y, x.abs().max(y.abs()).max(1e-300)),
        _ => a == b,
    }
}

macro_rules! program_impl {
    ($fname:ident, $t:ty) => {
        fn $fname(c: &mut Case, max_dim: usize, max_len: usize) {
            type T = $t;
            let f32w = width::<T>() == "f32";
            let (mut regs, kinds) = draw_regs(&mut c.rng, max_dim, f32w);
            let init = regs_json(&regs);
            let mut bd: BackendRegs<T, DenseMatrix<T>> = BackendRegs::from_model(&regs);
            let mut bn: BackendRegs<T, Array2<T>> = BackendRegs::from_model(&regs);
            // the ndarray registers start in drawn memory layouts (same logical content)
            if c.rng.bool(0.5) {
                for i in 0..bn.m.len() {
                    let code = c.rng.below(LAYOUTS.len());
                    if code != 0 {
                        let a = std::mem::replace(&mut bn.m[i], Array2::from_elem((1, 1), 0.0 as T));
                        bn.m[i] = a.relayout(code);
                        c.bucket(&format!("ndarray-layout:{}", LAYOUTS[code]));
                        if from_m::<T, Array2<T>>(&bn.m[i]).d != from_m::<T, DenseMatrix<T>>(&bd.m[i]).d {
                            c.inconclusive("harness: relayout changed the logical content");
                            return;
                        }
                    }
                }
                for i in 0..bn.v.len() {
                    let code = c.rng.below(VLAYOUTS.len());
                    if code != 0 && !bn.v[i].is_empty() {
                        let a = std::mem::replace(&mut bn.v[i], Array1::from_elem(1, 0.0 as T));
                        bn.v[i] = relayout_vec(a, code);
                        c.bucket(&format!("ndarray-vector-layout:{}", VLAYOUTS[code]));
                        if bn.v[i].iter().cloned().collect::<Vec<T>>() != bd.v[i] {
                            c.inconclusive("harness: vector relayout changed the logical content");
                            return;
                        }
                    }
                }
            }
            let mut ba: BackendRegs<T, DMatrix<T>> = BackendRegs::from_model(&regs);
            let len = c.rng.us(1, max_len);
            let mut trace: Vec<String> = Vec::new();
            let epsw = eps::<T>();
            c.bucket(&format!("width:{}", width::<T>()));
            for k in &kinds {
                c.bucket(&format!("values:{}", k));
            }
            let mut compared = 0;
            let mut transposed_seen = false;
            for step in 0..len {
                let op = draw_op(&mut c.rng, &regs, f32w);
                let name = op.name();
                trace.push(format!("{:?}", op));
                c.describe(json!({"width": width::<T>(), "registers": init, "program": trace}));
                let mo = model(&op, &regs, epsw);
                let (rd, vd) = step_backend::<T, DenseMatrix<T>>(c, "dense", &op, &mo, &mut bd, step);
                let (rn, vn) = step_backend::<T, Array2<T>>(c, "ndarray", &op, &mo, &mut bn, step);
                let (ra, va) = step_backend::<T, DMatrix<T>>(c, "nalgebra", &op, &mo, &mut ba, step);
                if let MOut::Unspecified(why) = &mo {
                    c.bucket(&format!("unspecified:{}", why));
                    if matches!(op, Op::Eq(_, _) | Op::PerturbedEq(_, _, _, _)) {
                        // `==` of operands that differ by less than rounding: DenseMatrix compares with an
                        // epsilon, ndarray / nalgebra use their own exact PartialEq — "up to rounding"
                        continue;
                    }
                    // the statement leaves the value open, but all backends must handle it the same way
                    let kinds: Vec<u8> = [&rd, &rn, &ra].iter().map(|r| match r { StepRes::Ok(_) => 0u8, StepRes::Panicked(_) => 1u8, StepRes::Bad => 2u8 }).collect();
                    if !kinds.contains(&2) {
                        let same_kind = kinds[0] == kinds[1] && kinds[1] == kinds[2];
                        let sig = format!("{}/{}", name, width::<T>());
                        let descr = |r: &StepRes| match r { StepRes::Ok(v) => format!("returned {}", v.json()), StepRes::Panicked(m) => format!("panicked ({})", m), StepRes::Bad => "bad".to_string() };
                        if !c.check(&format!("consistent:{}", name), same_kind, &sig, || format!("step {}: {:?} ({}): dense {}, ndarray {}, nalgebra {}", step, op, why, descr(&rd), descr(&rn), descr(&ra))) {
                            break;
                        }
                        if let (StepRes::Ok(a), StepRes::Ok(b), StepRes::Ok(d)) = (&rd, &rn, &ra) {
                            let finite = |v: &Val| match v { Val::M(m) => m.all_finite(), Val::V(x) => x.iter().all(|q| q.is_finite()), Val::S(s) => s.is_finite(), _ => true };
                            // entry-wise operations have no summation order to differ in: NaN / infinity patterns must agree too
                            let entrywise = matches!(op, Op::Scale(_, _, _, _));
                            if entrywise || (finite(a) && finite(b) && finite(d)) {
                                let tol = if f32w { 1e-4 } else { 1e-9 };
                                let ok = vals_close(a, b, tol) && vals_close(a, d, tol);
                                c.check(&format!("consistent-value:{}", name), ok, &sig, || format!("step {}: {:?} ({}): dense {}, ndarray {}, nalgebra {}", step, op, why, a.json(), b.json(), d.json()));
                            }
                        }
                    }
                    continue;
                }
                // discrete results (index vectors, booleans, shapes) must be identical on all backends, also
                // where the reference model accepts several values (e.g. which of several tied maxima)
                if let (StepRes::Ok(a), StepRes::Ok(b), StepRes::Ok(d)) = (&rd, &rn, &ra) {
                    if matches!(a, Val::I(_) | Val::B(_)) {
                        let sig = format!("{}/{}", name, width::<T>());
                        c.check(&format!("ndarray:same-as-dense:{}", name), a == b, &format!("ndarray/{}", sig), || format!("step {}: {:?}: dense {} vs ndarray {}", step, op, a.json(), b.json()));
                        c.check(&format!("nalgebra:same-as-dense:{}", name), a == d, &format!("nalgebra/{}", sig), || format!("step {}: {:?}: dense {} vs nalgebra {}", step, op, a.json(), d.json()));
                    }
                }
                // synchronise: the model takes the dense backend's observed value; every backend's
                // result object is overwritten entry-wise with it (keeps its memory layout)
                match rd {
                    StepRes::Ok(obs) => {
                        compared += 1;
                        c.bucket(&format!("op:{}", name));
                        if matches!(op, Op::Transpose(_)) {
                            transposed_seen = true;
                        }
                        store(&mut regs, &obs, step);
                        if let Some(v) = vd {
                            store_backend(&mut bd, v, &obs, step);
                        }
                        match (rn, vn) {
                            (StepRes::Ok(_), Some(v)) => store_backend(&mut bn, v, &obs, step),
                            _ => bn = BackendRegs::from_model(&regs),
                        }
                        match (ra, va) {
                            (StepRes::Ok(_), Some(v)) => store_backend(&mut ba, v, &obs, step),
                            _ => ba = BackendRegs::from_model(&regs),
                        }
                    }
                    StepRes::Panicked(_) => {
                        compared += 1;
                        c.bucket("rejected-incompatible-operands");
                    }
                    StepRes::Bad => break,
                }
            }
            c.bucket_if(transposed_seen, "non-standard-layout-operand(after transpose)");
            if compared > 0 {
                c.nontrivial();
            }
        }
    };
}
program_impl!(program_f64, f64);
program_impl!(program_f32, f32);

fn program(c: &mut Case) {
    if c.rng.bool(0.25) {
        program_f32(c, 8, 8)
    } else {
        program_f64(c, 8, 8)
    }
}

/// shapes up to 48x48 and long thin operands of 1025..1500 entries
fn program_large(c: &mut Case) {
    if c.rng.bool(0.25) {
        program_f32(c, 48, 8)
    } else {
        program_f64(c, 48, 8)
    }
}

fn program_small(c: &mut Case) {
    if c.rng.bool(0.25) {
        program_f32(c, 3, 4)
    } else {
        program_f64(c, 3, 4)
    }
}


// ------------------------------------------------------------------------------------------------
// decompositions and estimators, generically on the three backends

use scverif::gen;
use scverif::refla::Mat;
use smartcore::cluster::dbscan::{DBSCANParameters, DBSCAN};
use smartcore::decomposition::pca::{PCAParameters, PCA};
use smartcore::decomposition::svd::{SVDParameters, SVD as TSVD};
use smartcore::ensemble::random_forest_classifier::{RandomForestClassifier, RandomForestClassifierParameters};
use smartcore::ensemble::random_forest_regressor::{RandomForestRegressor, RandomForestRegressorParameters};
use smartcore::linalg::BaseVector;
use smartcore::linear::elastic_net::{ElasticNet, ElasticNetParameters};
use smartcore::linear::lasso::{Lasso, LassoParameters};
use smartcore::linear::linear_regression::{LinearRegression, LinearRegressionParameters, LinearRegressionSolverName};
use smartcore::linear::logistic_regression::{LogisticRegression, LogisticRegressionParameters};
use smartcore::linear::ridge_regression::{RidgeRegression, RidgeRegressionParameters, RidgeRegressionSolverName};
use smartcore::naive_bayes::bernoulli::{BernoulliNB, BernoulliNBParameters};
use smartcore::naive_bayes::categorical::{CategoricalNB, CategoricalNBParameters};
use smartcore::naive_bayes::gaussian::{GaussianNB, GaussianNBParameters};
use smartcore::naive_bayes::multinomial::{MultinomialNB, MultinomialNBParameters};
use smartcore::neighbors::knn_classifier::{KNNClassifier, KNNClassifierParameters};
use smartcore::neighbors::knn_regressor::{KNNRegressor, KNNRegressorParameters};
use smartcore::neighbors::KNNWeightFunction;
use smartcore::algorithm::neighbour::KNNAlgorithmName;
use smartcore::preprocessing::categorical::{OneHotEncoder, OneHotEncoderParams};
use smartcore::svm::svr::{SVRParameters, SVR};
use smartcore::svm::Kernels;
use smartcore::tree::decision_tree_classifier::{DecisionTreeClassifier, DecisionTreeClassifierParameters};
use smartcore::tree::decision_tree_regressor::{DecisionTreeRegressor, DecisionTreeRegressorParameters};

#[derive(Clone)]
struct Data {
    kind: &'static str,
    x: Mat,
    y: Vec<f64>,
    xq: Mat,
    p1: f64,
    p2: f64,
    flag: bool,
    k: usize,
    seed: u64,
    idx: Vec<usize>,
    layout: usize, // memory layouts of the training / query matrices (ndarray backend only)
}

fn vecm<M: Matrix<f64>>(v: &[f64]) -> M::RowVector {
    M::RowVector::from_array(v)
}

fn outv<V: BaseVector<f64>>(v: &V) -> Vec<f64> {
    v.to_vec()
}

fn e2s<E: std::fmt::Display>(e: E) -> String {
    format!("{}", e)
}

/// fit + predict / transform of one estimator kind on backend M; output flattened to a vector
fn run_est<M: Matrix<f64> + Layout<f64>>(d: &Data) -> Result<Vec<f64>, String> {
    let x: M = to_m::<f64, M>(&d.x).relayout(d.layout);
    let xq: M = to_m::<f64, M>(&d.xq).relayout(d.layout / LAYOUTS.len());
    let y = vecm::<M>(&d.y);
    smartcore::verif::set_step_budget(20_000_000);
    let r = (|| -> Result<Vec<f64>, String> {
        Ok(match d.kind {
            "linear-qr" | "linear-svd" => {
                let solver = if d.kind == "linear-qr" { LinearRegressionSolverName::QR } else { LinearRegressionSolverName::SVD };
                let m = LinearRegression::fit(&x, &y, LinearRegressionParameters::default().with_solver(solver)).map_err(e2s)?;
                let mut o = outv(&m.predict(&xq).map_err(e2s)?);
                o.extend(from_m(m.coefficients()).d);
                o.push(m.intercept());
                o
            }
            "ridge-cholesky" | "ridge-svd" => {
                let solver = if d.kind == "ridge-cholesky" { RidgeRegressionSolverName::Cholesky } else { RidgeRegressionSolverName::SVD };
                let m = RidgeRegression::fit(&x, &y, RidgeRegressionParameters::default().with_alpha(d.p1).with_solver(solver).with_normalize(d.flag)).map_err(e2s)?;
                let mut o = outv(&m.predict(&xq).map_err(e2s)?);
                o.extend(from_m(m.coefficients()).d);
                o.push(m.intercept());
                o
            }
            "lasso" => {
                let m = Lasso::fit(&x, &y, LassoParameters::default().with_alpha(d.p1).with_normalize(d.flag).with_tol(1e-6)).map_err(e2s)?;
                let mut o = outv(&m.predict(&xq).map_err(e2s)?);
                o.extend(from_m(m.coefficients()).d);
                o.push(m.intercept());
                o
            }
            "elastic-net" => {
                let m = ElasticNet::fit(&x, &y, ElasticNetParameters::default().with_alpha(d.p1).with_l1_ratio(d.p2).with_normalize(d.flag).with_tol(1e-6)).map_err(e2s)?;
                let mut o = outv(&m.predict(&xq).map_err(e2s)?);
                o.extend(from_m(m.coefficients()).d);
                o.push(m.intercept());
                o
            }
            "logistic" => {
                let m = LogisticRegression::fit(&x, &y, LogisticRegressionParameters::default().with_alpha(d.p1)).map_err(e2s)?;
                let mut o = outv(&m.predict(&xq).map_err(e2s)?);
                o.extend(from_m(m.coefficients()).d);
                o.extend(from_m(m.intercept()).d);
                o
            }
            "gaussian-nb" => outv(&GaussianNB::fit(&x, &y, GaussianNBParameters::default()).map_err(e2s)?.predict(&xq).map_err(e2s)?),
            "multinomial-nb" => outv(&MultinomialNB::fit(&x, &y, MultinomialNBParameters::default().with_alpha(d.p1)).map_err(e2s)?.predict(&xq).map_err(e2s)?),
            "bernoulli-nb" => outv(&BernoulliNB::fit(&x, &y, BernoulliNBParameters::default().with_alpha(d.p1).with_binarize(0.5)).map_err(e2s)?.predict(&xq).map_err(e2s)?),
            "categorical-nb" => outv(&CategoricalNB::fit(&x, &y, CategoricalNBParameters::default().with_alpha(d.p1)).map_err(e2s)?.predict(&xq).map_err(e2s)?),
            "knn-classifier" => {
                let alg = if d.flag { KNNAlgorithmName::CoverTree } else { KNNAlgorithmName::LinearSearch };
                let w = if d.seed % 2 == 0 { KNNWeightFunction::Uniform } else { KNNWeightFunction::Distance };
                outv(&KNNClassifier::fit(&x, &y, KNNClassifierParameters::default().with_k(d.k).with_algorithm(alg).with_weight(w)).map_err(e2s)?.predict(&xq).map_err(e2s)?)
            }
            "knn-regressor" => {
                let alg = if d.flag { KNNAlgorithmName::CoverTree } else { KNNAlgorithmName::LinearSearch };
                let w = if d.seed % 2 == 0 { KNNWeightFunction::Uniform } else { KNNWeightFunction::Distance };
                outv(&KNNRegressor::fit(&x, &y, KNNRegressorParameters::default().with_k(d.k).with_algorithm(alg).with_weight(w)).map_err(e2s)?.predict(&xq).map_err(e2s)?)
            }
            "tree-classifier" => outv(&DecisionTreeClassifier::fit(&x, &y, DecisionTreeClassifierParameters::default().with_min_samples_leaf(d.k)).map_err(e2s)?.predict(&xq).map_err(e2s)?),
            "tree-regressor" => outv(&DecisionTreeRegressor::fit(&x, &y, DecisionTreeRegressorParameters::default().with_min_samples_leaf(d.k)).map_err(e2s)?.predict(&xq).map_err(e2s)?),
            "forest-classifier" => outv(&RandomForestClassifier::fit(&x, &y, RandomForestClassifierParameters::default().with_n_trees(5).with_seed(d.seed)).map_err(e2s)?.predict(&xq).map_err(e2s)?),
            "forest-regressor" => outv(&RandomForestRegressor::fit(&x, &y, RandomForestRegressorParameters::default().with_n_trees(5).with_seed(d.seed)).map_err(e2s)?.predict(&xq).map_err(e2s)?),
            "svr-linear" => outv(&SVR::fit(&x, &y, SVRParameters::default().with_eps(d.p2).with_c(d.p1).with_tol(1e-3)).map_err(e2s)?.predict(&xq).map_err(e2s)?),
            "svr-rbf" => outv(&SVR::fit(&x, &y, SVRParameters::default().with_eps(d.p2).with_c(d.p1).with_tol(1e-3).with_kernel(Kernels::rbf(0.5))).map_err(e2s)?.predict(&xq).map_err(e2s)?),
            "pca" => {
                let m = PCA::fit(&x, PCAParameters::default().with_n_components(d.k).with_use_correlation_matrix(d.flag)).map_err(e2s)?;
                // sign of a component is free: report |transform| column-wise normalised by the sign of its largest entry
                let tq = from_m(&m.transform(&xq).map_err(e2s)?);
                let tx = from_m(&m.transform(&x).map_err(e2s)?);
                let mut o = Vec::new();
                for j in 0..tx.c {
                    let col = tx.col(j);
                    let mut big = 0usize;
                    for i in 0..col.len() {
                        if col[i].abs() > col[big].abs() {
                            big = i;
                        }
                    }
                    let sgn = if col[big] < 0.0 { -1.0 } else { 1.0 };
                    o.extend(col.iter().map(|v| v * sgn));
                    o.extend(tq.col(j).iter().map(|v| v * sgn));
                }
                o
            }
            "truncated-svd" => {
                let m = TSVD::fit(&x, SVDParameters::default().with_n_components(d.k)).map_err(e2s)?;
                let tq = from_m(&m.transform(&xq).map_err(e2s)?);
                let tx = from_m(&m.transform(&x).map_err(e2s)?);
                let mut o = Vec::new();
                for j in 0..tx.c {
                    let col = tx.col(j);
                    let mut big = 0usize;
                    for i in 0..col.len() {
                        if col[i].abs() > col[big].abs() {
                            big = i;
                        }
                    }
                    let sgn = if col[big] < 0.0 { -1.0 } else { 1.0 };
                    o.extend(col.iter().map(|v| v * sgn));
                    o.extend(tq.col(j).iter().map(|v| v * sgn));
                }
                o
            }
            "one-hot" => {
                let enc = OneHotEncoder::fit(&x, OneHotEncoderParams::from_cat_idx(&d.idx)).map_err(e2s)?;
                let o = from_m(&enc.transform(&x).map_err(e2s)?);
                let mut v = vec![o.r as f64, o.c as f64];
                v.extend(o.d);
                v
            }
            "dbscan" => {
                let alg = if d.flag { KNNAlgorithmName::CoverTree } else { KNNAlgorithmName::LinearSearch };
                let m = DBSCAN::fit(&x, DBSCANParameters::default().with_eps(d.p1).with_min_samples(d.k).with_algorithm(alg)).map_err(e2s)?;
                let mut o = outv(&m.predict(&x).map_err(e2s)?);
                o.extend(outv(&m.predict(&xq).map_err(e2s)?));
                o
            }
            "metrics" => {
                let yt = vecm::<M>(&d.y);
                let yp = vecm::<M>(&d.xq.d);
                let sc = vecm::<M>(&d.x.d);
                use smartcore::metrics::*;
                vec![
                    accuracy(&yt, &yp),
                    precision(&yt, &yp),
                    recall(&yt, &yp),
                    f1(&yt, &yp, 1.0),
                    roc_auc_score(&yt, &sc),
                    mean_squared_error(&yt, &sc),
                    mean_absolute_error(&yt, &sc),
                    r2(&yt, &sc),
                    homogeneity_score(&yt, &yp),
                    completeness_score(&yt, &yp),
                    v_measure_score(&yt, &yp),
                ]
            }
            _ => return Err("unknown kind".into()),
        })
    })();
    smartcore::verif::set_step_budget(u64::MAX);
    r
}

const EST_KINDS: [&str; 26] = [
    "linear-qr", "linear-svd", "ridge-cholesky", "ridge-svd", "lasso", "elastic-net", "logistic", "gaussian-nb", "multinomial-nb", "bernoulli-nb", "categorical-nb",
    "knn-classifier", "knn-regressor", "tree-classifier", "tree-regressor", "forest-classifier", "forest-regressor", "svr-linear", "svr-rbf", "pca", "truncated-svd",
    "one-hot", "dbscan", "metrics", "linear-qr", "ridge-cholesky",
];

fn draw_data(rng: &mut Rng, kind: &'static str) -> Data {
    let n = rng.us(8, 40);
    let p = rng.us(1, 5);
    let nq = rng.us(1, 8);
    let mut d = Data { kind, x: Mat::zeros(1, 1), y: vec![], xq: Mat::zeros(1, 1), p1: 1.0, p2: 0.5, flag: rng.bool(0.5), k: 1, seed: rng.next_u64(), idx: vec![], layout: if rng.bool(0.5) { 0 } else { rng.below(LAYOUTS.len() * LAYOUTS.len()) } };
    let classes = rng.us(2, 3);
    let labels: Vec<f64> = {
        let vals: Vec<f64> = (0..classes).map(|c| (c as f64) * 2.0 - 1.0).collect();
        let mut l: Vec<f64> = (0..n).map(|i| vals[i % classes]).collect();
        rng.shuffle(&mut l);
        l
    };
    let cont = |rng: &mut Rng, n: usize, p: usize| gen::design(rng, n.max(p + 2), p, 1e3, 0.1, 100.0, 1.0);
    match kind {
        "linear-qr" | "linear-svd" | "ridge-cholesky" | "ridge-svd" | "lasso" | "elastic-net" | "svr-linear" | "svr-rbf" | "knn-regressor" | "tree-regressor" | "forest-regressor" => {
            d.x = if kind.starts_with("svr") { Mat::randn(rng, n, p) } else { cont(rng, n, p) };
            let n = d.x.r;
            let w: Vec<f64> = (0..p).map(|_| rng.normal()).collect();
            d.y = (0..n).map(|i| d.x.row(i).iter().zip(w.iter()).map(|(a, b)| a * b).sum::<f64>() / 10.0 + rng.normal() * 0.3 + 2.0).collect();
            d.xq = Mat::from_fn(nq, p, |i, j| d.x.at(i % n, j) + 0.1 * rng.normal());
            d.p1 = rng.logu(1e-2, 10.0);
            d.p2 = rng.uni(0.1, 1.0);
            if kind.starts_with("svr") {
                d.p1 = rng.logu(0.1, 10.0);
                d.p2 = rng.uni(0.0, 0.5);
            }
            d.k = rng.us(1, 3);
        }
        "logistic" | "gaussian-nb" | "knn-classifier" | "tree-classifier" | "forest-classifier" => {
            let centers = Mat::randn(rng, classes, p).scale(2.0);
            d.x = Mat::from_fn(n, p, |i, j| centers.at(((labels[i] + 1.0) / 2.0) as usize, j) + rng.normal());
            d.y = labels.clone();
            d.xq = Mat::from_fn(nq, p, |i, j| d.x.at(i % n, j) + 0.3 * rng.normal());
            d.p1 = rng.logu(1e-1, 10.0);
            d.k = rng.us(2, 4);
        }
        "multinomial-nb" => {
            d.x = Mat::from_fn(n, p, |i, _| rng.int(0, 4 + ((labels[i] + 1.0) as i64)) as f64);
            d.y = labels.clone();
            d.xq = Mat::from_fn(nq, p, |_, _| rng.int(0, 5) as f64);
            d.p1 = rng.logu(0.1, 3.0);
        }
        "bernoulli-nb" => {
            d.x = Mat::from_fn(n, p, |i, _| if rng.bool(0.3 + 0.15 * (labels[i] + 1.0)) { 1.0 } else { 0.0 });
            d.y = labels.clone();
            d.xq = Mat::from_fn(nq, p, |_, _| rng.int(0, 1) as f64);
            d.p1 = rng.logu(0.1, 3.0);
        }
        "categorical-nb" => {
            d.x = Mat::from_fn(n, p, |_, _| rng.int(0, 2) as f64);
            // make sure every category code 0..2 occurs in every column
            for j in 0..p {
                for cdx in 0..3 {
                    d.x.set(cdx, j, cdx as f64);
                }
            }
            d.y = (0..n).map(|i| (i % classes) as f64).collect();
            d.xq = Mat::from_fn(nq, p, |_, _| rng.int(0, 2) as f64);
            d.p1 = rng.logu(0.1, 3.0);
        }
        "pca" | "truncated-svd" => {
            let p = rng.us(2, 5);
            d.x = cont(rng, n, p);
            d.xq = Mat::from_fn(nq, p, |i, j| d.x.at(i % d.x.r, j) + 0.1 * rng.normal());
            d.k = rng.us(1, p - 1);
        }
        "one-hot" => {
            let p = rng.us(1, 6);
            let mut idx: Vec<usize> = (0..p).filter(|_| rng.bool(0.5)).collect();
            rng.shuffle(&mut idx);
            d.idx = idx.clone();
            d.x = Mat::from_fn(n, p, |_, j| if idx.contains(&j) { rng.int(0, 3) as f64 } else { rng.normal() });
            d.xq = d.x.clone();
        }
        "dbscan" => {
            d.x = Mat::from_fn(n, p.min(3), |_, _| rng.int(0, 6) as f64 + if rng.bool(0.5) { 0.0 } else { 0.25 * rng.normal() });
            d.xq = Mat::from_fn(nq, p.min(3), |_, _| rng.int(0, 6) as f64);
            d.p1 = *rng.pick(&[1.0, 1.5, 2.0]);
            d.k = rng.us(1, 4);
        }
        _ => {
            // metrics: y = binary labels, xq.d = predicted labels, x.d = scores
            d.y = (0..n).map(|_| rng.int(0, 1) as f64).collect();
            d.y[0] = 0.0;
            d.y[1] = 1.0;
            d.xq = Mat::from_fn(1, n, |_, _| rng.int(0, 1) as f64);
            d.x = Mat::from_fn(1, n, |_, _| (rng.int(0, 8) as f64) / 8.0);
        }
    }
    d
}

fn est_tolerance(kind: &str) -> f64 {
    match kind {
        // interior point / L-BFGS / SMO stop at their own tolerance: different summation orders in the
        // backends' matmul may move the stopping point
        "lasso" | "elastic-net" => 1e-4,
        "logistic" => 1e-3,
        "svr-linear" | "svr-rbf" => 2e-2,
        _ => 1e-8,
    }
}

fn estimators(c: &mut Case) {
    let kind = EST_KINDS[(c.index % EST_KINDS.len() as u64) as usize];
    let d = draw_data(&mut c.rng, kind);
    c.describe(json!({"estimator": kind, "x": mat_json(&d.x), "y": d.y, "xq": mat_json(&d.xq), "p1": d.p1, "p2": d.p2, "flag": d.flag, "k": d.k, "seed": d.seed.to_string(), "cat_idx": d.idx}));
    c.bucket(&format!("estimator:{}", kind));
    c.bucket(&format!("ndarray-layout:x={}", LAYOUTS[d.layout % LAYOUTS.len()]));
    let rd = c.must(&format!("dense:{}", kind), || run_est::<DenseMatrix<f64>>(&d));
    let rn = c.must(&format!("ndarray:{}", kind), || run_est::<Array2<f64>>(&d));
    let ra = c.must(&format!("nalgebra:{}", kind), || run_est::<DMatrix<f64>>(&d));
    let (rd, rn, ra) = match (rd, rn, ra) {
        (Some(a), Some(b), Some(d)) => (a, b, d),
        _ => return,
    };
    let sig = kind.to_string();
    match (&rd, &rn, &ra) {
        (Ok(a), Ok(b), Ok(e)) => {
            c.nontrivial();
            let scale = a.iter().fold(1e-12f64, |m, v| m.max(v.abs()));
            let tol = est_tolerance(kind);
            let labels_only = matches!(kind, "logistic" | "gaussian-nb" | "multinomial-nb" | "bernoulli-nb" | "categorical-nb" | "knn-classifier" | "tree-classifier" | "forest-classifier" | "dbscan");
            for (be, o) in [("ndarray", b), ("nalgebra", e)] {
                if o.len() != a.len() {
                    c.check(&format!("{}:same-output:{}", be, kind), false, &sig, || format!("output length {} vs dense {}", o.len(), a.len()));
                    continue;
                }
                let worst = a.iter().zip(o.iter()).map(|(p, q)| if p == q || (p.is_nan() && q.is_nan()) { 0.0 } else { (p - q).abs() }).fold(0.0f64, f64::max);
                if labels_only && kind == "logistic" {
                    // predicted labels may legitimately flip only for rows at the decision boundary; compare the
                    // fitted parameters (after the labels in the output vector) within tolerance and require
                    // at most boundary flips
                    let nq = d.xq.r;
                    let wpar = a[nq..].iter().zip(o[nq..].iter()).map(|(p, q)| (p - q).abs()).fold(0.0f64, f64::max);
                    let pscale = a[nq..].iter().fold(1e-12f64, |m, v| m.max(v.abs()));
                    c.ratio(&format!("{}:same-output:{}", be, kind), wpar, tol * pscale, &sig, || format!("fitted parameters differ: dense {:?} vs {} {:?}", &a[nq..], be, &o[nq..]));
                } else {
                    c.ratio(&format!("{}:same-output:{}", be, kind), worst, tol * scale, &sig, || format!("dense {:?} vs {} {:?}", a, be, o));
                }
            }
        }
        (Err(_), Err(_), Err(_)) => {
            c.bucket("all-backends-returned-Err");
        }
        _ => {
            let f = |r: &Result<Vec<f64>, String>| match r { Ok(_) => "Ok".to_string(), Err(e) => format!("Err({})", e) };
            c.check(&format!("same-result-kind:{}", kind), false, &sig, || format!("dense {}, ndarray {}, nalgebra {}", f(&rd), f(&rn), f(&ra)));
        }
    }
}

// decompositions on the three backends

fn run_decomp<M: Matrix<f64> + Layout<f64>>(kind: &str, a: &Mat, b: &Mat, layout: usize) -> Result<Vec<Mat>, String> {
    let am: M = to_m::<f64, M>(a).relayout(layout);
    let bm: M = to_m::<f64, M>(b).relayout(layout / LAYOUTS.len());
    Ok(match kind {
        "lu" => {
            let lu = am.lu().map_err(e2s)?;
            vec![from_m(&lu.L()), from_m(&lu.U()), from_m(&lu.pivot()), from_m(&lu.inverse().map_err(e2s)?), from_m(&am.clone().lu_solve_mut(bm).map_err(e2s)?)]
        }
        "qr" => {
            let qr = am.qr().map_err(e2s)?;
            vec![from_m(&qr.Q()), from_m(&qr.R()), from_m(&am.clone().qr_solve_mut(bm).map_err(e2s)?)]
        }
        "cholesky" => {
            let ch = am.cholesky().map_err(e2s)?;
            vec![from_m(&ch.L()), from_m(&ch.U()), from_m(&am.clone().cholesky_solve_mut(bm).map_err(e2s)?)]
        }
        "svd" => {
            let s = am.svd().map_err(e2s)?;
            let mut out = vec![from_m(&s.U), from_m(&s.V), Mat { r: 1, c: s.s.len(), d: s.s.clone() }];
            if a.r >= a.c {
                out.push(from_m(&am.svd_solve(bm).map_err(e2s)?));
            }
            out
        }
        "evd-sym" | "evd-gen" => {
            let e = am.evd(kind == "evd-sym").map_err(e2s)?;
            vec![from_m(&e.V), Mat { r: 1, c: e.d.len(), d: e.d.clone() }, Mat { r: 1, c: e.e.len(), d: e.e.clone() }]
        }
        _ => return Err("unknown".into()),
    })
}

fn decompositions(c: &mut Case) {
    let kinds = ["lu", "qr", "cholesky", "svd", "evd-sym", "evd-gen"];
    let kind = kinds[(c.index % 6) as usize];
    let n = c.rng.us(1, 10);
    let m = match kind {
        "qr" => c.rng.us(n, 12),
        "svd" => c.rng.us(1, 12),
        _ => n,
    };
    let a = match kind {
        "cholesky" => gen::spd(&mut c.rng, n, 1e4).0,
        "evd-sym" => {
            let mut s = Mat::randn(&mut c.rng, n, n);
            gen::sym(&mut s);
            s
        }
        _ => {
            let k = *c.rng.pick(&gen::FULLRANK_KINDS);
            gen::fullrank(&mut c.rng, m, n, k, 1e4)
        }
    };
    if kind != "evd-sym" && kind != "evd-gen" && !(scverif::refla::cond(&a) <= 1e6) {
        c.skip("ill-conditioned draw");
        return;
    }
    let bc = c.rng.us(1, 3);
    let b = Mat::randn(&mut c.rng, a.r, bc);
    c.describe(json!({"decomposition": kind, "A": mat_json(&a), "B": mat_json(&b)}));
    c.bucket(&format!("decomposition:{}", kind));
    let layout = if c.rng.bool(0.5) { 0 } else { c.rng.below(LAYOUTS.len() * LAYOUTS.len()) };
    c.bucket(&format!("ndarray-layout:A={}", LAYOUTS[layout % LAYOUTS.len()]));
    let rd = c.must(&format!("dense:{}", kind), || run_decomp::<DenseMatrix<f64>>(kind, &a, &b, layout));
    let rn = c.must(&format!("ndarray:{}", kind), || run_decomp::<Array2<f64>>(kind, &a, &b, layout));
    let ra = c.must(&format!("nalgebra:{}", kind), || run_decomp::<DMatrix<f64>>(kind, &a, &b, layout));
    let (rd, rn, ra) = match (rd, rn, ra) {
        (Some(x), Some(y), Some(z)) => (x, y, z),
        _ => return,
    };
    match (&rd, &rn, &ra) {
        (Ok(x), Ok(y), Ok(z)) => {
            c.nontrivial();
            for (be, o) in [("ndarray", y), ("nalgebra", z)] {
                let mut worst = 0.0f64;
                let mut shape_ok = o.len() == x.len();
                if shape_ok {
                    for (p, q) in x.iter().zip(o.iter()) {
                        if (p.r, p.c) != (q.r, q.c) {
                            shape_ok = false;
                            break;
                        }
                        let s = p.max_abs().max(1e-300);
                        let dd = p.d.iter().zip(q.d.iter()).map(|(u, v)| if u == v || (u.is_nan() && v.is_nan()) { 0.0 } else { (u - v).abs() / s }).fold(0.0f64, f64::max);
                        worst = worst.max(dd);
                    }
                }
                if !c.check(&format!("{}:same-shapes:{}", be, kind), shape_ok, kind, || "factor shapes differ from the dense backend".into()) {
                    continue;
                }
                c.ratio(&format!("{}:same-factors:{}", be, kind), worst, 1e-9, kind, || format!("factors differ from the dense backend (relative to each factor's largest entry)"));
            }
        }
        (Err(_), Err(_), Err(_)) => c.bucket("all-backends-returned-Err"),
        _ => {
            let f = |r: &Result<Vec<Mat>, String>| match r { Ok(_) => "Ok".to_string(), Err(e) => format!("Err({})", e) };
            c.check(&format!("same-result-kind:{}", kind), false, kind, || format!("dense {}, ndarray {}, nalgebra {}", f(&rd), f(&rn), f(&ra)));
        }
    }
}

/// A model whose fit is randomised but whose `predict` is generic over the matrix type: one k-means model,
/// fitted once on the built-in matrix, has to label the same query rows identically whichever backend (and memory
/// layout) holds them.
fn shared_model_predict(c: &mut Case) {
    use smartcore::cluster::kmeans::{KMeans, KMeansParameters};
    let n = c.rng.us(8, 40);
    let p = c.rng.us(1, 5);
    let nq = c.rng.us(1, 12);
    let x = Mat::from_fn(n, p, |_, _| c.rng.normal() * 3.0);
    let xq = Mat::from_fn(nq, p, |i, j| x.at(i % n, j) + c.rng.normal());
    let layout = c.rng.below(LAYOUTS.len());
    let kind = "kmeans";
    c.describe(json!({"shared-model": kind, "x": mat_json(&x), "xq": mat_json(&xq), "ndarray_layout": LAYOUTS[layout]}));
    c.bucket(&format!("shared-model:{}", kind));
    c.bucket(&format!("ndarray-layout:xq={}", LAYOUTS[layout]));
    let xd: DenseMatrix<f64> = to_m(&x);
    let qd: DenseMatrix<f64> = to_m(&xq);
    let qn: Array2<f64> = to_m::<f64, Array2<f64>>(&xq).relayout(layout);
    let qa: DMatrix<f64> = to_m(&xq);
    let outs: Option<[Result<Vec<f64>, String>; 3]> = if kind == "kmeans" {
        let k = c.rng.us(2, 4.min(n / 2).max(2));
        match c.must("KMeans::fit", || KMeans::fit(&xd, KMeansParameters::default().with_k(k))) {
            Some(Ok(m)) => c.must("KMeans::predict on three backends", || [m.predict(&qd).map_err(e2s), m.predict(&qn).map(|v| v.to_vec()).map_err(e2s), m.predict(&qa).map(|v| outv(&v)).map_err(e2s)]),
            _ => None,
        }
    } else {
        None
    };
    if let Some([Ok(d), Ok(nd), Ok(na)]) = outs {
        c.nontrivial();
        c.check(&format!("ndarray:same-output:{}-predict", kind), d == nd, kind, || format!("dense {:?}, ndarray ({}) {:?}", d, LAYOUTS[layout], nd));
        c.check(&format!("nalgebra:same-output:{}-predict", kind), d == na, kind, || format!("dense {:?}, nalgebra {:?}", d, na));
    }
}

fn main() {
    runner::main(Spec {
        property: "C20",
        rule: "a case is a random program of 1..8 matrix/vector operations (same generator as C03, shapes 1..8, nine value kinds incl. all-negative / all-positive / mixed sign, row and column vectors, results of transposes kept as non-standard-layout operands) executed step by step on DenseMatrix, ndarray::Array2 and nalgebra::DMatrix; every backend's result is compared with the row-major reference model after every step (and the backends with each other where the model leaves the value open); non-trivial = at least one step compared; distinct = hash of registers + program; in half of the programs every ndarray matrix / vector register starts in a drawn owned memory layout (row offset or column cut by slicing in place, column-major, negative stride, stride 2) with the same logical content, likewise the inputs of half of the estimator and decomposition cases; scale_mut also gets exactly-zero divisors (value left open, NaN / infinity pattern must agree across backends); shared_model_predict: one k-means model fitted on the built-in matrix labels the same rows identically on all backends; program_large: programs over shapes up to 48x48 and long thin operands of 1025..1500 entries; copy_row_as_vec / copy_col_as_vec receivers are 0, 1 or 3 entries longer than needed",
        assumptions: vec![
            "after every step each backend's result object is overwritten entry-wise (through `set`) with the dense backend's observed value, so all backends always see identical data while keeping their own memory layout",
            "tolerances as in C03 (8·k·eps·forward-error scale per entry; structural operations exact)",
        ],
        families: vec![
            Family::new("program", 20000, 300000, program),
            Family::new("program_small", 10000, 150000, program_small),
            Family::new("program_large", 300, 6000, program_large),
            Family::new("decompositions", 3000, 60000, decompositions),
            Family::new("estimators", 2600, 52000, estimators),
            Family::new("shared_model_predict", 1500, 30000, shared_model_predict),
        ],
        min_nontrivial: 4000,
        case_timeout_s: 120,
    });
}
