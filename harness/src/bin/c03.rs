//! C03 — dense matrix / vector operations obey matrix algebra and shape contracts.
//! Monitor shape: random operation *programs* executed step by step on DenseMatrix<T> / Vec<T> and on
//! the row-major reference model (scverif::matprog); registers compared after every step.
use scverif::matprog::*;
use scverif::refla::Mat;
use scverif::*;
use smartcore::linalg::naive::dense_matrix::DenseMatrix;
use smartcore::linalg::BaseMatrix;
use smartcore::math::num::RealNumber;

fn tiny<T: RealNumber>() -> f64 {
    if width::<T>() == "f32" {
        1e-37
    } else {
        1e-290
    }
}

fn regs_json(r: &Regs) -> Value {
    json!({"matrices": r.m.iter().map(mat_json).collect::<Vec<_>>(), "vectors": r.v})
}

fn program_t<T: RealNumber>(c: &mut Case, max_dim: usize, max_len: usize) {
    let f32w = width::<T>() == "f32";
    let (mut regs, kinds) = draw_regs(&mut c.rng, max_dim, f32w);
    let init = regs_json(&regs);
    let mut bregs: BackendRegs<T, DenseMatrix<T>> = BackendRegs::from_model(&regs);
    let len = c.rng.us(1, max_len);
    let mut trace: Vec<String> = Vec::new();
    let epsw = eps::<T>();
    c.bucket(&format!("width:{}", width::<T>()));
    for k in &kinds {
        c.bucket(&format!("values:{}", k));
    }
    let mut compared = 0;
    for step in 0..len {
        let op = draw_op(&mut c.rng, &regs, f32w);
        let name = op.name();
        trace.push(format!("{:?}", op));
        c.describe(json!({"width": width::<T>(), "registers": init, "program": trace}));
        let mo = model(&op, &regs, epsw);
        let res = exec::<T, DenseMatrix<T>>(&op, &bregs);
        let sig = format!("{}/{}", name, width::<T>());
        match (&mo, res) {
            (MOut::Reject, Ok(_)) => {
                c.check(&format!("shape-contract:{}", name), false, &sig, || format!("step {}: {:?} on incompatible operands returned normally; a rejection (panic) is required", step, op));
                break;
            }
            (MOut::Reject, Err(p)) => {
                if p.in_harness() {
                    c.inconclusive(&format!("harness panic: {}", p.short()));
                    return;
                }
                c.check(&format!("shape-contract:{}", name), true, &sig, String::new);
                c.bucket("rejected-incompatible-operands");
                compared += 1;
            }
            (MOut::Unspecified(why), _) => {
                c.bucket(&format!("unspecified:{}", why));
            }
            (_, Err(p)) => {
                if p.in_harness() {
                    c.inconclusive(&format!("harness panic: {}", p.short()));
                    return;
                }
                c.check(&format!("no-panic:{}", name), false, &format!("{}@{}", sig, p.loc()), || format!("step {}: {:?} panicked on valid operands: {}", step, op, p.short()));
                break;
            }
            (_, Ok((bv, note))) => {
                let obs = bv.to_val();
                if let Some(n) = note {
                    c.check(&format!("inplace==copy:{}", name), false, &sig, || format!("step {}: {:?}: {}", step, op, n));
                } else {
                    c.count(&format!("inplace==copy:{}", name));
                }
                match compare(&obs, &mo, epsw, tiny::<T>()) {
                    Ok(w) => {
                        c.ratio(&format!("value:{}", name), w, 1.0, &sig, String::new);
                        compared += 1;
                        c.bucket(&format!("op:{}", name));
                        store(&mut regs, &obs, step);
                        store_backend(&mut bregs, bv, &obs, step);
                    }
                    Err(d) => {
                        c.check(&format!("value:{}", name), false, &sig, || format!("step {}: {:?}: {}", step, op, d));
                        break;
                    }
                }
            }
        }
    }
    if compared > 0 {
        c.nontrivial();
    }
}

/// DenseMatrix-specific constructors and iteration: all agree with the row-major data
fn construct_t<T: RealNumber>(c: &mut Case) {
    let f32w = width::<T>() == "f32";
    let r = c.rng.us(1, 12);
    let cc = c.rng.us(1, 12);
    let kind = *c.rng.pick(&VALUE_KINDS);
    let d = draw_values(&mut c.rng, r * cc, kind, f32w);
    let m = Mat { r, c: cc, d: d.clone() };
    c.describe(json!({"width": width::<T>(), "constructors-of": mat_json(&m)}));
    c.bucket(&format!("width:{}", width::<T>()));
    c.bucket(if r == 1 { "shape:1xN" } else if cc == 1 { "shape:Nx1" } else if r == cc { "shape:square" } else { "shape:rect" });
    if r * cc > 1 {
        c.nontrivial();
    }
    let tvals: Vec<T> = tv(&d);
    let rows: Vec<Vec<T>> = (0..r).map(|i| tvals[i * cc..(i + 1) * cc].to_vec()).collect();
    let colmajor: Vec<T> = (0..cc).flat_map(|j| (0..r).map(move |i| (i, j))).map(|(i, j)| tvals[i * cc + j]).collect();
    let sig = format!("{}", width::<T>());
    let built: Vec<(&str, Option<DenseMatrix<T>>)> = vec![
        ("from_array", c.must("from_array", || DenseMatrix::from_array(r, cc, &tvals))),
        ("from_vec", c.must("from_vec", || DenseMatrix::from_vec(r, cc, &tvals))),
        ("from_2d_vec", c.must("from_2d_vec", || DenseMatrix::from_2d_vec(&rows))),
        ("from_2d_array", c.must("from_2d_array", || {
            let refs: Vec<&[T]> = rows.iter().map(|x| &x[..]).collect();
            DenseMatrix::from_2d_array(&refs)
        })),
        ("new(column-major)", c.must("new", || DenseMatrix::new(r, cc, colmajor.clone()))),
    ];
    for (name, b) in &built {
        if let Some(b) = b {
            let got = from_m(b);
            c.check(&format!("construct:{}", name), got == m, &format!("{}/{}", name, sig), || format!("{} gives {:?} for row-major data {:?} ({}x{})", name, got.d, m.d, r, cc));
        }
    }
    // exact equality on exact data: two matrices that differ in one entry of magnitude >= 4 by one or two units in the
    // last place of the width differ by more than the implementation's tolerance (one machine epsilon, absolute)
    if let Some(Some(a)) = built.get(0).map(|x| x.1.as_ref()) {
        let pos = c.rng.below(r * cc);
        let x0 = if d[pos].abs() >= 4.0 && d[pos].abs() < 1e30 { d[pos] } else { *c.rng.pick(&[4.0, -5.0, 1000.5, 16777216.0, -1e8, 4194304.0]) };
        let k = c.rng.us(1, 2) as i64 * if c.rng.bool(0.5) { 1 } else { -1 };
        let x1 = if f32w {
            let b = (x0 as f32).to_bits() as i64 + k;
            f32::from_bits(b as u32) as f64
        } else {
            let b = x0.to_bits() as i64 + k;
            f64::from_bits(b as u64)
        };
        let (i, j) = (pos / cc, pos % cc);
        let mut a0 = a.clone();
        a0.set(i, j, t::<T>(x0));
        let mut a1 = a.clone();
        a1.set(i, j, t::<T>(x1));
        if let Some(eq) = c.must("eq", || (a0 == a1, a1 == a0, a0 == a0.clone())) {
            let apart = (x1 - x0).abs() > 2.0 * eps::<T>();
            c.check("eq:ulp-apart-is-different", !apart || (!eq.0 && !eq.1), &sig, || format!("matrices differing only in entry ({}, {}): {:e} vs {:e} ({} ulp) compare equal", i, j, x0, x1, k));
            c.check("eq:clone-is-equal", eq.2, &sig, || "a matrix does not equal its clone".to_string());
        }
    }
    if let Some(Some(a)) = built.get(0).map(|x| x.1.as_ref()) {
        let it: Vec<f64> = fv(&a.iter().collect::<Vec<T>>());
        c.check("iter-row-major", it == m.d, &sig, || format!("iter() yields {:?}", it));
        // every way of consuming the iterator sees the same row-major sequence (an overridden fold / nth / ... included)
        let mut styles: Vec<(&str, Vec<f64>)> = Vec::new();
        {
            let mut v = Vec::new();
            for x in a.iter() {
                v.push(f(x));
            }
            styles.push(("for-loop", v));
            let mut v = Vec::new();
            a.iter().for_each(|x| v.push(f(x)));
            styles.push(("for_each", v));
            styles.push(("fold", a.iter().fold(Vec::new(), |mut acc, x| {
                acc.push(f(x));
                acc
            })));
            styles.push(("enumerate+fold", a.iter().enumerate().fold(vec![0.0; r * cc], |mut acc, (i, x)| {
                if i < acc.len() {
                    acc[i] = f(x);
                }
                acc
            })));
            let k = c.rng.below(r * cc);
            let mut itr = a.iter();
            let mut v: Vec<f64> = (0..k).filter_map(|_| itr.next()).map(f).collect();
            itr.for_each(|x| v.push(f(x)));
            styles.push(("next-then-for_each", v));
            let mut v: Vec<f64> = m.d[..k].to_vec();
            v.extend(a.iter().skip(k).map(f));
            styles.push(("skip", v));
            let mut v: Vec<f64> = Vec::new();
            let mut itr = a.iter();
            while let Some(x) = itr.nth(0) {
                v.push(f(x));
            }
            styles.push(("nth(0)", v));
            let (xs, _): (Vec<T>, Vec<usize>) = a.iter().zip(0..).unzip();
            styles.push(("zip+unzip", fv(&xs)));
            styles.push(("map+rev-collect", {
                let mut v: Vec<f64> = a.iter().map(f).collect::<Vec<f64>>().into_iter().rev().collect();
                v.reverse();
                v
            }));
        }
        for (name, v) in &styles {
            c.check(&format!("iter-row-major:{}", name), *v == m.d, &sig, || format!("consuming iter() by {} yields {:?}, row-major data {:?} ({}x{})", name, v, m.d, r, cc));
        }
        c.check("iter-count/last", a.iter().count() == r * cc && a.iter().last().map(f) == m.d.last().cloned(), &sig, || format!("count {} / last {:?}", a.iter().count(), a.iter().last().map(f)));
        for (name, b) in &built[1..] {
            if let Some(b) = b {
                c.check("constructors-equal", a == b, &format!("{}/{}", name, sig), || format!("from_array != {}", name));
            }
        }
        let rv = fv(&a.clone().to_row_vector());
        c.check("to_row_vector-row-major", rv == m.d, &sig, || format!("{:?}", rv));
    }
    if r == 1 || cc == 1 {
        let v1 = if r == 1 { DenseMatrix::row_vector_from_array(&tvals) } else { DenseMatrix::column_vector_from_array(&tvals) };
        let v2 = if r == 1 { DenseMatrix::row_vector_from_vec(tvals.clone()) } else { DenseMatrix::column_vector_from_vec(tvals.clone()) };
        c.check("construct:vector", from_m(&v1) == m && from_m(&v2) == m, &sig, || "row/column vector constructors".to_string());
    }
}

fn program(c: &mut Case) {
    if c.rng.bool(0.3) {
        program_t::<f32>(c, 12, 8)
    } else {
        program_t::<f64>(c, 12, 8)
    }
}

fn program_small(c: &mut Case) {
    // many short programs on tiny shapes: 1xN / Nx1 / 1x1 edge cases dominate
    if c.rng.bool(0.3) {
        program_t::<f32>(c, 3, 3)
    } else {
        program_t::<f64>(c, 3, 3)
    }
}

/// shapes up to 48x48 and long thin operands of 1025..1500 entries (beyond the ordinary bound of 12)
fn program_large(c: &mut Case) {
    if c.rng.bool(0.3) {
        program_t::<f32>(c, 48, 8)
    } else {
        program_t::<f64>(c, 48, 8)
    }
}

fn construct(c: &mut Case) {
    if c.rng.bool(0.3) {
        construct_t::<f32>(c)
    } else {
        construct_t::<f64>(c)
    }
}

fn main() {
    runner::main(Spec {
        property: "C03",
        rule: "a case is a random program of 1..8 operations (structural, element-wise, reductions, statistics, shape-contract probes; operands drawn compatible 75% / arbitrary 25%) over a register file of 2..4 matrices (shapes 1..12, incl. 1xN, Nx1, 1x1) and 2..3 vectors with nine value kinds (small ints, normal, all-negative, all-positive, all-equal, large 1e150/1e15, common offset up to 1e8/1e3, mixed magnitude, 0/1), f64 or f32; executed step by step on DenseMatrix/Vec and on the row-major reference model, all results compared after every step; non-trivial = at least one step was compared against the model or correctly rejected; distinct = hash of registers + program; program_large: programs over shapes up to 48x48 and long thin operands of 1025..1500 entries; copy_row_as_vec / copy_col_as_vec receivers are 0, 1 or 3 entries longer than needed",
        assumptions: vec![
            "population normaliser (n) for var/std, sample normaliser (n-1) for cov — as fixed by the crate's own tests/docs",
            "var/std accuracy is demanded relative to the spread (1e-6 f64 / 1e-2 f32) for |mean|/spread up to 1e8 (f64) / 1e3 (f32)",
            "dot of two non-vector operands with equal element count, and == within 1e-6 relative, are left open (no verdict)",
            "element-wise tolerance 8·k·eps·(forward error scale of the formula) per entry; structural operations exact",
        ],
        families: vec![
            Family::new("program", 40000, 800000, program),
            Family::new("program_small", 20000, 400000, program_small),
            Family::new("program_large", 800, 6000, program_large),
            Family::new("construct", 3000, 60000, construct),
        ],
        min_nontrivial: 8000,
        case_timeout_s: 120,
    });
}
