//! C06 — Random forests: seed-reproducible fits, faithful aggregation of the member trees (plurality
//! vote / arithmetic mean), out-of-bag aggregation over exactly the trees whose bootstrap sample did
//! not contain the row, original label values, stratified bootstrap, range of the regressor, n_trees.
//!
//! Observation: `serde_json::to_value(&forest)` (no text round trip, so floats are carried exactly):
//! `trees[t]` is re-hydrated with `serde_json::from_value` into a `DecisionTree{Classifier,Regressor}`
//! whose own public `predict` is called; `samples[t][i]` (only with `keep_samples`) is the bootstrap
//! mask of tree t (`true` = row i was drawn at least once).
use scverif::refla::csum;
use scverif::*;
use serde::de::DeserializeOwned;
use serde::Serialize;
use smartcore::ensemble::random_forest_classifier::{RandomForestClassifier, RandomForestClassifierParameters};
use smartcore::ensemble::random_forest_regressor::{RandomForestRegressor, RandomForestRegressorParameters};
use smartcore::linalg::naive::dense_matrix::DenseMatrix;
use smartcore::math::num::RealNumber;
use smartcore::tree::decision_tree_classifier::{DecisionTreeClassifier, SplitCriterion};
use smartcore::tree::decision_tree_regressor::DecisionTreeRegressor;

trait Num: RealNumber + Serialize + DeserializeOwned {}
impl Num for f32 {}
impl Num for f64 {}

// ------------------------------------------------------------------------------------ generators

const XKINDS: [&str; 4] = ["continuous", "normal", "small-int", "lattice"];

fn draw_n(rng: &mut Rng) -> usize {
    // the `large` family: several hundred rows
    if scverif::big() > 0 {
        return rng.us(560, 900);
    }
    let r = rng.f();
    if r < 0.3 {
        rng.us(4, 10)
    } else if r < 0.7 {
        rng.us(11, 40)
    } else {
        rng.us(41, 120)
    }
}

/// rows × p feature matrix of the given kind ("lattice": values pairwise distinct within a feature,
/// multiples of 1/8, so every midpoint between two values is exactly representable in f32 and f64)
fn draw_x(rng: &mut Rng, rows: usize, p: usize, kind: &str, is32: bool) -> Mat {
    let mut m = Mat::zeros(rows, p);
    for j in 0..p {
        match kind {
            "continuous" => {
                let s = *rng.pick(&[1.0, 1.0, 100.0, 1e-3]);
                for i in 0..rows {
                    m.set(i, j, rng.uni(-1.0, 1.0) * s);
                }
            }
            "normal" => {
                let mu = *rng.pick(&[0.0, 0.0, 5.0, -300.0]);
                for i in 0..rows {
                    m.set(i, j, mu + rng.normal());
                }
            }
            "small-int" => {
                let hi = rng.int(1, 4);
                for i in 0..rows {
                    m.set(i, j, rng.int(0, hi) as f64);
                }
            }
            _ => {
                let perm = rng.perm(4 * rows);
                for i in 0..rows {
                    m.set(i, j, (perm[i] as f64 - 2.0 * rows as f64) / 8.0);
                }
            }
        }
    }
    if is32 {
        m.round_f32()
    } else {
        m
    }
}

/// constant feature / duplicated rows (identical rows that may carry conflicting labels / targets)
fn modify_x(rng: &mut Rng, x: &mut Mat) -> Vec<&'static str> {
    let mut mods = Vec::new();
    let (n, p) = (x.r, x.c);
    if p >= 2 && rng.bool(0.15) {
        let j = rng.below(p);
        let v = x.at(0, j);
        for i in 0..n {
            x.set(i, j, v);
        }
        mods.push("constant-feature");
    }
    if rng.bool(0.1) {
        // pairwise distinct values in an order that drives the library's argsort into its most lopsided partitions
        let j = rng.below(p);
        let col = scverif::gen::sort_killer(n, rng.bool(0.5));
        for i in 0..n {
            x.set(i, j, col[i]);
        }
        mods.push("sort-killer-feature");
    }
    if rng.bool(0.2) {
        let d = rng.us(1, (n / 3).max(1));
        for _ in 0..d {
            let a = rng.below(n);
            let b = rng.below(n);
            for j in 0..p {
                let v = x.at(a, j);
                x.set(b, j, v);
            }
        }
        mods.push("duplicate-rows");
    }
    mods
}

fn draw_fresh(rng: &mut Rng, x: &Mat, kind: &str, is32: bool) -> Mat {
    let nf = rng.us(1, 10);
    let mut xf = draw_x(rng, nf, x.c, if kind == "lattice" { "continuous" } else { kind }, is32);
    if kind == "lattice" {
        // bring the fresh rows to the scale of the lattice
        let s = x.r as f64 / 4.0;
        for v in xf.d.iter_mut() {
            *v *= s;
        }
        if is32 {
            xf = xf.round_f32();
        }
    }
    for i in 0..nf {
        let r = rng.f();
        if r < 0.25 {
            // a copy of a training row
            let a = rng.below(x.r);
            for j in 0..x.c {
                xf.set(i, j, x.at(a, j));
            }
        } else if r < 0.4 {
            // far outside the training range
            let s = if rng.bool(0.5) { 1e3 } else { -1e3 };
            for j in 0..x.c {
                let v = xf.at(i, j);
                xf.set(i, j, v.abs().max(1.0) * s);
            }
        }
    }
    xf
}

fn draw_label_values(rng: &mut Rng, k: usize, is32: bool) -> Vec<f64> {
    if rng.bool(0.35) {
        (0..k).map(|i| i as f64).collect()
    } else if k >= 2 && rng.bool(0.15) {
        // (values that are not exactly representable in f32 are rounded to the width under test by the caller's to_dense / tv)
        let v = scverif::gen::tricky_labels(rng, k).0;
        let w: Vec<f64> = if is32 { v.iter().map(|x| *x as f32 as f64).collect() } else { v };
        let distinct = (0..k).all(|i| (0..i).all(|j| w[i] != w[j]));
        if distinct {
            w
        } else {
            (0..k).map(|i| i as f64 * 2.0 - 1.0).collect()
        }
    } else if k > 11 {
        // many classes: half-integers from -k/2 upwards, shuffled (all exactly representable in f32)
        let perm = rng.perm(k);
        (0..k).map(|i| (perm[i] as f64 - (k / 2) as f64) * 0.5).collect()
    } else {
        // all exactly representable in f32
        let pool = [-7.5, -3.0, -1.0, 0.0, 0.5, 1.0, 2.0, 5.0, 10.0, 100.0, 1048576.0];
        let perm = rng.perm(pool.len());
        (0..k).map(|i| pool[perm[i]]).collect()
    }
}

/// class index per row; every class 0..k occurs at least once
fn draw_classes(rng: &mut Rng, x: &Mat, k: usize) -> (Vec<usize>, &'static str) {
    let n = x.r;
    let mut cls = vec![0usize; n];
    let signal = rng.bool(0.55);
    if signal {
        let mut score: Vec<(f64, usize)> = (0..n).map(|i| (x.at(i, 0) + if x.c > 1 { 0.5 * x.at(i, 1) } else { 0.0 }, i)).collect();
        score.sort_by(|a, b| a.partial_cmp(b).unwrap_or(std::cmp::Ordering::Equal));
        for (rank, (_, i)) in score.iter().enumerate() {
            cls[*i] = (rank * k / n).min(k - 1);
            if rng.bool(0.15) {
                cls[*i] = rng.below(k);
            }
        }
    } else {
        let w: Vec<f64> = (0..k).map(|_| rng.uni(0.15, 1.0).powi(2)).collect();
        let tot: f64 = w.iter().sum();
        for c in cls.iter_mut() {
            let mut u = rng.f() * tot;
            let mut pick = k - 1;
            for (ci, wi) in w.iter().enumerate() {
                if u < *wi {
                    pick = ci;
                    break;
                }
                u -= *wi;
            }
            *c = pick;
        }
    }
    let singleton = rng.bool(0.2);
    if singleton {
        for c in cls.iter_mut() {
            if *c == k - 1 {
                *c = 0;
            }
        }
    }
    let perm = rng.perm(n);
    for ci in 0..k {
        cls[perm[ci]] = ci;
    }
    (cls, if singleton { "singleton-class" } else if signal { "signal" } else { "noise" })
}

fn draw_targets(rng: &mut Rng, x: &Mat, grown: bool, is32: bool) -> (Vec<f64>, &'static str) {
    let n = x.r;
    let kind: &'static str = if grown {
        "dyadic"
    } else {
        let r = rng.f();
        if r < 0.3 {
            "linear+noise"
        } else if r < 0.45 {
            "step"
        } else if r < 0.6 {
            "integers"
        } else if r < 0.75 {
            "offset"
        } else if r < 0.87 {
            "few-values"
        } else if r < 0.92 {
            "negative"
        } else if r < 0.97 {
            "mixed-magnitudes"
        } else {
            "constant"
        }
    };
    let w: Vec<f64> = (0..x.c).map(|_| rng.normal()).collect();
    let base = *rng.pick(&[1000.0, 1e6, -1e4]);
    let vals = [rng.normal() * 3.0, rng.normal() * 3.0, rng.normal() * 3.0];
    let (a, b) = (rng.normal() * 5.0, rng.normal() * 5.0);
    let cst = *rng.pick(&[1.0, -2.5, 0.1, 1e5, 0.0]);
    let mut col0: Vec<f64> = (0..n).map(|i| x.at(i, 0)).collect();
    col0.sort_by(|p, q| p.partial_cmp(q).unwrap_or(std::cmp::Ordering::Equal));
    let med = col0[n / 2];
    let mut y = Vec::with_capacity(n);
    for i in 0..n {
        let v = match kind {
            "dyadic" => rng.int(-640, 640) as f64 / 64.0,
            "linear+noise" => (0..x.c).map(|j| w[j] * x.at(i, j)).sum::<f64>() + 0.1 * rng.normal(),
            "step" => (if x.at(i, 0) > med { a } else { b }) + 0.05 * rng.normal(),
            "integers" => rng.int(-5, 5) as f64,
            "offset" => base + rng.normal(),
            "few-values" => vals[rng.below(3)],
            "negative" => -10.0 * rng.normal().abs() - 1.0,
            // a few targets nine orders of magnitude above the rest (a mean computed as total minus part would cancel)
            "mixed-magnitudes" => (3.0 + 4.0 * rng.f()) * if rng.bool(0.12) { 1e9 } else { 1.0 },
            _ => cst,
        };
        y.push(if is32 { v as f32 as f64 } else { v });
    }
    (y, kind)
}

fn draw_seed(rng: &mut Rng) -> (u64, &'static str) {
    let r = rng.f();
    if r < 0.08 {
        (0, "seed:0")
    } else if r < 0.14 {
        (u64::MAX, "seed:u64::MAX")
    } else if r < 0.3 {
        (rng.below(100) as u64, "seed:small")
    } else if r < 0.38 {
        let b = 1u64 << rng.us(1, 63);
        (*rng.pick(&[b - 1, b, b + 1]), "seed:power-of-two±1")
    } else {
        (rng.next_u64(), "seed:random-u64")
    }
}

#[derive(Clone, Debug)]
struct Params {
    criterion: usize, // classifier only
    max_depth: Option<u16>,
    leaf: usize,
    split: usize,
    n_trees: usize,
    m: Option<usize>,
    keep: bool,
    seed: u64,
    seed_class: &'static str,
}

const CRITERIA: [&str; 3] = ["gini", "entropy", "classification-error"];

fn draw_params(rng: &mut Rng, p: usize, grown: bool, classifier: bool) -> Params {
    let (seed, seed_class) = draw_seed(rng);
    let n_trees = if rng.bool(0.12) { rng.us(1, 2) } else { rng.us(1, 30) };
    let m = if rng.bool(0.35) { None } else { Some(rng.us(1, p)) };
    let criterion = rng.below(3);
    if grown {
        // all tree limits disabled: every impure node (classifier) / every node with two distinct rows
        // (regressor) is split
        let split = if classifier { rng.us(0, 1) } else { rng.us(0, 2) };
        return Params { criterion, max_depth: None, leaf: 1, split, n_trees, m, keep: true, seed, seed_class };
    }
    let max_depth = if rng.bool(0.4) { None } else { Some(rng.us(1, 8) as u16) };
    let leaf = if rng.bool(0.6) { 1 } else { rng.us(2, 5) };
    let split = if rng.bool(0.5) { 2 } else { rng.us(0, 8) };
    let keep = rng.bool(0.75);
    Params { criterion, max_depth, leaf, split, n_trees, m, keep, seed, seed_class }
}

fn params_json(p: &Params, classifier: bool) -> Value {
    json!({
        "criterion": if classifier { Some(CRITERIA[p.criterion]) } else { None },
        "max_depth": p.max_depth, "min_samples_leaf": p.leaf, "min_samples_split": p.split,
        "n_trees": p.n_trees, "m": p.m, "keep_samples": p.keep, "seed": p.seed,
    })
}

fn clf_params(p: &Params) -> RandomForestClassifierParameters {
    RandomForestClassifierParameters {
        criterion: match p.criterion {
            0 => SplitCriterion::Gini,
            1 => SplitCriterion::Entropy,
            _ => SplitCriterion::ClassificationError,
        },
        max_depth: p.max_depth,
        min_samples_leaf: p.leaf,
        min_samples_split: p.split,
        n_trees: p.n_trees as u16,
        m: p.m,
        keep_samples: p.keep,
        seed: p.seed,
    }
}

fn reg_params(p: &Params) -> RandomForestRegressorParameters {
    RandomForestRegressorParameters {
        max_depth: p.max_depth,
        min_samples_leaf: p.leaf,
        min_samples_split: p.split,
        n_trees: p.n_trees,
        m: p.m,
        keep_samples: p.keep,
        seed: p.seed,
    }
}

fn common_buckets(c: &mut Case, w: &str, n: usize, p: usize, xkind: &str, mods: &[&'static str], prm: &Params) {
    c.bucket(&format!("width:{}", w));
    c.bucket(&format!("x:{}", xkind));
    for m in mods {
        c.bucket(m);
    }
    c.bucket(if n <= 10 { "rows:4-10" } else if n <= 40 { "rows:11-40" } else { "rows:41-120" });
    c.bucket(&format!("features:{}", p));
    c.bucket(if prm.n_trees == 1 { "n_trees:1" } else if prm.n_trees < 10 { "n_trees:2-9" } else { "n_trees:10-30" });
    c.bucket(match prm.m {
        None => "m:None",
        Some(m) if m < p => "m:<p",
        _ => "m:=p",
    });
    c.bucket(if prm.max_depth.is_some() { "max_depth:limited" } else { "max_depth:None" });
    c.bucket_if(prm.leaf > 1, "min_samples_leaf:>1");
    c.bucket(if prm.split < 2 { "min_samples_split:0-1" } else if prm.split == 2 { "min_samples_split:2" } else { "min_samples_split:3-8" });
    c.bucket(if prm.keep { "keep_samples:on" } else { "keep_samples:off" });
    c.bucket(prm.seed_class);
}

fn hash_case(c: &mut Case, tag: f64, x: &Mat, xf: &Mat, y: &[f64], prm: &Params, is32: bool) {
    c.hash_f64s(&x.d);
    c.hash_f64s(&xf.d);
    c.hash_f64s(y);
    c.hash_f64s(&[
        tag,
        x.r as f64,
        x.c as f64,
        if is32 { 1.0 } else { 2.0 },
        prm.criterion as f64,
        prm.max_depth.map(|d| d as f64).unwrap_or(-1.0),
        prm.leaf as f64,
        prm.split as f64,
        prm.n_trees as f64,
        prm.m.map(|m| m as f64).unwrap_or(-1.0),
        if prm.keep { 1.0 } else { 0.0 },
        (prm.seed >> 32) as f64,
        (prm.seed & 0xffff_ffff) as f64,
    ]);
}

// ------------------------------------------------------------------------------------ observation

fn bits(v: &[f64]) -> Vec<u64> {
    v.iter().map(|x| x.to_bits()).collect()
}

/// `samples` of the model JSON as masks[t][i]; Err(reason) when it is not an n_trees × n array of bools
fn read_masks(j: &Value, n_trees: usize, n: usize) -> Result<Vec<Vec<bool>>, String> {
    let arr = match j.get("samples").and_then(|s| s.as_array()) {
        Some(a) => a,
        None => return Err(format!("`samples` is {} although keep_samples = true", j.get("samples").map(|s| if s.is_null() { "null".to_string() } else { "not an array".to_string() }).unwrap_or_else(|| "missing".to_string()))),
    };
    if arr.len() != n_trees {
        return Err(format!("{} bootstrap masks for {} trees", arr.len(), n_trees));
    }
    let mut out = Vec::with_capacity(arr.len());
    for (t, row) in arr.iter().enumerate() {
        let r = match row.as_array() {
            Some(r) => r,
            None => return Err(format!("samples[{}] is not an array", t)),
        };
        if r.len() != n {
            return Err(format!("samples[{}] has {} entries for {} training rows", t, r.len(), n));
        }
        let mut m = Vec::with_capacity(n);
        for b in r {
            match b.as_bool() {
                Some(b) => m.push(b),
                None => return Err(format!("samples[{}] holds a non-boolean", t)),
            }
        }
        out.push(m);
    }
    Ok(out)
}

fn rehydrate<D: DeserializeOwned>(j: &Value) -> Result<Vec<D>, String> {
    let arr = j.get("trees").and_then(|t| t.as_array()).ok_or_else(|| "model JSON has no `trees` array".to_string())?;
    let mut out = Vec::with_capacity(arr.len());
    for (i, t) in arr.iter().enumerate() {
        match serde_json::from_value::<D>(t.clone()) {
            Ok(d) => out.push(d),
            Err(e) => return Err(format!("trees[{}] cannot be re-hydrated: {}", i, e)),
        }
    }
    Ok(out)
}

/// number of nodes without children in a serialised member tree
fn count_leaves(tree: &Value) -> Option<usize> {
    let nodes = tree.get("nodes")?.as_array()?;
    let mut leaves = 0;
    for nd in nodes {
        let t = nd.get("true_child")?;
        let f = nd.get("false_child")?;
        if t.is_null() && f.is_null() {
            leaves += 1;
        }
    }
    Some(leaves)
}

fn json_diff(a: &Value, b: &Value) -> String {
    for key in ["_parameters", "classes", "samples", "trees"] {
        if a.get(key) != b.get(key) {
            if key == "trees" {
                if let (Some(x), Some(y)) = (a[key].as_array(), b[key].as_array()) {
                    if x.len() != y.len() {
                        return format!("`trees` differ in length: {} vs {}", x.len(), y.len());
                    }
                    for t in 0..x.len() {
                        if x[t] != y[t] {
                            return format!("first difference in trees[{}]", t);
                        }
                    }
                }
            }
            return format!("field `{}` differs", key);
        }
    }
    "models differ".to_string()
}

/// labels (bit patterns) holding the largest number of votes, and the number of distinct labels voted for
fn plurality(votes: &[f64]) -> (Vec<u64>, usize) {
    let mut tally: Vec<(u64, usize)> = Vec::new();
    for v in votes {
        let b = v.to_bits();
        match tally.iter_mut().find(|e| e.0 == b) {
            Some(e) => e.1 += 1,
            None => tally.push((b, 1)),
        }
    }
    let best = tally.iter().map(|e| e.1).max().unwrap_or(0);
    (tally.iter().filter(|e| e.1 == best).map(|e| e.0).collect(), tally.len())
}

fn same_bits_or_both_nan(a: &[f64], b: &[f64]) -> bool {
    a.len() == b.len() && a.iter().zip(b.iter()).all(|(x, y)| x.to_bits() == y.to_bits() || (x.is_nan() && y.is_nan()))
}

// ------------------------------------------------------------------------------------ classifier

fn clf_t<T: Num>(c: &mut Case, grown: bool) {
    let idx = c.index;
    let w = width::<T>();
    let is32 = w == "f32";
    let n = draw_n(&mut c.rng);
    let p = c.rng.us(1, 6);
    // the `large` family: more classes than a byte counts
    let k = if scverif::big() > 0 { c.rng.us(257, 280) } else { c.rng.us(2, 4) };
    let xkind: &str = if grown { "lattice" } else { *c.rng.pick(&XKINDS) };
    let mut x = draw_x(&mut c.rng, n, p, xkind, is32);
    let mods = if grown { Vec::new() } else { modify_x(&mut c.rng, &mut x) };
    let xf = draw_fresh(&mut c.rng, &x, xkind, is32);
    let labels = draw_label_values(&mut c.rng, k, is32);
    let (cls, ykind) = draw_classes(&mut c.rng, &x, k);
    let y: Vec<f64> = cls.iter().map(|ci| labels[*ci]).collect();
    let prm = draw_params(&mut c.rng, p, grown, true);
    c.describe(json!({"model": "classifier", "width": w, "grown": grown, "x_kind": xkind, "y_kind": ykind,
        "x": mat_json(&x), "y": y, "x_fresh": mat_json(&xf), "params": params_json(&prm, true)}));
    hash_case(c, 1.0, &x, &xf, &y, &prm, is32);
    common_buckets(c, w, n, p, xkind, &mods, &prm);
    c.bucket("model:classifier");
    c.bucket(&format!("classes:{}", k));
    c.bucket(&format!("labels:{}", ykind));
    c.bucket(&format!("criterion:{}", CRITERIA[prm.criterion]));
    let class_sizes: Vec<usize> = (0..k).map(|ci| cls.iter().filter(|x| **x == ci).count()).collect();
    c.bucket_if(class_sizes.iter().any(|s| *s == 1), "class-with-a-single-row");

    let xm: DenseMatrix<T> = to_dense(&x);
    let xfm: DenseMatrix<T> = to_dense(&xf);
    let yv: Vec<T> = tv(&y);
    let sg = w.to_string();

    // ---- two fits with the same data, parameters and seed
    let mut fits = Vec::new();
    // calls that must leave no trace in the fits that follow them on the same thread: a refused fit (single class)
    // before the first fit, or a fit of other data between the two
    if idx % 6 == 5 {
        let one: Vec<T> = vec![yv[0]; n];
        let _ = guard(|| RandomForestClassifier::<T>::fit(&xm, &one, clf_params(&prm)).map(|_| ()));
        c.bucket("preceded-by-a-refused-fit");
    }
    for which in ["first", "second"] {
        if idx % 6 == 4 && which == "second" {
            let _ = guard(|| RandomForestClassifier::<T>::fit(&xfm, &yv[..xf.r.min(n)].to_vec(), clf_params(&prm)).map(|_| ()));
            c.bucket("unrelated-fit-in-between");
        }
        match c.must("clf.fit", || RandomForestClassifier::<T>::fit(&xm, &yv, scverif::reused(idx, clf_params(&prm)))) {
            Some(Ok(f)) => fits.push(f),
            Some(Err(e)) => {
                c.check("clf.fit.ok", false, &sg, || format!("{} fit returned Err({}) for {} rows, {} classes", which, e, n, k));
                return;
            }
            None => return,
        }
        c.check("clf.fit.ok", true, &sg, String::new);
    }
    let (fa, fb) = (&fits[0], &fits[1]);
    let (ja, jb) = match (serde_json::to_value(fa), serde_json::to_value(fb)) {
        (Ok(a), Ok(b)) => (a, b),
        _ => {
            c.inconclusive("forest could not be serialised to a serde_json::Value");
            return;
        }
    };
    c.check("clf.reproducible.model", ja == jb, &sg, || format!("two fits with identical data/parameters/seed serialise differently: {}", json_diff(&ja, &jb)));

    // ---- predictions of both fits: bit-identical
    let mut preds: Vec<Vec<f64>> = Vec::new(); // A train, A fresh, B train, B fresh
    for f in [fa, fb] {
        for (m, rows) in [(&xm, n), (&xfm, xf.r)] {
            match c.must("clf.predict", || f.predict(m)) {
                Some(Ok(v)) => {
                    let v = fv(&v);
                    if !c.check("clf.predict.shape", v.len() == rows, &sg, || format!("{} predictions for {} rows", v.len(), rows)) {
                        return;
                    }
                    preds.push(v);
                }
                Some(Err(e)) => {
                    c.check("clf.predict.ok", false, &sg, || format!("predict returned Err({})", e));
                    return;
                }
                None => return,
            }
        }
    }
    c.check("clf.reproducible.predict", bits(&preds[0]) == bits(&preds[2]) && bits(&preds[1]) == bits(&preds[3]), &sg, || {
        format!("predictions of two identically seeded fits differ: train {:?} vs {:?}; fresh {:?} vs {:?}", preds[0], preds[2], preds[1], preds[3])
    });

    // ---- exactly n_trees member trees
    // ---- call sequence fit → store → restore → predict: the restored forest is the same forest
    if c.rng.bool(0.3) {
        let json = c.rng.bool(0.5);
        let fmt = if json { "json-value" } else { "bincode" };
        c.bucket(&format!("sequence:fit-store-restore-predict/{}", fmt));
        let back: Option<Result<RandomForestClassifier<T>, String>> = c.must("clf.restore", || if json { serde_json::from_value(ja.clone()).map_err(|e| format!("serde_json::from_value: {}", e)) } else { restored(fa, false) });
        match back {
            Some(Ok(f2)) => {
                for (k, m) in [&xm, &xfm].iter().enumerate() {
                    match c.must("clf.restored.predict", || f2.predict(*m)) {
                        Some(Ok(v)) => {
                            let v = fv(&v);
                            c.check(&format!("clf.restored.predict/{}", fmt), bits(&v) == bits(&preds[k]), &sg, || format!("restored forest predicts {:?}, the fitted forest {:?}", v, preds[k]));
                        }
                        Some(Err(e)) => {
                            c.check(&format!("clf.restored.predict/{}", fmt), false, &sg, || format!("predict of the restored forest returned Err({})", e));
                        }
                        None => {}
                    }
                }
            }
            Some(Err(msg)) => {
                c.check(&format!("clf.restored.ok/{}", fmt), false, &sg, || msg.clone());
            }
            None => {}
        }
    }

    let n_json_trees = ja.get("trees").and_then(|t| t.as_array()).map(|a| a.len());
    c.check("clf.n-trees", n_json_trees == Some(prm.n_trees), &sg, || format!("forest holds {:?} member trees, n_trees = {}", n_json_trees, prm.n_trees));

    // ---- member trees, re-hydrated, predict on their own
    let trees: Vec<DecisionTreeClassifier<T>> = match rehydrate(&ja) {
        Ok(t) => t,
        Err(e) => {
            c.inconclusive(&e);
            return;
        }
    };
    let nt = trees.len();
    if nt == 0 {
        return;
    }
    let mut tp: [Vec<Vec<f64>>; 2] = [Vec::new(), Vec::new()]; // [train|fresh][tree][row]
    for t in trees.iter() {
        for (s, (m, rows)) in [(&xm, n), (&xfm, xf.r)].iter().enumerate() {
            match c.must("clf.tree.predict", || t.predict(*m)) {
                Some(Ok(v)) if v.len() == *rows => tp[s].push(fv(&v)),
                Some(Ok(v)) => {
                    c.check("clf.tree.predict.shape", false, &sg, || format!("member tree returned {} predictions for {} rows", v.len(), rows));
                    return;
                }
                Some(Err(e)) => {
                    c.check("clf.tree.predict.ok", false, &sg, || format!("member tree predict Err({})", e));
                    return;
                }
                None => return,
            }
        }
    }

    // ---- plurality vote, original labels
    let label_bits: Vec<u64> = bits(&labels);
    let mut disagree = false;
    let mut tie = false;
    for (s, name) in ["train", "fresh"].iter().enumerate() {
        let sgs = format!("{}/{}", w, name);
        let pred = &preds[s];
        for r in 0..pred.len() {
            let votes: Vec<f64> = (0..nt).map(|t| tp[s][t][r]).collect();
            let (win, distinct) = plurality(&votes);
            disagree |= distinct > 1;
            tie |= win.len() > 1;
            c.check("clf.vote.plurality", win.contains(&pred[r].to_bits()), &sgs, || {
                format!("row {}: forest predicts {} but the member trees vote {:?}", r, pred[r], votes)
            });
            c.check("clf.labels.original", label_bits.contains(&pred[r].to_bits()), &sgs, || {
                format!("row {}: prediction {} is not one of the training labels {:?}", r, pred[r], labels)
            });
        }
    }
    c.bucket_if(disagree, "vote:member-trees-disagree");
    c.bucket_if(tie, "vote:tie-for-plurality");

    // ---- out-of-bag prediction, bootstrap masks
    let mut proper_oob = false;
    if prm.keep {
        match read_masks(&ja, nt, n) {
            Err(e) => {
                c.check("clf.samples.shape", false, &sg, || e.clone());
            }
            Ok(masks) => {
                c.check("clf.samples.shape", true, &sg, String::new);
                // stratification: every bootstrap sample contains a row of every class
                for t in 0..nt {
                    for ci in 0..k {
                        let present = (0..n).any(|i| cls[i] == ci && masks[t][i]);
                        c.check("clf.bootstrap.stratified", present, &sg, || {
                            format!("bootstrap sample of tree {} contains no row of class {} ({} rows of that class in the data)", t, labels[ci], class_sizes[ci])
                        });
                    }
                }
                if grown {
                    // all limits off + pairwise distinct lattice values: a tree is grown until every leaf is pure,
                    // hence it reproduces the label of every row of its own bootstrap sample
                    for t in 0..nt {
                        for i in 0..n {
                            if masks[t][i] {
                                c.check("clf.bootstrap.in-bag-rows-fitted", tp[0][t][i].to_bits() == y[i].to_bits(), &sg, || {
                                    format!("samples[{}][{}] = true (row in the bootstrap sample) but the fully grown member tree predicts {} for it, label {}", t, i, tp[0][t][i], y[i])
                                });
                            }
                        }
                    }
                }
                let mut oobs: Vec<Vec<f64>> = Vec::new();
                for f in [fa, fb] {
                    match c.must("clf.predict_oob", || f.predict_oob(&xm)) {
                        Some(Ok(v)) => oobs.push(fv(&v)),
                        Some(Err(e)) => {
                            c.check("clf.oob.ok", false, &sg, || format!("predict_oob on the training matrix with kept samples returned Err({})", e));
                        }
                        None => {}
                    }
                }
                if oobs.len() == 2 {
                    c.check("clf.oob.ok", true, &sg, String::new);
                    c.check("clf.reproducible.oob", bits(&oobs[0]) == bits(&oobs[1]), &sg, || format!("OOB predictions of two identically seeded fits differ: {:?} vs {:?}", oobs[0], oobs[1]));
                    let oob = &oobs[0];
                    if c.check("clf.oob.shape", oob.len() == n, &sg, || format!("{} OOB predictions for {} rows", oob.len(), n)) {
                        let mut without = 0;
                        let mut empty_vals: Vec<(usize, f64)> = Vec::new();
                        for i in 0..n {
                            let members: Vec<usize> = (0..nt).filter(|t| !masks[*t][i]).collect();
                            if members.is_empty() {
                                // the property defines no value for a row that every bootstrap sample contains, but an
                                // aggregate of no tree at all cannot depend on the row: all such rows get one value
                                c.count("oob.rows-without-oob-tree(value-not-judged)");
                                without += 1;
                                empty_vals.push((i, oob[i]));
                                continue;
                            }
                            proper_oob |= members.len() < nt;
                            let votes: Vec<f64> = members.iter().map(|t| tp[0][*t][i]).collect();
                            let (win, _) = plurality(&votes);
                            c.check("clf.oob.plurality", win.contains(&oob[i].to_bits()), &sg, || {
                                format!("row {}: OOB prediction {} but the {} trees whose bootstrap sample lacks the row (trees {:?}) vote {:?}; all trees: {:?}",
                                    i, oob[i], members.len(), members, votes, (0..nt).map(|t| tp[0][t][i]).collect::<Vec<f64>>())
                            });
                            c.check("clf.labels.original", label_bits.contains(&oob[i].to_bits()), &format!("{}/oob", w), || {
                                format!("row {}: OOB prediction {} is not one of the training labels {:?}", i, oob[i], labels)
                            });
                        }
                        if empty_vals.len() >= 2 {
                            let same = empty_vals.iter().all(|(_, v)| v.to_bits() == empty_vals[0].1.to_bits() || (v.is_nan() && empty_vals[0].1.is_nan()));
                            c.check("clf.oob.no-tree=>row-independent", same, &sg, || format!("rows contained in every bootstrap sample (no out-of-bag tree) receive different OOB predictions (row, value): {:?}", empty_vals));
                        }
                        c.bucket(if without == 0 { "oob:every-row-has-an-oob-tree" } else if without == n { "oob:no-row-has-an-oob-tree" } else { "oob:some-rows-without-oob-tree" });
                    }
                }
            }
        }
    } else {
        // behaviour the property does not state: exercised, no verdict
        c.bucket(match guard(|| fa.predict_oob(&xm)) {
            Ok(Ok(_)) => "no-verdict:predict_oob-without-kept-samples:Ok",
            Ok(Err(_)) => "no-verdict:predict_oob-without-kept-samples:Err",
            Err(_) => "no-verdict:predict_oob-without-kept-samples:panic",
        });
        c.bucket(if ja.get("samples").map(|s| s.is_null()).unwrap_or(true) { "no-verdict:samples-absent-when-keep_samples-off" } else { "no-verdict:samples-present-when-keep_samples-off" });
    }
    c.bucket_if(proper_oob, "oob:proper-subset-of-trees");
    if nt >= 2 && (disagree || proper_oob) {
        c.nontrivial();
    }
}

// ------------------------------------------------------------------------------------ regressor

fn reg_t<T: Num>(c: &mut Case, grown: bool) {
    let idx = c.index;
    let w = width::<T>();
    let is32 = w == "f32";
    let n = draw_n(&mut c.rng);
    let p = c.rng.us(1, 6);
    let xkind: &str = if grown { "lattice" } else { *c.rng.pick(&XKINDS) };
    let mut x = draw_x(&mut c.rng, n, p, xkind, is32);
    let mods = if grown { Vec::new() } else { modify_x(&mut c.rng, &mut x) };
    let xf = draw_fresh(&mut c.rng, &x, xkind, is32);
    let (y, ykind) = draw_targets(&mut c.rng, &x, grown, is32);
    let prm = draw_params(&mut c.rng, p, grown, false);
    c.describe(json!({"model": "regressor", "width": w, "grown": grown, "x_kind": xkind, "y_kind": ykind,
        "x": mat_json(&x), "y": y, "x_fresh": mat_json(&xf), "params": params_json(&prm, false)}));
    hash_case(c, 2.0, &x, &xf, &y, &prm, is32);
    common_buckets(c, w, n, p, xkind, &mods, &prm);
    c.bucket("model:regressor");
    c.bucket(&format!("targets:{}", ykind));

    let xm: DenseMatrix<T> = to_dense(&x);
    let xfm: DenseMatrix<T> = to_dense(&xf);
    let yv: Vec<T> = tv(&y);
    let sg = w.to_string();
    let e = eps::<T>();
    // mean: rel 1e-12 (f64; scaled with the unit round-off for f32) of the largest member prediction;
    // a sum of <= 30 terms is off by at most 30·eps/2 of it
    let tol_mean = 4500.0 * e;
    // range: a leaf value is a mean of training targets computed as (n·parent − Σ left)/count, whose
    // rounding error is bounded by ≈ n²·eps/2·max|y| (the amplification n_parent/n_child telescopes along
    // a path); 4·n²·eps leaves a factor ≥ 8
    let ymin = y.iter().cloned().fold(f64::INFINITY, f64::min);
    let ymax = y.iter().cloned().fold(f64::NEG_INFINITY, f64::max);
    let yabs = ymin.abs().max(ymax.abs());
    let nn = n.max(8) as f64;
    let tol_range = 4.0 * nn * nn * e * yabs;

    let mut fits = Vec::new();
    for which in ["first", "second"] {
        if idx % 6 == 4 && which == "second" {
            // a fit of other data between the two must leave no trace
            let other: Vec<T> = yv.iter().rev().cloned().collect();
            let _ = guard(|| RandomForestRegressor::<T>::fit(&xm, &other, reg_params(&prm)).map(|_| ()));
            c.bucket("unrelated-fit-in-between");
        }
        match c.must("reg.fit", || RandomForestRegressor::<T>::fit(&xm, &yv, scverif::reused(idx, reg_params(&prm)))) {
            Some(Ok(f)) => fits.push(f),
            Some(Err(e)) => {
                c.check("reg.fit.ok", false, &sg, || format!("{} fit returned Err({}) for {} rows", which, e, n));
                return;
            }
            None => return,
        }
        c.check("reg.fit.ok", true, &sg, String::new);
    }
    let (fa, fb) = (&fits[0], &fits[1]);
    let (ja, jb) = match (serde_json::to_value(fa), serde_json::to_value(fb)) {
        (Ok(a), Ok(b)) => (a, b),
        _ => {
            c.inconclusive("forest could not be serialised to a serde_json::Value");
            return;
        }
    };
    c.check("reg.reproducible.model", ja == jb, &sg, || format!("two fits with identical data/parameters/seed serialise differently: {}", json_diff(&ja, &jb)));

    let mut preds: Vec<Vec<f64>> = Vec::new();
    for f in [fa, fb] {
        for (m, rows) in [(&xm, n), (&xfm, xf.r)] {
            match c.must("reg.predict", || f.predict(m)) {
                Some(Ok(v)) => {
                    let v = fv(&v);
                    if !c.check("reg.predict.shape", v.len() == rows, &sg, || format!("{} predictions for {} rows", v.len(), rows)) {
                        return;
                    }
                    preds.push(v);
                }
                Some(Err(e)) => {
                    c.check("reg.predict.ok", false, &sg, || format!("predict returned Err({})", e));
                    return;
                }
                None => return,
            }
        }
    }
    c.check("reg.reproducible.predict", same_bits_or_both_nan(&preds[0], &preds[2]) && same_bits_or_both_nan(&preds[1], &preds[3]), &sg, || {
        format!("predictions of two identically seeded fits differ: train {:?} vs {:?}; fresh {:?} vs {:?}", preds[0], preds[2], preds[1], preds[3])
    });

    // ---- call sequence fit → store → restore → predict: the restored forest is the same forest
    if c.rng.bool(0.3) {
        let json = c.rng.bool(0.5);
        let fmt = if json { "json-value" } else { "bincode" };
        c.bucket(&format!("sequence:fit-store-restore-predict/{}", fmt));
        let back: Option<Result<RandomForestRegressor<T>, String>> = c.must("reg.restore", || if json { serde_json::from_value(ja.clone()).map_err(|e| format!("serde_json::from_value: {}", e)) } else { restored(fa, false) });
        match back {
            Some(Ok(f2)) => {
                for (k, m) in [&xm, &xfm].iter().enumerate() {
                    match c.must("reg.restored.predict", || f2.predict(*m)) {
                        Some(Ok(v)) => {
                            let v = fv(&v);
                            c.check(&format!("reg.restored.predict/{}", fmt), same_bits_or_both_nan(&v, &preds[k]), &sg, || format!("restored forest predicts {:?}, the fitted forest {:?}", v, preds[k]));
                        }
                        Some(Err(e)) => {
                            c.check(&format!("reg.restored.predict/{}", fmt), false, &sg, || format!("predict of the restored forest returned Err({})", e));
                        }
                        None => {}
                    }
                }
            }
            Some(Err(msg)) => {
                c.check(&format!("reg.restored.ok/{}", fmt), false, &sg, || msg.clone());
            }
            None => {}
        }
    }

    let n_json_trees = ja.get("trees").and_then(|t| t.as_array()).map(|a| a.len());
    c.check("reg.n-trees", n_json_trees == Some(prm.n_trees), &sg, || format!("forest holds {:?} member trees, n_trees = {}", n_json_trees, prm.n_trees));

    let trees: Vec<DecisionTreeRegressor<T>> = match rehydrate(&ja) {
        Ok(t) => t,
        Err(e) => {
            c.inconclusive(&e);
            return;
        }
    };
    let nt = trees.len();
    if nt == 0 {
        return;
    }
    let mut tp: [Vec<Vec<f64>>; 2] = [Vec::new(), Vec::new()];
    for t in trees.iter() {
        for (s, (m, rows)) in [(&xm, n), (&xfm, xf.r)].iter().enumerate() {
            match c.must("reg.tree.predict", || t.predict(*m)) {
                Some(Ok(v)) if v.len() == *rows => tp[s].push(fv(&v)),
                Some(Ok(v)) => {
                    c.check("reg.tree.predict.shape", false, &sg, || format!("member tree returned {} predictions for {} rows", v.len(), rows));
                    return;
                }
                Some(Err(e)) => {
                    c.check("reg.tree.predict.ok", false, &sg, || format!("member tree predict Err({})", e));
                    return;
                }
                None => return,
            }
        }
    }

    // ---- arithmetic mean of the member predictions, range of the training targets
    let mut disagree = false;
    for (s, name) in ["train", "fresh"].iter().enumerate() {
        let sgs = format!("{}/{}", w, name);
        let pred = &preds[s];
        for r in 0..pred.len() {
            let members: Vec<f64> = (0..nt).map(|t| tp[s][t][r]).collect();
            disagree |= members.iter().any(|v| v.to_bits() != members[0].to_bits());
            let mean = csum(members.iter().cloned()) / nt as f64;
            let scale = members.iter().fold(0.0f64, |m, v| m.max(v.abs()));
            c.ratio("reg.mean", (pred[r] - mean).abs(), tol_mean * scale, &sgs, || {
                format!("row {}: forest predicts {:e}, mean of the {} member predictions is {:e} ({:?})", r, pred[r], nt, mean, members)
            });
            let over = if pred[r].is_nan() { f64::NAN } else { (ymin - pred[r]).max(pred[r] - ymax).max(0.0) };
            c.ratio("reg.range", over, tol_range, &sgs, || format!("row {}: prediction {:e} outside the range [{:e}, {:e}] of the training targets", r, pred[r], ymin, ymax));
        }
    }
    c.bucket_if(disagree, "mean:member-trees-disagree");

    let mut proper_oob = false;
    if prm.keep {
        match read_masks(&ja, nt, n) {
            Err(e) => {
                c.check("reg.samples.shape", false, &sg, || e.clone());
            }
            Ok(masks) => {
                c.check("reg.samples.shape", true, &sg, String::new);
                if grown {
                    // all limits off + pairwise distinct lattice values: every leaf holds one distinct row, so a tree
                    // has exactly as many leaves as its bootstrap sample has distinct rows, and it
                    // returns (up to the rounding of the leaf value) the target of every row of its bootstrap sample
                    for t in 0..nt {
                        let in_bag = masks[t].iter().filter(|b| **b).count();
                        match count_leaves(&ja["trees"][t]) {
                            Some(leaves) => {
                                c.check("reg.bootstrap.mask-size=leaves", leaves == in_bag, &sg, || {
                                    format!("samples[{}] marks {} of {} rows as drawn, but the fully grown member tree (one leaf per distinct drawn row) has {} leaves", t, in_bag, n, leaves)
                                });
                            }
                            None => {
                                c.inconclusive("member tree JSON has no readable `nodes` array");
                                return;
                            }
                        }
                    }
                    for t in 0..nt {
                        for i in 0..n {
                            if masks[t][i] {
                                c.ratio("reg.bootstrap.in-bag-rows-fitted", (tp[0][t][i] - y[i]).abs(), tol_range, &sg, || {
                                    format!("samples[{}][{}] = true (row in the bootstrap sample) but the fully grown member tree predicts {:e} for it, target {:e}", t, i, tp[0][t][i], y[i])
                                });
                            }
                        }
                    }
                }
                let mut oobs: Vec<Vec<f64>> = Vec::new();
                for f in [fa, fb] {
                    match c.must("reg.predict_oob", || f.predict_oob(&xm)) {
                        Some(Ok(v)) => oobs.push(fv(&v)),
                        Some(Err(e)) => {
                            c.check("reg.oob.ok", false, &sg, || format!("predict_oob on the training matrix with kept samples returned Err({})", e));
                        }
                        None => {}
                    }
                }
                if oobs.len() == 2 {
                    c.check("reg.oob.ok", true, &sg, String::new);
                    c.check("reg.reproducible.oob", same_bits_or_both_nan(&oobs[0], &oobs[1]), &sg, || format!("OOB predictions of two identically seeded fits differ: {:?} vs {:?}", oobs[0], oobs[1]));
                    let oob = &oobs[0];
                    if c.check("reg.oob.shape", oob.len() == n, &sg, || format!("{} OOB predictions for {} rows", oob.len(), n)) {
                        let mut without = 0;
                        let mut empty_vals: Vec<(usize, f64)> = Vec::new();
                        let sgo = format!("{}/oob", w);
                        for i in 0..n {
                            let idx: Vec<usize> = (0..nt).filter(|t| !masks[*t][i]).collect();
                            if idx.is_empty() {
                                c.count("oob.rows-without-oob-tree(value-not-judged)");
                                without += 1;
                                empty_vals.push((i, oob[i]));
                                continue;
                            }
                            proper_oob |= idx.len() < nt;
                            let members: Vec<f64> = idx.iter().map(|t| tp[0][*t][i]).collect();
                            let mean = csum(members.iter().cloned()) / members.len() as f64;
                            let scale = members.iter().fold(0.0f64, |m, v| m.max(v.abs()));
                            c.ratio("reg.oob.mean", (oob[i] - mean).abs(), tol_mean * scale, &sg, || {
                                format!("row {}: OOB prediction {:e}, mean over the {} trees whose bootstrap sample lacks the row (trees {:?}) is {:e}; mean over all {} trees {:e}",
                                    i, oob[i], idx.len(), idx, mean, nt, csum((0..nt).map(|t| tp[0][t][i])) / nt as f64)
                            });
                            let over = if oob[i].is_nan() { f64::NAN } else { (ymin - oob[i]).max(oob[i] - ymax).max(0.0) };
                            c.ratio("reg.range", over, tol_range, &sgo, || format!("row {}: OOB prediction {:e} outside the range [{:e}, {:e}] of the training targets", i, oob[i], ymin, ymax));
                        }
                        if empty_vals.len() >= 2 {
                            let same = empty_vals.iter().all(|(_, v)| v.to_bits() == empty_vals[0].1.to_bits() || (v.is_nan() && empty_vals[0].1.is_nan()));
                            c.check("reg.oob.no-tree=>row-independent", same, &sg, || format!("rows contained in every bootstrap sample (no out-of-bag tree) receive different OOB predictions (row, value): {:?}", empty_vals));
                        }
                        c.bucket(if without == 0 { "oob:every-row-has-an-oob-tree" } else if without == n { "oob:no-row-has-an-oob-tree" } else { "oob:some-rows-without-oob-tree" });
                    }
                }
            }
        }
    } else {
        c.bucket(match guard(|| fa.predict_oob(&xm)) {
            Ok(Ok(_)) => "no-verdict:predict_oob-without-kept-samples:Ok",
            Ok(Err(_)) => "no-verdict:predict_oob-without-kept-samples:Err",
            Err(_) => "no-verdict:predict_oob-without-kept-samples:panic",
        });
        c.bucket(if ja.get("samples").map(|s| s.is_null()).unwrap_or(true) { "no-verdict:samples-absent-when-keep_samples-off" } else { "no-verdict:samples-present-when-keep_samples-off" });
    }
    c.bucket_if(proper_oob, "oob:proper-subset-of-trees");
    if nt >= 2 && (disagree || proper_oob) {
        c.nontrivial();
    }
}

// ------------------------------------------------------------------------------------ families

fn clf(c: &mut Case) {
    if c.rng.bool(0.2) {
        clf_t::<f32>(c, false)
    } else {
        clf_t::<f64>(c, false)
    }
}

fn reg(c: &mut Case) {
    if c.rng.bool(0.2) {
        reg_t::<f32>(c, false)
    } else {
        reg_t::<f64>(c, false)
    }
}

fn clf_grown(c: &mut Case) {
    if c.rng.bool(0.2) {
        clf_t::<f32>(c, true)
    } else {
        clf_t::<f64>(c, true)
    }
}

fn reg_grown(c: &mut Case) {
    if c.rng.bool(0.2) {
        reg_t::<f32>(c, true)
    } else {
        reg_t::<f64>(c, true)
    }
}

/// parameter builders keep every configured value whatever the order of the `with_*` steps
fn builders_fam(c: &mut Case) {
    scverif::builders::case(c, "C06")
}

/// the uniform api traits (Predictor / SupervisedEstimator / UnsupervisedEstimator / Transformer) behave
/// exactly like the inherent methods
fn api_paths_fam(c: &mut Case) {
    scverif::apipaths::case(c, "C06")
}

/// forests on 560..900 rows, classifiers with 257..280 classes (beyond the ordinary bounds of 120 rows and 4 classes)
fn large(c: &mut Case) {
    let g = c.index % 3;
    scverif::with_big(1, || match g {
        0 | 1 => clf(c),
        _ => reg(c),
    })
}

fn main() {
    runner::main(Spec {
        property: "C06",
        rule: "one case = one data set (4..120 rows, 1..6 features; continuous / normal / small-integer / pairwise-distinct lattice features, optionally a constant feature and duplicated rows; 2..4 classes with non-contiguous, negative or fractional label values incl. classes with a single row / real targets of seven kinds; f64, 20 % f32) + one parameter set (seed in {0, u64::MAX, small, 2^s±1, random u64}, n_trees 1..30, m in {None,1..p}, max_depth None|1..8, min_samples_leaf 1..5, min_samples_split 0..8, three criteria, keep_samples on 75 %) fitted twice, predicted on the training rows and on 1..10 fresh rows (some copies of training rows, some far outside); the *_grown families disable all tree limits on lattice data and keep the samples. A case is non-trivial when the forest has >= 2 trees and either two member trees disagree on an evaluated row or some training row has a non-empty proper subset of out-of-bag trees; distinct = distinct hash of (model, width, X, fresh X, y, all parameters); large: 560..900 rows, classifiers with 257..280 classes; a refused (single-class) fit before, or an unrelated fit between, the two compared fits in a third of the cases; parameter objects are passed to fit as clones in every second case",
        assumptions: vec![
            "the bootstrap of tree t is observed through the model's own `samples[t]` mask (the observation point the property names); in the *_grown families it is cross-checked against the member tree itself: with all limits disabled and pairwise distinct feature values a tree reproduces the label / target of every row of its own bootstrap sample, and a regression tree has exactly one leaf per distinct row of its bootstrap sample",
            "ties for the plurality are accepted in favour of any tied class; rows contained in every bootstrap sample have no defined out-of-bag value (counted as oob.rows-without-oob-tree(value-not-judged)); only its independence of the row is required, i.e. all such rows of one forest receive the same value",
            "mean tolerance 4500·eps (1e-12 in f64) relative to the largest member prediction; range tolerance 4·max(n,8)²·eps·max|y| (rounding bound of the leaf means, factor >= 8 head-room)",
            "predict_oob without kept samples and the content of `samples` with keep_samples = false carry no verdict (recorded as buckets)",
            "member trees are re-hydrated through serde_json::Value (no decimal text round trip), so their thresholds and outputs are bit-exact copies",
        ],
        families: vec![
            Family::new("api_paths", 300, 3000, api_paths_fam),
            Family::new("builders", 300, 3000, builders_fam),
            Family::new("clf", 5000, 120000, clf),
            Family::new("reg", 4000, 100000, reg),
            Family::new("clf_grown", 1500, 30000, clf_grown),
            Family::new("reg_grown", 1500, 30000, reg_grown),
            Family::new("large", 48, 600, large),
        ],
        min_nontrivial: 1800,
        case_timeout_s: 120,
    });
}
