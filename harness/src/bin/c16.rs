//! C16 — data splitting never leaks: k-fold test sets partition the data, train == complement,
//! train_test_split is a row permutation with targets attached, cross_validate / cross_val_predict
//! fit one model per fold on exactly the fold's training rows and score / predict exactly the held-out
//! rows (event-log monitor with an instrumented estimator).
//!
//! Row identity travels in column 0 of X (unique ids in 1..=999, unrelated to the row position), the
//! remaining columns and the target are fixed functions of the id, so every row / target the library
//! hands to the estimator, the scorer or back to the caller can be traced to its original position.
use scverif::*;
use smartcore::api::{Predictor, SupervisedEstimator};
use smartcore::error::Failed;
use smartcore::linalg::naive::dense_matrix::DenseMatrix;
use smartcore::linalg::{BaseMatrix, BaseVector, Matrix};
use smartcore::math::num::RealNumber;
use smartcore::model_selection::{cross_val_predict, cross_validate, train_test_split, BaseKFold, KFold};
use std::cell::RefCell;
use std::collections::{BTreeSet, HashMap};
use std::marker::PhantomData;
use std::rc::Rc;

type Folds = Vec<(Vec<usize>, Vec<usize>)>;

// ---------------------------------------------------------------- data with traceable rows
const ID_MOD: i64 = 1000;

/// target of the row with identifier `id` (injective, exact in f32)
fn g(id: i64) -> f64 {
    (3 * id + 7) as f64
}

/// value of column j of the row with identifier `id` (column 0 is the id itself; exact in f32)
fn colv(id: i64, j: usize) -> f64 {
    if j == 0 {
        id as f64
    } else {
        ((id * (2 * j as i64 + 3) + 11 * j as i64) % 1013) as f64
    }
}

struct Data {
    n: usize,
    p: usize,
    ids: Vec<i64>, // position -> id
    pos: HashMap<i64, usize>,
}

impl Data {
    fn draw(rng: &mut Rng, n: usize) -> Data {
        let p = rng.us(1, 4);
        let perm = rng.perm((ID_MOD - 1) as usize);
        let ids: Vec<i64> = perm[..n].iter().map(|&v| v as i64 + 1).collect();
        let pos = ids.iter().enumerate().map(|(i, &id)| (id, i)).collect();
        Data { n, p, ids, pos }
    }

    fn build<T: RealNumber, M: Matrix<T>>(&self) -> (M, M::RowVector) {
        let mut x = M::zeros(self.n, self.p);
        let mut y = M::RowVector::zeros(self.n);
        for i in 0..self.n {
            for j in 0..self.p {
                x.set(i, j, t::<T>(colv(self.ids[i], j)));
            }
            y.set(i, t::<T>(g(self.ids[i])));
        }
        (x, y)
    }

    /// original position of a row handed out by the library; None unless the whole row is intact
    fn row_pos(&self, row: &[f64]) -> Option<usize> {
        if row.len() != self.p || self.p == 0 {
            return None;
        }
        let v = row[0];
        if !(v.is_finite() && v.fract() == 0.0 && v >= 1.0 && v < ID_MOD as f64) {
            return None;
        }
        let id = v as i64;
        let pos = *self.pos.get(&id)?;
        for j in 0..self.p {
            if row[j] != colv(id, j) {
                return None;
            }
        }
        Some(pos)
    }

    /// positions of a block of rows; Err when a row is not an input row or an input row occurs twice
    fn decode_rows(&self, rows: &[Vec<f64>]) -> Result<Vec<usize>, String> {
        let mut seen = vec![false; self.n];
        let mut out = Vec::with_capacity(rows.len());
        for (i, r) in rows.iter().enumerate() {
            match self.row_pos(r) {
                Some(p) => {
                    if seen[p] {
                        return Err(format!("input row {} (id {}) occurs twice in the block", p, self.ids[p]));
                    }
                    seen[p] = true;
                    out.push(p);
                }
                None => return Err(format!("row {} of the block = {:?} is not a row of the input", i, r)),
            }
        }
        Ok(out)
    }
}

fn rows_of<T: RealNumber, M: BaseMatrix<T>>(m: &M) -> Vec<Vec<f64>> {
    let (r, cc) = m.shape();
    (0..r).map(|i| (0..cc).map(|j| f(m.get(i, j))).collect()).collect()
}

fn vec_of<T: RealNumber, V: BaseVector<T>>(v: &V) -> Vec<f64> {
    (0..v.len()).map(|i| f(v.get(i))).collect()
}

fn sorted(v: &[usize]) -> Vec<usize> {
    let mut s = v.to_vec();
    s.sort_unstable();
    s
}

fn complement(n: usize, v: &[usize]) -> Vec<usize> {
    let mut m = vec![false; n];
    for &i in v {
        if i < n {
            m[i] = true;
        }
    }
    (0..n).filter(|&i| !m[i]).collect()
}

fn cls(n: usize, k: usize) -> &'static str {
    if k == n {
        "k=n"
    } else if n % k == 0 {
        "k-divides-n"
    } else {
        "remainder"
    }
}

fn clip(mut s: String) -> String {
    if s.len() > 1500 {
        s.truncate(1500);
        s.push('…');
    }
    s
}

// ---------------------------------------------------------------- the instrumented estimator
#[derive(Clone, Debug)]
enum Ev {
    Fit { model: usize, rows: Vec<Vec<f64>>, y: Vec<f64> },
    Predict { model: usize, rows: Vec<Vec<f64>> },
    Score { token: usize, y_true: Vec<f64>, y_pred: Vec<f64> },
}

type Log = Rc<RefCell<Vec<Ev>>>;

#[derive(Clone)]
struct SpyParams {
    log: Log,
    /// > 0: rows whose identifier is a multiple of it are predicted as NaN, those one above as +infinity (an estimator
    /// may legitimately predict such values, e.g. for rows with missing features); 0: every prediction is the finite echo
    special_mod: i64,
}

/// Records what it is fitted on / asked to predict; predicts `id + 1000·model_id`.
struct SpyEstimator<T> {
    model: usize,
    special_mod: i64,
    log: Log,
    _t: PhantomData<T>,
}

impl<T: RealNumber, M: Matrix<T>> SupervisedEstimator<M, M::RowVector, SpyParams> for SpyEstimator<T> {
    fn fit(x: &M, y: &M::RowVector, parameters: SpyParams) -> Result<Self, Failed> {
        let mut l = parameters.log.borrow_mut();
        let model = l.iter().filter(|e| matches!(e, Ev::Fit { .. })).count();
        l.push(Ev::Fit { model, rows: rows_of(x), y: vec_of(y) });
        drop(l);
        Ok(SpyEstimator { model, special_mod: parameters.special_mod, log: parameters.log.clone(), _t: PhantomData })
    }
}

impl<T: RealNumber, M: Matrix<T>> Predictor<M, M::RowVector> for SpyEstimator<T> {
    fn predict(&self, x: &M) -> Result<M::RowVector, Failed> {
        let rows = rows_of(x);
        let mut out = M::RowVector::zeros(rows.len());
        for (i, r) in rows.iter().enumerate() {
            let id = if r.is_empty() { -1.0 } else { r[0] };
            let special = self.special_mod > 0 && id >= 0.0;
            let v = if special && (id as i64) % self.special_mod == 0 {
                f64::NAN
            } else if special && (id as i64) % self.special_mod == 1 {
                f64::INFINITY
            } else {
                id + (ID_MOD as f64) * self.model as f64
            };
            out.set(i, t::<T>(v));
        }
        self.log.borrow_mut().push(Ev::Predict { model: self.model, rows });
        Ok(out)
    }
}

fn spy_fit<T: RealNumber, M: Matrix<T>>(x: &M, y: &M::RowVector, p: SpyParams) -> Result<SpyEstimator<T>, Failed> {
    <SpyEstimator<T> as SupervisedEstimator<M, M::RowVector, SpyParams>>::fit(x, y, p)
}

/// echo value -> (position of the echoed id, model)
fn decode_echo(d: &Data, v: f64) -> Option<(usize, usize)> {
    if !(v.is_finite() && v.fract() == 0.0 && v >= 0.0) {
        return None;
    }
    let v = v as i64;
    let pos = *d.pos.get(&(v % ID_MOD))?;
    Some((pos, (v / ID_MOD) as usize))
}

// ---------------------------------------------------------------- structural oracle on a list of folds
/// Checks the k-fold clauses of the statement on `folds` = (train positions, test positions):
/// exactly k pairs, indices valid, tests partition 0..n, sizes differ by <= 1, consecutive blocks
/// when not shuffled, train == complement of test. Returns false when the folds are unusable.
fn check_folds(c: &mut Case, pre: &str, n: usize, k: usize, shuffle: bool, folds: &Folds, sg: &str) -> bool {
    let show = |what: &str| clip(format!("{} (n={}, k={}, shuffle={}); (train, test) pairs = {:?}", what, n, k, shuffle, folds));
    c.check(&format!("{}.k-pairs", pre), folds.len() == k, sg, || show(&format!("{} pairs instead of {}", folds.len(), k)));
    let distinct_in_range = |v: &[usize]| {
        let mut m = vec![false; n];
        for &i in v {
            if i >= n || m[i] {
                return false;
            }
            m[i] = true;
        }
        true
    };
    let valid = folds.iter().all(|(tr, te)| distinct_in_range(tr) && distinct_in_range(te));
    if !c.check(&format!("{}.indices-valid", pre), valid, sg, || show("an index is out of range or repeated inside one index list")) {
        return false;
    }
    let mut cnt = vec![0usize; n];
    for (_, te) in folds {
        for &i in te {
            cnt[i] += 1;
        }
    }
    c.check(&format!("{}.test-partition", pre), cnt.iter().all(|&x| x == 1), sg, || {
        let bad: Vec<(usize, usize)> = cnt.iter().cloned().enumerate().filter(|&(_, x)| x != 1).take(8).collect();
        show(&format!("test sets do not partition 0..n-1; (sample, number of test sets containing it) = {:?}", bad))
    });
    if !folds.is_empty() {
        let mx = folds.iter().map(|f| f.1.len()).max().unwrap_or(0);
        let mn = folds.iter().map(|f| f.1.len()).min().unwrap_or(0);
        c.check(&format!("{}.balanced", pre), mx - mn <= 1, sg, || show(&format!("test-set sizes range from {} to {}", mn, mx)));
    }
    if !shuffle {
        let contiguous = folds.iter().all(|(_, te)| {
            if te.is_empty() {
                return true;
            }
            let lo = *te.iter().min().unwrap();
            let hi = *te.iter().max().unwrap();
            hi - lo + 1 == te.len()
        });
        c.check(&format!("{}.consecutive", pre), contiguous, sg, || show("a test set is not a block of consecutive positions although shuffle is off"));
    }
    let compl = folds.iter().all(|(tr, te)| sorted(tr) == complement(n, te));
    c.check(&format!("{}.train=complement", pre), compl, sg, || show("a train set is not the complement of its test set"));
    // observations the statement leaves open (never verdicts)
    if !shuffle && folds.iter().all(|f| !f.1.is_empty()) {
        let asc = folds.windows(2).all(|w| w[0].1.iter().min() < w[1].1.iter().min());
        c.bucket(if asc { "obs:folds-in-ascending-order" } else { "obs:folds-not-in-ascending-order" });
        let larger_first = folds.windows(2).all(|w| w[0].1.len() >= w[1].1.len());
        c.bucket_if(larger_first && n % k != 0, "obs:larger-folds-first");
    }
    c.bucket_if(folds.iter().all(|(tr, te)| tr.windows(2).all(|w| w[0] < w[1]) && te.windows(2).all(|w| w[0] < w[1])), "obs:index-lists-sorted");
    true
}

fn same_fold_family(a: &Folds, b: &Folds) -> bool {
    let sa: BTreeSet<Vec<usize>> = a.iter().map(|f| sorted(&f.1)).collect();
    let sb: BTreeSet<Vec<usize>> = b.iter().map(|f| sorted(&f.1)).collect();
    let ta: BTreeSet<Vec<usize>> = a.iter().map(|f| sorted(&f.0)).collect();
    let tb: BTreeSet<Vec<usize>> = b.iter().map(|f| sorted(&f.0)).collect();
    a.len() == b.len() && sa == sb && ta == tb
}

// ---------------------------------------------------------------- (n,k) grid 2 <= k <= n <= 64
const NMAX: usize = 64;
const GRID: u64 = ((NMAX - 1) * NMAX / 2) as u64; // 2016

fn grid(index: u64) -> (usize, usize) {
    let mut i = (index % GRID) as usize;
    for n in 2..=NMAX {
        let cnt = n - 1;
        if i < cnt {
            return (n, 2 + i);
        }
        i -= cnt;
    }
    (NMAX, NMAX)
}

fn kfold_buckets(c: &mut Case, n: usize, k: usize, shuffle: bool) {
    c.bucket(&format!("class:{}", cls(n, k)));
    c.bucket(if shuffle { "shuffle:on" } else { "shuffle:off" });
    c.bucket_if(k == 2, "k=2");
    c.bucket_if(n > NMAX, "n>64");
}

// ---------------------------------------------------------------- families: KFold::split directly
fn kfold_once(c: &mut Case, n: usize, k: usize, shuffle: bool, sg: &str) -> Option<Folds> {
    let x: DenseMatrix<f64> = DenseMatrix::zeros(n, 1);
    let cv = KFold { n_splits: k, shuffle };
    let ns = c.must("KFold::n_splits", || cv.n_splits())?;
    c.check("kfold.n_splits", ns == k, sg, || format!("n_splits() = {} for KFold {{ n_splits: {} }}", ns, k));
    // one case in four: another split (other size, other k) is started and exhausted on the same thread while this one is
    // open after its first fold — nested cross-validation does exactly that
    let nested = c.index % 4 == 3;
    c.bucket_if(nested, "another-split-while-this-one-is-open");
    let folds: Folds = c.must("KFold::split", || {
        if nested {
            let mut it = cv.split(&x);
            let mut out = Vec::new();
            if let Some(f) = it.next() {
                out.push(f);
            }
            let x2: DenseMatrix<f64> = DenseMatrix::zeros(n + 3, 1);
            let inner = KFold { n_splits: 2 + (n % 3).min(n), shuffle: !shuffle }.split(&x2).count();
            assert!(inner > 0);
            out.extend(it);
            out
        } else {
            cv.split(&x).collect::<Vec<_>>()
        }
    })?;
    check_folds(c, "kfold", n, k, shuffle, &folds, sg);
    Some(folds)
}

fn kfold_grid(c: &mut Case) {
    let (n, k) = grid(c.index);
    c.describe(json!({"api": "KFold::split", "n": n, "k": k, "shuffle": false}));
    c.nontrivial();
    kfold_buckets(c, n, k, false);
    let sg = format!("ordered/{}", cls(n, k));
    if let Some(folds) = kfold_once(c, n, k, false, &sg) {
        // the builder interface must describe the same splitter
        let x: DenseMatrix<f64> = DenseMatrix::zeros(n, 1);
        if let Some(f2) = c.must("KFold::with_*", || KFold::default().with_n_splits(k).with_shuffle(false).split(&x).collect::<Vec<_>>()) {
            check_folds(c, "kfold", n, k, false, &f2, &sg);
            c.bucket_if(f2 == folds, "obs:builder-equals-literal");
        }
    }
}

fn kfold_shuffled(c: &mut Case, n: usize, k: usize, draws: usize) {
    c.describe(json!({"api": "KFold::split", "n": n, "k": k, "shuffle": true, "draws": draws}));
    c.nontrivial();
    kfold_buckets(c, n, k, true);
    let sg = format!("shuffle/{}", cls(n, k));
    let mut seen: BTreeSet<Vec<Vec<usize>>> = BTreeSet::new();
    let mut first: Option<Vec<Vec<usize>>> = None;
    let mut identity_like = 0;
    for _ in 0..draws {
        let folds = match kfold_once(c, n, k, true, &sg) {
            Some(f) => f,
            None => return,
        };
        let tests: Vec<Vec<usize>> = folds.iter().map(|f| f.1.clone()).collect();
        let blocks = tests.iter().all(|te| !te.is_empty() && te.iter().max().unwrap() - te.iter().min().unwrap() + 1 == te.len());
        if blocks {
            identity_like += 1;
        }
        if first.is_none() {
            first = Some(tests.clone());
        }
        seen.insert(tests);
    }
    // the unseeded permutation is part of the case (schedule): record the first draw so that repeats
    // of the same (n,k) count as distinct cases only when the observed permutation differs
    c.describe(json!({"api": "KFold::split", "n": n, "k": k, "shuffle": true, "draws": draws, "first_draw_test_sets": first}));
    // observations only: the property does not quantify the quality of the randomness
    c.bucket(if seen.len() > 1 { "obs:draws-differ" } else { "obs:all-draws-identical" });
    c.bucket_if(identity_like == draws && n > k, "obs:every-draw-consecutive-blocks");
    c.bucket_if(identity_like < draws, "obs:non-consecutive-test-sets");
}

/// "With shuffling on the same holds for a random permutation": the quality of the randomness is not quantified, but
/// a *random permutation* can be any permutation. For n = k in {2, 3, 4} (one sample per fold, so the sequence of test
/// sets is the permutation itself) 60·n! draws have to show all n! arrangements; for a shuffle that can reach every
/// permutation at all, missing one of them has probability below 1e-20 even if it is 10 times rarer than uniform.
fn kfold_shuffle_support(c: &mut Case) {
    let n = 2 + (c.index % 3) as usize;
    let k = n;
    let fact: usize = (1..=n).product();
    let draws = 60 * fact * if n == 4 { 4 } else { 1 };
    c.describe(json!({"api": "KFold::split", "n": n, "k": k, "shuffle": true, "draws": draws, "check": "every arrangement occurs"}));
    c.nontrivial();
    kfold_buckets(c, n, k, true);
    let sg = format!("shuffle-support/n=k={}", n);
    let mut seen: BTreeSet<Vec<usize>> = BTreeSet::new();
    for _ in 0..draws {
        let folds = match kfold_once(c, n, k, true, &sg) {
            Some(f) => f,
            None => return,
        };
        if folds.iter().any(|f| f.1.len() != 1) {
            return; // reported by the fold checks
        }
        seen.insert(folds.iter().map(|f| f.1[0]).collect());
    }
    c.check("kfold.shuffle.every-permutation-reachable", seen.len() == fact, &sg, || {
        format!("{} draws of the shuffled {}-fold split of {} samples produced only {} of the {} possible arrangements: {:?}", draws, k, n, seen.len(), fact, seen)
    });
}

fn kfold_shuffle(c: &mut Case) {
    let (n, k) = grid(c.index);
    let draws = if c.tier.thorough() { 25 } else { 20 };
    kfold_shuffled(c, n, k, draws);
}

fn draw_large(c: &mut Case, nmax: usize) -> (usize, usize) {
    let n = c.rng.us(NMAX + 1, nmax);
    let k = match c.rng.below(5) {
        0 => n,
        1 => c.rng.us(2, n),
        2 => c.rng.us(n / 2, n),
        3 => 2,
        _ => c.rng.us(2, 20),
    };
    (n, k.max(2).min(n))
}

fn kfold_large(c: &mut Case) {
    let (n, k) = draw_large(c, 400);
    if c.rng.bool(0.5) {
        kfold_shuffled(c, n, k, 5);
    } else {
        c.describe(json!({"api": "KFold::split", "n": n, "k": k, "shuffle": false}));
        c.nontrivial();
        kfold_buckets(c, n, k, false);
        let sg = format!("ordered/{}", cls(n, k));
        kfold_once(c, n, k, false, &sg);
    }
}

// ---------------------------------------------------------------- offline checkers of the event log
struct Decoded {
    /// positions each model was fitted on (index = model id)
    fit: Vec<Vec<usize>>,
    /// (model, positions) of every predict call in log order
    predicts: Vec<(usize, Vec<usize>)>,
}

/// Clauses common to both drivers: exactly k fits, every fitted / predicted block consists of intact,
/// pairwise distinct input rows, every training target is the target of its own row.
fn decode_log(c: &mut Case, pre: &str, d: &Data, k: usize, log: &[Ev], sg: &str) -> Option<Decoded> {
    let mut fit: Vec<Vec<usize>> = Vec::new();
    let mut predicts: Vec<(usize, Vec<usize>)> = Vec::new();
    let nfit = log.iter().filter(|e| matches!(e, Ev::Fit { .. })).count();
    c.check(&format!("{}.k-fits", pre), nfit == k, sg, || format!("{} models were fitted for k = {} (n = {})", nfit, k, d.n));
    for e in log {
        match e {
            Ev::Fit { model, rows, y } => {
                let dec = d.decode_rows(rows);
                let ok = c.check(&format!("{}.fit-rows-intact", pre), dec.is_ok(), sg, || {
                    format!("model {} was fitted on something that is not a set of distinct input rows: {}", model, dec.clone().err().unwrap_or_default())
                });
                if !ok {
                    return None;
                }
                let pos = dec.unwrap_or_default();
                let attached = y.len() == pos.len() && (0..pos.len()).all(|i| y[i] == g(d.ids[pos[i]]));
                if !c.check(&format!("{}.fit-target-attached", pre), attached, sg, || {
                    clip(format!("model {}: training targets {:?} do not belong to the training rows with ids {:?} (target of id is 3·id+7)", model, y, pos.iter().map(|&p| d.ids[p]).collect::<Vec<_>>()))
                }) {
                    return None;
                }
                fit.push(pos);
            }
            Ev::Predict { model, rows } => {
                let dec = d.decode_rows(rows);
                let ok = c.check(&format!("{}.predict-rows-intact", pre), dec.is_ok(), sg, || {
                    format!("model {} was asked to predict something that is not a set of distinct input rows: {}", model, dec.clone().err().unwrap_or_default())
                });
                if !ok {
                    return None;
                }
                predicts.push((*model, dec.unwrap_or_default()));
            }
            Ev::Score { .. } => {}
        }
    }
    if predicts.iter().any(|(m, _)| *m >= fit.len()) {
        c.inconclusive("event log inconsistent: predict by a model that was never fitted");
        return None;
    }
    Some(Decoded { fit, predicts })
}

fn ids_of(d: &Data, pos: &[usize]) -> Vec<i64> {
    pos.iter().map(|&p| d.ids[p]).collect()
}

fn check_cvp(c: &mut Case, d: &Data, k: usize, shuffle: bool, log: &[Ev], y_hat: &[f64], reff: Option<&Folds>, sg: &str, special_mod: i64) {
    let n = d.n;
    let dec = match decode_log(c, "cvp", d, k, log, sg) {
        Some(x) => x,
        None => return,
    };
    // no model ever predicts a sample it has seen
    let mut leak: Option<(usize, usize)> = None;
    for (m, pos) in &dec.predicts {
        let seen: BTreeSet<usize> = dec.fit[*m].iter().cloned().collect();
        if let Some(&p) = pos.iter().find(|p| seen.contains(p)) {
            leak = Some((*m, p));
            break;
        }
    }
    c.check("cvp.no-leak", leak.is_none(), sg, || {
        let (m, p) = leak.unwrap_or((0, 0));
        clip(format!("model {} predicted the sample at position {} (id {}) although it was fitted on it; fit ids of the model = {:?}", m, p, d.ids[p], ids_of(d, &dec.fit[m])))
    });
    // every sample predicted exactly once
    let mut cnt = vec![0usize; n];
    let mut by: Vec<Option<usize>> = vec![None; n];
    for (m, pos) in &dec.predicts {
        for &p in pos {
            cnt[p] += 1;
            by[p] = Some(*m);
        }
    }
    c.check("cvp.each-sample-predicted-once", cnt.iter().all(|&x| x == 1), sg, || {
        let bad: Vec<(usize, usize)> = cnt.iter().cloned().enumerate().filter(|&(_, x)| x != 1).take(8).collect();
        format!("(position, number of predictions) = {:?} (n = {}, k = {})", bad, n, k)
    });
    // per model: held-out rows = all rows the model predicted; fit rows == complement of them
    let mut folds: Folds = Vec::new();
    for m in 0..dec.fit.len() {
        let held: Vec<usize> = dec.predicts.iter().filter(|(pm, _)| *pm == m).flat_map(|(_, p)| p.iter().cloned()).collect();
        folds.push((dec.fit[m].clone(), held));
    }
    check_folds(c, "cvp.folds", n, k, shuffle, &folds, sg);
    if let Some(r) = reff {
        c.check("cvp.folds=KFold::split", same_fold_family(&folds, r), sg, || clip(format!("folds used {:?} differ from the folds of KFold::split {:?}", folds, r)));
        c.bucket_if(&folds == r || folds.iter().zip(r.iter()).all(|(a, b)| sorted(&a.0) == sorted(&b.0) && sorted(&a.1) == sorted(&b.1)), "obs:models-in-fold-order");
    }
    // placement: output at position i is the echo of (id at i, the model that held i out)
    if !c.check("cvp.output-length", y_hat.len() == n, sg, || format!("output has {} entries for {} samples", y_hat.len(), n)) {
        return;
    }
    let mut bad: Vec<String> = Vec::new();
    let mut checked = 0;
    for i in 0..n {
        // the model that did not see i, if unique
        let unseen: Vec<usize> = (0..dec.fit.len()).filter(|&m| !dec.fit[m].contains(&i)).collect();
        if unseen.len() != 1 || cnt[i] != 1 || by[i] != Some(unseen[0]) {
            continue; // already reported by the partition / leak oracles
        }
        checked += 1;
        let want = if special_mod > 0 && d.ids[i] % special_mod == 0 {
            f64::NAN
        } else if special_mod > 0 && d.ids[i] % special_mod == 1 {
            f64::INFINITY
        } else {
            d.ids[i] as f64 + (ID_MOD as f64) * unseen[0] as f64
        };
        if !(y_hat[i] == want || (y_hat[i].is_nan() && want.is_nan())) && bad.len() < 6 {
            let got = match decode_echo(d, y_hat[i]) {
                Some((p, m)) => format!("the prediction of model {} for the sample at position {} (id {})", m, p, d.ids[p]),
                None => "no prediction made by any model for any input row".to_string(),
            };
            bad.push(format!("position {} (id {}): expected {} (held out by model {}), found {} = {}", i, d.ids[i], want, unseen[0], y_hat[i], got));
        }
    }
    c.check("cvp.placement", bad.is_empty(), sg, || clip(format!("n = {}, k = {}: {}", n, k, bad.join("; "))));
    c.bucket_if(checked == n, "cvp:all-positions-checked");
}

struct ScoreCall {
    model: usize,
    pos: Vec<usize>,
}

/// decodes the (y_true, y_pred) pair the scorer saw: all predictions by one model, y_true[i] is the
/// target of the row y_pred[i] echoes, rows pairwise distinct
fn decode_score(d: &Data, y_true: &[f64], y_pred: &[f64]) -> Result<ScoreCall, String> {
    if y_true.len() != y_pred.len() {
        return Err(format!("{} true values against {} predictions", y_true.len(), y_pred.len()));
    }
    if y_pred.is_empty() {
        return Err("scored on an empty set".into());
    }
    let mut model = None;
    let mut pos = Vec::new();
    let mut seen = vec![false; d.n];
    for i in 0..y_pred.len() {
        let (p, m) = decode_echo(d, y_pred[i]).ok_or_else(|| format!("prediction {} at {} was made by no model for any input row", y_pred[i], i))?;
        if y_true[i] != g(d.ids[p]) {
            return Err(format!("entry {}: prediction for id {} is compared with the target {} of another row", i, d.ids[p], y_true[i]));
        }
        if seen[p] {
            return Err(format!("the sample with id {} is scored twice", d.ids[p]));
        }
        seen[p] = true;
        if *model.get_or_insert(m) != m {
            return Err("predictions of several models are scored together".into());
        }
        pos.push(p);
    }
    Ok(ScoreCall { model: model.unwrap_or(0), pos })
}

fn check_cv(c: &mut Case, d: &Data, k: usize, shuffle: bool, log: &[Ev], test_score: &[f64], train_score: &[f64], reff: Option<&Folds>, sg: &str) {
    let n = d.n;
    let dec = match decode_log(c, "cv", d, k, log, sg) {
        Some(x) => x,
        None => return,
    };
    let folds: Folds = dec.fit.iter().map(|f| (f.clone(), complement(n, f))).collect();
    check_folds(c, "cv.folds", n, k, shuffle, &folds, sg);
    if let Some(r) = reff {
        c.check("cv.folds=KFold::split", same_fold_family(&folds, r), sg, || clip(format!("folds used {:?} differ from the folds of KFold::split {:?}", folds, r)));
    }
    // every predict call of model m is on exactly its training rows or exactly its held-out rows
    let mut off: Option<String> = None;
    let mut heldout_predicted = vec![false; dec.fit.len()];
    for (m, pos) in &dec.predicts {
        let s = sorted(pos);
        if s == folds[*m].1 {
            heldout_predicted[*m] = true;
        } else if s != sorted(&folds[*m].0) && off.is_none() {
            off = Some(clip(format!("model {} (fit ids {:?}) predicted the rows with ids {:?}", m, ids_of(d, &folds[*m].0), ids_of(d, pos))));
        }
    }
    c.check("cv.predict=train-or-heldout", off.is_none(), sg, || off.clone().unwrap_or_default());
    c.check("cv.heldout-predicted", heldout_predicted.iter().all(|&b| b), sg, || format!("models without a prediction of exactly their held-out rows: {:?}", heldout_predicted.iter().enumerate().filter(|x| !*x.1).map(|x| x.0).collect::<Vec<_>>()));
    // scores
    let lens_ok = test_score.len() == k && train_score.len() == k;
    c.check("cv.score-count", lens_ok, sg, || format!("{} test scores and {} train scores for k = {}", test_score.len(), train_score.len(), k));
    let calls: Vec<(usize, &Vec<f64>, &Vec<f64>)> = log
        .iter()
        .filter_map(|e| match e {
            Ev::Score { token, y_true, y_pred } => Some((*token, y_true, y_pred)),
            _ => None,
        })
        .collect();
    let find = |v: f64| -> Option<&(usize, &Vec<f64>, &Vec<f64>)> { calls.iter().find(|cl| cl.0 as f64 == v) };
    let mut used: BTreeSet<usize> = BTreeSet::new();
    let mut models: Vec<usize> = Vec::new();
    for j in 0..test_score.len().min(train_score.len()) {
        let (te, tr) = match (find(test_score[j]), find(train_score[j])) {
            (Some(a), Some(b)) => (a, b),
            _ => {
                c.check("cv.score-from-scorer", false, sg, || format!("split {}: reported scores ({}, {}) are not values returned by the score function", j, test_score[j], train_score[j]));
                continue;
            }
        };
        let fresh = used.insert(te.0) & used.insert(tr.0);
        c.check("cv.score-from-scorer", fresh, sg, || format!("split {}: the result of one call of the score function is reported twice", j));
        let (dte, dtr) = (decode_score(d, te.1, te.2), decode_score(d, tr.1, tr.2));
        let aligned = dte.is_ok() && dtr.is_ok();
        c.check("cv.score-aligned", aligned, sg, || format!("split {}: test score: {}; train score: {}", j, dte.as_ref().err().cloned().unwrap_or_else(|| "ok".into()), dtr.as_ref().err().cloned().unwrap_or_else(|| "ok".into())));
        let (dte, dtr) = match (dte, dtr) {
            (Ok(a), Ok(b)) => (a, b),
            _ => continue,
        };
        if dte.model >= folds.len() || dtr.model >= folds.len() {
            c.inconclusive("event log inconsistent: score of a model that was never fitted");
            return;
        }
        c.check("cv.test-score=heldout", sorted(&dte.pos) == folds[dte.model].1, sg, || {
            clip(format!("split {}: test score computed from predictions of model {} for ids {:?}; the model was fitted on ids {:?} (n = {})", j, dte.model, ids_of(d, &dte.pos), ids_of(d, &folds[dte.model].0), n))
        });
        c.check("cv.train-score=train", dtr.model == dte.model && sorted(&dtr.pos) == sorted(&folds[dtr.model].0), sg, || {
            clip(format!("split {}: train score computed from predictions of model {} for ids {:?}; test score belongs to model {}, which was fitted on ids {:?}", j, dtr.model, ids_of(d, &dtr.pos), dte.model, ids_of(d, &folds[dte.model].0)))
        });
        models.push(dte.model);
    }
    if lens_ok && models.len() == k {
        let distinct: BTreeSet<usize> = models.iter().cloned().collect();
        c.check("cv.scores-one-per-fold", distinct.len() == k, sg, || format!("the k reported test scores belong to models {:?}", models));
        c.bucket_if(models.iter().enumerate().all(|(j, &m)| j == m), "obs:scores-in-fit-order");
    }
}

// ---------------------------------------------------------------- drivers
fn cv_case<T: RealNumber, M: Matrix<T>>(c: &mut Case, d: &Data, k: usize, shuffle: bool, be: &str) {
    let (x, y): (M, M::RowVector) = d.build::<T, M>();
    let sg = format!("{}/{}/{}", be, if shuffle { "shuffle" } else { "ordered" }, cls(d.n, k));
    c.bucket(&format!("backend:{}", be));
    let reff: Option<Folds> = if shuffle {
        None
    } else {
        match c.must("KFold::split", || KFold { n_splits: k, shuffle: false }.split(&x).collect::<Vec<_>>()) {
            Some(f) => Some(f),
            None => return,
        }
    };
    // ---- cross_validate
    {
        let log: Log = Rc::new(RefCell::new(Vec::new()));
        let params = SpyParams { log: log.clone(), special_mod: 0 };
        let slog = log.clone();
        let score = move |yt: &M::RowVector, yp: &M::RowVector| -> T {
            let mut l = slog.borrow_mut();
            let token = 1 + l.iter().filter(|e| matches!(e, Ev::Score { .. })).count();
            l.push(Ev::Score { token, y_true: vec_of(yt), y_pred: vec_of(yp) });
            t::<T>(token as f64)
        };
        let cv = KFold { n_splits: k, shuffle };
        if let Some(r) = c.must("cross_validate", || cross_validate(spy_fit::<T, M>, &x, &y, params, cv, &score)) {
            match r {
                Ok(res) => {
                    let events = log.borrow().clone();
                    check_cv(c, d, k, shuffle, &events, &fv(&res.test_score), &fv(&res.train_score), reff.as_ref(), &sg);
                }
                Err(e) => {
                    c.check("cv.ok", false, &sg, || format!("cross_validate returned Err({}) although no fit / predict failed", e));
                }
            }
        }
    }
    // ---- cross_val_predict
    {
        let log: Log = Rc::new(RefCell::new(Vec::new()));
        // a quarter of the runs: the estimator predicts NaN / +inf for some rows — values like any other for the placement
        let special_mod: i64 = if c.rng.bool(0.25) { c.rng.int(2, 6) } else { 0 };
        c.bucket_if(special_mod > 0, "cvp:estimator-predicts-NaN/inf-for-some-rows");
        let params = SpyParams { log: log.clone(), special_mod };
        let cv = KFold { n_splits: k, shuffle };
        if let Some(r) = c.must("cross_val_predict", || cross_val_predict(spy_fit::<T, M>, &x, &y, params, cv)) {
            match r {
                Ok(y_hat) => {
                    let events = log.borrow().clone();
                    check_cvp(c, d, k, shuffle, &events, &vec_of(&y_hat), reff.as_ref(), &sg, special_mod);
                }
                Err(e) => {
                    c.check("cvp.ok", false, &sg, || format!("cross_val_predict returned Err({}) although no fit / predict failed", e));
                }
            }
        }
    }
}

const BACKENDS: usize = 6;

fn cv_dispatch(c: &mut Case, d: &Data, k: usize, shuffle: bool, which: usize) {
    match which {
        0 => cv_case::<f64, DenseMatrix<f64>>(c, d, k, shuffle, "dense-f64"),
        1 => cv_case::<f32, DenseMatrix<f32>>(c, d, k, shuffle, "dense-f32"),
        2 => cv_case::<f64, ndarray::Array2<f64>>(c, d, k, shuffle, "ndarray-f64"),
        3 => cv_case::<f32, ndarray::Array2<f32>>(c, d, k, shuffle, "ndarray-f32"),
        4 => cv_case::<f64, nalgebra::DMatrix<f64>>(c, d, k, shuffle, "nalgebra-f64"),
        _ => cv_case::<f32, nalgebra::DMatrix<f32>>(c, d, k, shuffle, "nalgebra-f32"),
    }
}

fn backend_name(which: usize) -> &'static str {
    ["dense-f64", "dense-f32", "ndarray-f64", "ndarray-f32", "nalgebra-f64", "nalgebra-f32"][which.min(5)]
}

/// all (n,k), shuffle off: DenseMatrix<f64> always plus one drawn other backend
fn cv_grid(c: &mut Case) {
    let (n, k) = grid(c.index);
    let d = Data::draw(&mut c.rng, n);
    let other = c.rng.us(1, BACKENDS - 1);
    c.describe(json!({"api": "cross_validate+cross_val_predict", "n": n, "k": k, "shuffle": false, "p": d.p, "ids": d.ids, "backends": ["dense-f64", backend_name(other)]}));
    c.nontrivial();
    kfold_buckets(c, n, k, false);
    cv_dispatch(c, &d, k, false, 0);
    cv_dispatch(c, &d, k, false, other);
}

fn cv_shuffle(c: &mut Case) {
    let (n, k) = grid(c.index);
    let d = Data::draw(&mut c.rng, n);
    let which = c.rng.below(BACKENDS);
    let reps = 3;
    c.describe(json!({"api": "cross_validate+cross_val_predict", "n": n, "k": k, "shuffle": true, "p": d.p, "ids": d.ids, "backend": backend_name(which), "repetitions": reps}));
    c.nontrivial();
    kfold_buckets(c, n, k, true);
    for _ in 0..reps {
        cv_dispatch(c, &d, k, true, which);
    }
}

fn cv_large(c: &mut Case) {
    let (n, k) = draw_large(c, 300);
    let k = if k > 64 && c.rng.bool(0.7) { c.rng.us(2, 64) } else { k };
    let d = Data::draw(&mut c.rng, n);
    let which = c.rng.below(BACKENDS);
    let shuffle = c.rng.bool(0.5);
    c.describe(json!({"api": "cross_validate+cross_val_predict", "n": n, "k": k, "shuffle": shuffle, "p": d.p, "ids": d.ids, "backend": backend_name(which)}));
    c.nontrivial();
    kfold_buckets(c, n, k, shuffle);
    cv_dispatch(c, &d, k, shuffle, which);
}

// ---------------------------------------------------------------- user-defined splitter with partial coverage
/// Forward chaining: the samples are cut into k+1 consecutive blocks; split j trains on blocks 0..=j and holds out
/// block j+1. Block 0 is never held out.
struct ForwardChain {
    k: usize,
}

impl BaseKFold for ForwardChain {
    type Output = std::vec::IntoIter<(Vec<usize>, Vec<usize>)>;
    fn split<T: RealNumber, M: Matrix<T>>(&self, x: &M) -> Self::Output {
        let n = x.shape().0;
        let b = self.k + 1;
        let cut = |j: usize| j * n / b;
        (0..self.k).map(|j| ((0..cut(j + 1)).collect::<Vec<usize>>(), (cut(j + 1)..cut(j + 2)).collect::<Vec<usize>>())).collect::<Vec<_>>().into_iter()
    }
    fn n_splits(&self) -> usize {
        self.k
    }
}

/// cross_val_predict with a splitter that never holds out the leading block: every held-out prediction sits at its
/// sample's position, and the entries of the samples that were never held out carry no information about the targets
/// (the same call with other targets returns the same entries there).
fn cvp_partial_t<T: RealNumber, M: Matrix<T>>(c: &mut Case, d: &Data, k: usize, be: &str) {
    let (x, y): (M, M::RowVector) = d.build::<T, M>();
    let n = d.n;
    let sg = format!("{}/forward-chaining", be);
    let mut y2 = y.clone();
    for i in 0..n {
        y2.set(i, y.get(i) + t::<T>(1000.0));
    }
    let mut outs: Vec<Vec<f64>> = Vec::new();
    for yy in [&y, &y2] {
        let log: Log = Rc::new(RefCell::new(Vec::new()));
        let params = SpyParams { log: log.clone(), special_mod: 0 };
        match c.must("cross_val_predict(forward chaining)", || cross_val_predict(spy_fit::<T, M>, &x, yy, params, ForwardChain { k })) {
            Some(Ok(v)) => outs.push(vec_of(&v)),
            Some(Err(e)) => {
                c.check("cvp.partial.ok", false, &sg, || format!("cross_val_predict returned Err({}) for a forward-chaining splitter", e));
                return;
            }
            None => return,
        }
    }
    let b = k + 1;
    let cut = |j: usize| j * n / b;
    let first_test = cut(1);
    if !c.check("cvp.partial.output-length", outs[0].len() == n && outs[1].len() == n, &sg, || format!("output lengths {} / {} for {} samples", outs[0].len(), outs[1].len(), n)) {
        return;
    }
    // held-out positions: echo of (id, model j) where j is the split that held the block out
    let mut bad: Vec<String> = Vec::new();
    for j in 0..k {
        for i in cut(j + 1)..cut(j + 2) {
            let want = d.ids[i] as f64 + (ID_MOD as f64) * j as f64;
            if outs[0][i] != want && bad.len() < 6 {
                bad.push(format!("position {}: expected {} (held out by split {}), found {}", i, want, j, outs[0][i]));
            }
        }
    }
    c.check("cvp.partial.placement", bad.is_empty(), &sg, || clip(format!("n = {}, k = {}: {}", n, k, bad.join("; "))));
    let leak: Vec<usize> = (0..first_test).filter(|&i| !(outs[0][i] == outs[1][i] || (outs[0][i].is_nan() && outs[1][i].is_nan()))).collect();
    c.check("cvp.partial.unpredicted-entries-independent-of-targets", leak.is_empty(), &sg, || {
        clip(format!("positions {:?} were never held out, yet their output entries change with the targets: {:?} for y, {:?} for y + 1000", leak, leak.iter().map(|&i| outs[0][i]).collect::<Vec<_>>(), leak.iter().map(|&i| outs[1][i]).collect::<Vec<_>>()))
    });
}

fn cvp_partial(c: &mut Case) {
    let n = c.rng.us(4, 40);
    let k = c.rng.us(1, (n - 1).min(6));
    let d = Data::draw(&mut c.rng, n);
    let which = c.rng.below(BACKENDS);
    c.describe(json!({"api": "cross_val_predict", "splitter": "forward chaining (leading block never held out)", "n": n, "k": k, "p": d.p, "ids": d.ids, "backend": backend_name(which)}));
    c.nontrivial();
    match which {
        0 => cvp_partial_t::<f64, DenseMatrix<f64>>(c, &d, k, "dense-f64"),
        1 => cvp_partial_t::<f32, DenseMatrix<f32>>(c, &d, k, "dense-f32"),
        2 => cvp_partial_t::<f64, ndarray::Array2<f64>>(c, &d, k, "ndarray-f64"),
        3 => cvp_partial_t::<f32, ndarray::Array2<f32>>(c, &d, k, "ndarray-f32"),
        4 => cvp_partial_t::<f64, nalgebra::DMatrix<f64>>(c, &d, k, "nalgebra-f64"),
        _ => cvp_partial_t::<f32, nalgebra::DMatrix<f32>>(c, &d, k, "nalgebra-f32"),
    }
}

// ---------------------------------------------------------------- train_test_split
/// integer part of n*test_size in single precision: the product of two f32 is exact in f64, rounding
/// it to f32 is the IEEE single-precision product
fn n_test_f32(n: usize, ts: f32) -> usize {
    let prod = ((n as f32) as f64 * ts as f64) as f32;
    prod.trunc() as usize
}

fn draw_test_size(c: &mut Case, n: usize) -> Option<(f32, &'static str)> {
    for _ in 0..60 {
        let (ts, kind): (f32, &'static str) = match c.rng.below(7) {
            0 => (c.rng.uni(0.0, 1.0) as f32, "uniform"),
            1 => (*c.rng.pick(&[0.1f32, 0.2, 0.25, 0.3, 0.33, 0.4, 0.5, 0.6, 0.67, 0.7, 0.75, 0.8, 0.9, 0.95, 1.0]), "common"),
            2 => (c.rng.us(1, n) as f32 / n as f32, "j/n"),
            3 => {
                let v = c.rng.us(1, n) as f32 / n as f32;
                let b = v.to_bits();
                (f32::from_bits(if c.rng.bool(0.5) { b + 1 } else { b - 1 }), "j/n±ulp")
            }
            4 => ((c.rng.us(1, n) as f64 / n as f64 + c.rng.uni(-1e-7, 1e-7)) as f32, "j/n±1e-7"),
            5 => (1.0, "one"),
            _ => (c.rng.logu(1.0 / (n as f64 + 1.0), 1.0) as f32, "log-uniform"),
        };
        if !(ts > 0.0 && ts <= 1.0) {
            continue;
        }
        if n_test_f32(n, ts) < 1 {
            continue;
        }
        return Some((ts, kind));
    }
    None
}

fn tts_case<T: RealNumber, M: Matrix<T>>(c: &mut Case, d: &Data, ts: f32, shuffle: bool, be: &str) {
    let n = d.n;
    let nt = n_test_f32(n, ts);
    let (x, y): (M, M::RowVector) = d.build::<T, M>();
    let class = if nt == n { "train-empty" } else if nt == 1 { "one-test-row" } else { "general" };
    let sg = format!("{}/{}/{}", be, if shuffle { "shuffle" } else { "ordered" }, class);
    c.bucket(&format!("backend:{}", be));
    c.bucket(&format!("tts:{}", class));
    let (xtr, xte, ytr, yte) = match c.must("train_test_split", || train_test_split(&x, &y, ts, shuffle)) {
        Some(r) => r,
        None => return,
    };
    let (rtr, rte) = (rows_of(&xtr), rows_of(&xte));
    let (vtr, vte) = (vec_of(&ytr), vec_of(&yte));
    c.check("tts.test-count", rte.len() == nt && vte.len() == nt, &sg, || {
        format!("n = {}, test_size = {:e} (f32 bits {:#x}): expected {} test rows = integer part of n·test_size in f32, got {} rows / {} targets", n, ts, ts.to_bits(), nt, rte.len(), vte.len())
    });
    c.check("tts.train-count", rtr.len() == n - nt && vtr.len() == n - nt, &sg, || format!("n = {}, test_size = {:e}: expected {} train rows, got {} rows / {} targets", n, ts, n - nt, rtr.len(), vtr.len()));
    let (ptr, pte) = (d.decode_rows(&rtr), d.decode_rows(&rte));
    let intact = ptr.is_ok() && pte.is_ok();
    c.check("tts.rows-intact-disjoint", intact, &sg, || format!("train part: {}; test part: {}", ptr.clone().err().unwrap_or_else(|| "ok".into()), pte.clone().err().unwrap_or_else(|| "ok".into())));
    let (ptr, pte) = match (ptr, pte) {
        (Ok(a), Ok(b)) => (a, b),
        _ => return,
    };
    let mut cnt = vec![0usize; n];
    for &p in ptr.iter().chain(pte.iter()) {
        cnt[p] += 1;
    }
    c.check("tts.permutation", cnt.iter().all(|&v| v == 1), &sg, || {
        let bad: Vec<(usize, usize)> = cnt.iter().cloned().enumerate().filter(|&(_, v)| v != 1).take(8).collect();
        format!("train and test together are not a permutation of the input rows; (position, occurrences) = {:?}", bad)
    });
    let att = |pos: &[usize], v: &[f64]| pos.len() == v.len() && (0..pos.len()).all(|i| v[i] == g(d.ids[pos[i]]));
    c.check("tts.target-attached", att(&ptr, &vtr) && att(&pte, &vte), &sg, || {
        clip(format!("targets are not those of their rows: train ids {:?} targets {:?}; test ids {:?} targets {:?} (target of id is 3·id+7)", ids_of(d, &ptr), vtr, ids_of(d, &pte), vte))
    });
    if !shuffle {
        let lead: Vec<usize> = (0..nt.min(n)).collect();
        let rest: Vec<usize> = (nt.min(n)..n).collect();
        c.check("tts.ordered-leading", pte == lead && ptr == rest, &sg, || clip(format!("shuffle off, n = {}, n_test = {}: test positions {:?}, train positions {:?}", n, nt, pte, ptr)));
    } else {
        let all: Vec<usize> = pte.iter().chain(ptr.iter()).cloned().collect();
        c.bucket(if all.windows(2).all(|w| w[0] < w[1]) { "obs:shuffle-left-order-unchanged" } else { "obs:shuffle-changed-order" });
    }
}

fn tts(c: &mut Case) {
    let n = match c.rng.below(4) {
        0 => c.rng.us(1, 12),
        1 => c.rng.us(13, 64),
        2 => c.rng.us(65, 400),
        _ => c.rng.us(1, 100),
    };
    let d = Data::draw(&mut c.rng, n);
    let (ts, kind) = match draw_test_size(c, n) {
        Some(x) => x,
        None => {
            c.skip("no test_size with integer part of n*test_size >= 1 drawn");
            return;
        }
    };
    let shuffle = c.rng.bool(0.5);
    let which = c.rng.below(BACKENDS);
    c.describe(json!({"api": "train_test_split", "n": n, "p": d.p, "test_size": ts, "test_size_bits": ts.to_bits(), "test_size_kind": kind, "shuffle": shuffle, "backend": backend_name(which), "ids": d.ids}));
    if n >= 2 {
        c.nontrivial();
    }
    c.bucket(&format!("test_size:{}", kind));
    c.bucket(if shuffle { "shuffle:on" } else { "shuffle:off" });
    // the single-precision product differs from the double-precision one exactly at these inputs
    c.bucket_if(n_test_f32(n, ts) != (n as f64 * ts as f64) as usize, "tts:f32-product-differs-from-f64");
    match which {
        0 => tts_case::<f64, DenseMatrix<f64>>(c, &d, ts, shuffle, "dense-f64"),
        1 => tts_case::<f32, DenseMatrix<f32>>(c, &d, ts, shuffle, "dense-f32"),
        2 => tts_case::<f64, ndarray::Array2<f64>>(c, &d, ts, shuffle, "ndarray-f64"),
        3 => tts_case::<f32, ndarray::Array2<f32>>(c, &d, ts, shuffle, "ndarray-f32"),
        4 => tts_case::<f64, nalgebra::DMatrix<f64>>(c, &d, ts, shuffle, "nalgebra-f64"),
        _ => tts_case::<f32, nalgebra::DMatrix<f32>>(c, &d, ts, shuffle, "nalgebra-f32"),
    }
}

/// parameter builders keep every configured value whatever the order of the `with_*` steps
fn builders_fam(c: &mut Case) {
    scverif::builders::case(c, "C16")
}

fn main() {
    runner::main(Spec {
        property: "C16",
        rule: "kfold_grid / cv_grid enumerate every (n,k) with 2<=k<=n<=64 once, shuffle off (index -> (n,k)); kfold_shuffle / cv_shuffle map index mod 2016 -> (n,k) with shuffle on, so every (n,k) is visited once in the quick tier and 10 times in the thorough tier; a kfold_shuffle case draws the library's unseeded permutation 20 (quick) / 25 (thorough) times, i.e. >= 20 / 250 draws per (n,k); a cv_shuffle case runs cross_validate and cross_val_predict 3 times each; kfold_large / cv_large sample 65<=n<=400 (300), k in {2, n, small, uniform}; tts samples n in 1..400, test_size in (0,1] from seven generators (uniform, common fractions, j/n, j/n +- 1 ulp, j/n +- 1e-7, exactly 1, log-uniform) re-drawn until the integer part of n*test_size in f32 is >= 1, shuffle on/off, six matrix backends. Rows carry a unique id (1..999, unrelated to position) in column 0, the other columns and the target are functions of the id. Every k-fold / cross-validation case is non-trivial (n>=k>=2); a train_test_split case is non-trivial when n>=2. Distinct = distinct hash of the case description (for shuffled k-fold cases including the first observed permutation).",
        assumptions: vec![
            "the library's shuffles use an unseeded thread_rng: replays of shuffled cases re-draw the permutation; the violation detail carries the observed folds",
            "fold order, the order of indices inside a fold, which folds get the extra sample and the order of the reported scores are left open by the statement and only recorded as observations (obs:*)",
            "with shuffle off the folds used by cross_validate / cross_val_predict are compared with an independent call of KFold::split on the same matrix; with shuffle on only the structural clauses (k fits, partition, balance, complement, out-of-fold) are checkable",
            "cv_grid is exhaustive over (n,k) for DenseMatrix<f64>; the second backend and the row ids are drawn (the code under test never inspects values)",
            "the expected test count is evaluated by the harness as the IEEE single-precision product (exact f64 product rounded to f32), truncated",
        ],
        families: vec![
            Family::new("builders", 300, 3000, builders_fam),
            Family::new("kfold_grid", GRID, GRID, kfold_grid).exhaustive(true, true),
            Family::new("kfold_shuffle", GRID, 10 * GRID, kfold_shuffle),
            Family::new("kfold_shuffle_support", 30, 300, kfold_shuffle_support),
            Family::new("kfold_large", 400, 4000, kfold_large),
            Family::new("cv_grid", GRID, GRID, cv_grid).exhaustive(true, true),
            Family::new("cv_shuffle", GRID, 10 * GRID, cv_shuffle),
            Family::new("cv_large", 200, 2000, cv_large),
            Family::new("cvp_partial", 300, 3000, cvp_partial),
            Family::new("tts", 8000, 150000, tts),
        ],
        min_nontrivial: 2500,
        case_timeout_s: 120,
    });
}
