//! C14 — PCA and truncated SVD yield orthonormal, variance-ordered, optimal projections.
//!
//! Only subspace-invariant quantities are compared (orthonormality, captured variance, decorrelation,
//! ordering, the affine form of `transform`); individual component directions / signs never are.
//!
//! Oracle decomposition (sound with respect to floating point):
//!  (a) `transform(X)` equals the affine map (X − mean)·P (resp. X·C) of the returned components, entry-wise,
//!      to backward-error accuracy relative to Σ(|x|+mean|x|)·|P| (the quantity the computation X·P − meanᵀP
//!      is conditioned on; large means make T itself inaccurate relative to the spread, not relative to this);
//!  (b) all statistical clauses (zero mean, decorrelation, ordering, captured variance == sum of the k largest
//!      eigenvalues) are evaluated in f64 on T_ref = (X − mean)·P with the exact mean of the rounded input,
//!      relative to the total variance;
//!  (c) the column means of the library's own T are zero relative to the scale of (a).
#![allow(non_snake_case)]
use scverif::gen::*;
use scverif::refla::*;
use scverif::*;
use smartcore::decomposition::pca::{PCAParameters, PCA};
use smartcore::decomposition::svd::{SVDParameters, SVD};
use smartcore::linalg::naive::dense_matrix::DenseMatrix;
use smartcore::math::num::RealNumber;

// ---------------------------------------------------------------- tolerances
/// orthonormality: ‖PᵀP − I‖_F ≤ 1e3·p·ε
fn tau_orth<T: RealNumber>(p: usize) -> f64 {
    1e3 * p as f64 * eps::<T>()
}
/// affine form of transform / stacking, relative to Σ_l(|x_il|+mean_i|x_il|)|P_lj| per entry; the worst-case rounding bound
/// of (column mean, matmul, projected mean, subtraction) is (n+p+2)·ε times that scale
fn tau_aff<T: RealNumber>(n: usize, p: usize) -> f64 {
    1e3 * (n + p) as f64 * eps::<T>()
}
/// statistical clauses, relative to the total variance (resp. ‖X‖_F² for the truncated SVD)
fn tau_stat<T: RealNumber>() -> f64 {
    if width::<T>() == "f32" {
        2e-3
    } else {
        1e-9
    }
}

// ---------------------------------------------------------------- data
struct Data {
    x: Mat, // already rounded to T
    kind: String,
    class: &'static str, // general | rankdef | degenerate | grid
    scale: f64,
    mean_mag: f64,
}

fn hadamard_entry(i: usize, j: usize) -> f64 {
    if (i & j).count_ones() % 2 == 0 {
        1.0
    } else {
        -1.0
    }
}

/// n×p base data with O(1) column spread and (roughly) zero mean; may change n for kinds with a fixed design
fn base_matrix(rng: &mut Rng, n: usize, p: usize) -> (Mat, &'static str) {
    // the kinds built from an n×n orthogonal factor are cubic in n: not for the `large` family
    let kind = if scverif::big() > 0 { *rng.pick(&[0, 1, 3, 4, 6]) } else { rng.below(8) };
    match kind {
        0 => {
            let g = Mat::randn(rng, n, p);
            let m = Mat::randn(rng, p, p);
            (g.mul(&m), "gauss-mix")
        }
        1 => {
            // equicorrelated columns: one common factor
            let rho: f64 = *rng.pick(&[0.3, 0.9, 0.999, 0.999999]);
            let f: Vec<f64> = rng.normal_vec(n);
            (Mat::from_fn(n, p, |i, _| rho.sqrt() * f[i] + (1.0 - rho).sqrt() * rng.normal()), "common-factor")
        }
        2 => {
            let mc = 10f64.powi(rng.int(0, 8) as i32);
            (design(rng, n, p, mc, 1.0, 1.0, 0.0), "design")
        }
        3 => (Mat::from_fn(n, p, |_, _| rng.int(-9, 9) as f64), "integer"),
        4 => {
            let r = rng.us(1, p);
            let f = Mat::randn(rng, n, r);
            let l = Mat::randn(rng, r, p);
            let sigma = *rng.pick(&[1e-1, 1e-3, 1e-6]);
            let e = Mat::randn(rng, n, p).scale(sigma);
            (f.mul(&l).add(&e), "factor+noise")
        }
        5 => {
            // clustered / repeated singular values of the (uncentred) base
            let k = n.min(p);
            let mut s = graded(k, rng.logu(1.0, 1e6));
            for i in 1..k {
                if rng.bool(0.5) {
                    s[i] = s[i - 1];
                }
            }
            (with_singular_values(rng, n, p, &s).scale((n as f64).sqrt()), "clustered-sv")
        }
        6 if n >= 6 => (Mat::from_fn(n, p, |_, _| if rng.bool(0.5) { 1.0 } else { 0.0 }), "binary"),
        7 if n > p => {
            // Sylvester–Hadamard columns: centred, mutually orthogonal, equal norms -> exactly repeated
            // eigenvalues of the covariance (multipliers from a small set)
            let mut h = 4;
            while h <= p || (h < n && h < 64) {
                h *= 2;
            }
            let mut cols: Vec<usize> = (1..h).collect();
            rng.shuffle(&mut cols);
            cols.truncate(p);
            let mult: Vec<f64> = (0..p).map(|_| *rng.pick(&[1.0, 1.0, 2.0, 3.0])).collect();
            (Mat::from_fn(h, p, |i, j| mult[j] * hadamard_entry(i, cols[j])), "hadamard")
        }
        _ => (Mat::randn(rng, n, p), "gauss"),
    }
}

fn round_to<T: RealNumber>(m: Mat) -> Mat {
    if width::<T>() == "f32" {
        m.round_f32()
    } else {
        m
    }
}

fn overall_scale<T: RealNumber>(rng: &mut Rng) -> f64 {
    let s = draw_scale(rng);
    if width::<T>() == "f32" && !(1e-6..=1e6).contains(&s) {
        1.0
    } else {
        s
    }
}

/// column scales, (large) column means, overall rescaling, rounding to T
fn dress<T: RealNumber>(rng: &mut Rng, base: &Mat) -> (Mat, f64, f64) {
    let f32w = width::<T>() == "f32";
    let p = base.c;
    let hi = if f32w { 1e2 } else { 1e3 };
    let cs: Vec<f64> = if rng.bool(0.6) { (0..p).map(|_| rng.logu(1e-2, hi)).collect() } else { vec![1.0; p] };
    let mm: f64 = if f32w { *rng.pick(&[0.0, 1.0, 10.0]) } else { *rng.pick(&[0.0, 1.0, 1e2, 1e4, 1e6]) };
    let means: Vec<f64> = (0..p).map(|j| if mm > 0.0 { rng.normal() * mm * cs[j] } else { 0.0 }).collect();
    let scale = overall_scale::<T>(rng);
    let x = Mat::from_fn(base.r, p, |i, j| (base.at(i, j) * cs[j] + means[j]) * scale);
    (round_to::<T>(x), scale, mm)
}

/// (n, p): 2 ≤ n ≤ 80, pmin ≤ p ≤ 8; n ≤ p (covariance/EVD path) with probability 0.4 when p ≥ 2
fn draw_shape(rng: &mut Rng, pmin: usize) -> (usize, usize) {
    let p = rng.us(pmin, 8);
    // the `large` family: more than a thousand rows
    if scverif::big() > 0 {
        return (rng.us(1025, 2600), p);
    }
    if p >= 2 && rng.bool(0.4) {
        (rng.us(2, p), p)
    } else {
        (p + size(rng, 80 - p), p)
    }
}

fn general_data<T: RealNumber>(c: &mut Case, pmin: usize) -> Data {
    let (n, p) = draw_shape(&mut c.rng, pmin);
    let (base, kind) = base_matrix(&mut c.rng, n, p);
    let (x, scale, mm) = dress::<T>(&mut c.rng, &base);
    Data { x, kind: kind.to_string(), class: "general", scale, mean_mag: mm }
}

/// exactly rank-deficient / degenerate data (p ≥ 2). `stat` = the statistic is taken after centring (PCA):
/// then integer column means may be added without destroying the deficiency. `degenerate` allows
/// zero-variance columns / identical rows (not meaningful for the correlation mode).
fn rankdef_data<T: RealNumber>(c: &mut Case, stat: bool, degenerate: bool) -> Data {
    let f32w = width::<T>() == "f32";
    let (n, p) = draw_shape(&mut c.rng, 2);
    let pick = c.rng.below(if degenerate { 4 } else { 2 });
    match pick {
        0 => {
            // r independent dressed columns, the others bit-exact copies
            let r = c.rng.us(1, p - 1);
            let (base, kind) = base_matrix(&mut c.rng, n, r);
            let (xr, scale, mm) = dress::<T>(&mut c.rng, &base);
            let mut src: Vec<usize> = (0..p).map(|j| if j < r { j } else { c.rng.below(r) }).collect();
            c.rng.shuffle(&mut src);
            let x = Mat::from_fn(xr.r, p, |i, j| xr.at(i, src[j]));
            Data { x, kind: format!("dup-columns({})", kind), class: "rankdef", scale, mean_mag: mm }
        }
        1 => {
            // A = B·[I | C] in small integers (exact), columns permuted, integer means, power-of-two scale
            let r = c.rng.us(1, p - 1);
            let off = if stat { 0 } else { c.rng.int(0, 3) };
            let b = Mat::from_fn(n, r, |_, _| (c.rng.int(-4, 4) + off) as f64);
            let mut cc = Mat::from_fn(r, p - r, |_, _| c.rng.int(-2, 2) as f64);
            for j in 0..p - r {
                if (0..r).all(|i| cc.at(i, j) == 0.0) {
                    let i = c.rng.below(r);
                    cc.set(i, j, if c.rng.bool(0.5) { 1.0 } else { -1.0 });
                }
            }
            let a = b.mul(&Mat::eye(r).hstack(&cc));
            let perm = c.rng.perm(p);
            let mm: f64 = if !stat {
                0.0
            } else if f32w {
                *c.rng.pick(&[0.0, 10.0, 100.0])
            } else {
                *c.rng.pick(&[0.0, 10.0, 1e3, 1e6])
            };
            let means: Vec<f64> = (0..p).map(|_| (c.rng.normal() * mm).round()).collect();
            let u = if f32w { c.rng.int(-16, 16) } else { c.rng.int(-39, 39) };
            let scale = if c.rng.bool(0.5) { 1.0 } else { 2f64.powi(u as i32) };
            let x = Mat::from_fn(n, p, |i, j| (a.at(i, perm[j]) + means[j]) * scale);
            Data { x: round_to::<T>(x), kind: "integer-lincomb".into(), class: "rankdef", scale, mean_mag: mm }
        }
        2 => {
            // some columns constant (zero variance); value 0 makes the raw matrix rank-deficient as well
            let (base, kind) = base_matrix(&mut c.rng, n, p);
            let (mut x, scale, mm) = dress::<T>(&mut c.rng, &base);
            let nconst = c.rng.us(1, p - 1);
            let cols = c.rng.perm(p);
            for &j in cols.iter().take(nconst) {
                let v = if c.rng.bool(0.5) { 0.0 } else { x.at(0, j) };
                for i in 0..x.r {
                    x.set(i, j, v);
                }
            }
            Data { x, kind: format!("constant-columns({})", kind), class: "degenerate", scale, mean_mag: mm }
        }
        _ => {
            // all rows identical: zero total variance, raw rank 1
            let (base, _) = base_matrix(&mut c.rng, n, p);
            let (x0, scale, mm) = dress::<T>(&mut c.rng, &base);
            let x = Mat::from_fn(x0.r, p, |_, j| x0.at(0, j));
            Data { x, kind: "identical-rows".into(), class: "degenerate", scale, mean_mag: mm }
        }
    }
}

fn describe<T: RealNumber>(c: &mut Case, what: &str, d: &Data) {
    c.describe(json!({"op": what, "width": width::<T>(), "kind": d.kind, "class": d.class, "scale": d.scale,
        "mean_mag": d.mean_mag, "X": mat_json(&d.x)}));
    c.hash_f64s(&d.x.d);
    c.hash_f64s(&[d.x.r as f64, if width::<T>() == "f32" { 1.0 } else { 2.0 }, (scverif::rng::hash_str(what) % 1000003) as f64]);
    c.bucket(&format!("width:{}", width::<T>()));
    c.bucket(&format!("kind:{}", d.kind.split('(').next().unwrap_or("")));
    c.bucket(&format!("scale:{}", scale_class(d.scale)));
    c.bucket(&format!("mean/spread:{:e}", d.mean_mag));
    c.bucket(if d.x.r > d.x.c { "shape:n>p" } else { "shape:n<=p" });
    c.bucket(&format!("p:{}", d.x.c));
    c.bucket_if(d.x.r == 2, "n:2");
    c.bucket_if(d.x.r > 40, "n:>40");
}

fn col_mean(m: &Mat) -> Vec<f64> {
    (0..m.c).map(|j| mean_v(&m.col(j))).collect()
}

fn abs(m: &Mat) -> Mat {
    Mat { r: m.r, c: m.c, d: m.d.iter().map(|v| v.abs()).collect() }
}

/// max_ij |a − b|_ij / e_ij (0/0 = 0, x/0 = inf)
fn max_rel(a: &Mat, b: &Mat, e: &Mat) -> f64 {
    let mut w = 0.0f64;
    for i in 0..a.d.len() {
        let d = (a.d[i] - b.d[i]).abs();
        let r = if d == 0.0 {
            0.0
        } else if e.d[i] > 0.0 {
            d / e.d[i]
        } else {
            f64::INFINITY
        };
        if !(r <= w) {
            w = r; // also propagates NaN
        }
    }
    w
}

/// rows for the stacking clause: a few unseen rows (perturbed / mixed training rows) and a few training rows
fn stack_parts<T: RealNumber>(rng: &mut Rng, x: &Mat) -> (Mat, Mat) {
    let (n, p) = (x.r, x.c);
    let na = rng.us(1, 3);
    let a = Mat::from_fn(na, p, |_, j| {
        let (i1, i2) = (rng.below(n), rng.below(n));
        let w = rng.uni(-0.5, 1.5);
        w * x.at(i1, j) + (1.0 - w) * x.at(i2, j)
    });
    let nb = rng.us(1, 3);
    let rows: Vec<usize> = (0..nb).map(|_| rng.below(n)).collect();
    let b = Mat::from_fn(nb, p, |i, j| x.at(rows[i], j));
    (round_to::<T>(a), b)
}

// ---------------------------------------------------------------- PCA
struct PcaRef {
    mu: Vec<f64>,
    xc: Mat,      // X − mean (f64, exact mean of the rounded input)
    sd: Vec<f64>, // population standard deviations (all 1 in covariance mode)
    lam: Vec<f64>, // eigenvalues (descending) of the sample covariance of X resp. of the standardised X (normaliser 1/n)
    trace: f64,
    floor: f64, // second-order effect of the rounding error of the library's column means on the covariance
}

/// None => case finished (skipped / inconclusive)
fn pca_reference<T: RealNumber>(c: &mut Case, x: &Mat, corr: bool) -> Option<PcaRef> {
    let (n, p) = (x.r, x.c);
    let nn = n as f64;
    let e = eps::<T>();
    let mu = col_mean(x);
    let xc = Mat::from_fn(n, p, |i, j| x.at(i, j) - mu[j]);
    let amax: Vec<f64> = (0..p).map(|j| x.col(j).iter().fold(0.0f64, |m, v| m.max(v.abs()))).collect();
    let var: Vec<f64> = (0..p).map(|j| dotv(&xc.col(j), &xc.col(j)) / nn).collect();
    let sd: Vec<f64> = if corr { var.iter().map(|v| v.sqrt()).collect() } else { vec![1.0; p] };
    if corr && (0..p).any(|j| !(sd[j] > 100.0 * nn * e * amax[j])) {
        c.skip("correlation mode: a column has (numerically) zero variance, the standardised data are undefined");
        return None;
    }
    let z = Mat::from_fn(n, p, |i, j| xc.at(i, j) / sd[j]);
    let s = z.t().mul(&z).scale(1.0 / nn);
    let trace: f64 = (0..p).map(|j| s.at(j, j)).sum();
    let floor: f64 = (0..p).map(|j| (nn * e * amax[j] / sd[j]).powi(2)).sum();
    let (lam, v) = jacobi_eig(&s);
    // self-certification of the reference: eigen-residual, and agreement with an independent one-sided
    // Jacobi SVD of the centred data (σ²/n)
    let vl = Mat::from_fn(p, p, |i, j| v.at(i, j) * lam[j]);
    let res = s.mul(&v).sub(&vl).fro();
    let sv = singular_values(&z);
    let mut dmax = 0.0f64;
    for j in 0..p {
        let l2 = if j < sv.len() { sv[j] * sv[j] / nn } else { 0.0 };
        dmax = dmax.max((l2 - lam[j]).abs());
    }
    if !(res <= 1e-12 * s.fro() && v.orth_err() <= 1e-12 && dmax <= 1e-12 * trace) {
        c.inconclusive("reference eigen-decomposition of the covariance could not certify itself");
        return None;
    }
    let tiny = 1e-20 * lam[0];
    c.bucket_if(lam[p - 1] <= tiny && lam[0] > 0.0, "pca:rank-deficient-covariance");
    c.bucket_if(lam.windows(2).any(|w| w[0] > tiny && (w[0] - w[1]).abs() <= 1e-12 * lam[0]), "pca:repeated-nonzero-eigenvalue");
    c.bucket_if(lam[0] > 0.0 && lam[p - 1] > tiny && lam[p - 1] < 1e-10 * lam[0], "pca:ill-conditioned-covariance");
    c.bucket_if(!(trace > 0.0), "pca:zero-total-variance");
    Some(PcaRef { mu, xc, sd, lam, trace, floor })
}

fn check_pca<T: RealNumber>(c: &mut Case, d: &Data, corr: bool) {
    let idx = c.index;
    let x = &d.x;
    let (n, p) = (x.r, x.c);
    let nn = n as f64;
    let mode = if corr { "corr" } else { "cov" };
    let path = if n > p && !corr { "svd-path" } else { "evd-path" };
    let sg = format!("{}/{}/{}/{}/{}", width::<T>(), mode, path, d.class, scale_class(d.scale));
    c.bucket(&format!("pca:{}/{}", mode, path));
    let r = match pca_reference::<T>(c, x, corr) {
        Some(r) => r,
        None => return,
    };
    if r.trace > 0.0 {
        c.nontrivial();
    }
    let xm: DenseMatrix<T> = to_dense(x);
    let absx = abs(x);
    // the rounding error of a computed column mean is bounded by n·ε·mean_i|x_ij| (not by ε·|mean_j|: the
    // mean of a column that sums to ~0 has no relative accuracy), so mean|x| is the scale of the mean term
    let absmu = Mat::from_fn(1, p, |_, j| mean_v(&absx.col(j)));
    let (ta, to, ts) = (tau_aff::<T>(n, p), tau_orth::<T>(p), tau_stat::<T>());
    for k in 1..=p {
        let params = PCAParameters::default().with_n_components(k).with_use_correlation_matrix(corr);
        let pca: PCA<T, DenseMatrix<T>> = match c.must("PCA::fit", || PCA::fit(&xm, scverif::reused(idx, params))) {
            Some(Ok(m)) => {
                c.check("pca.fit-ok", true, &sg, String::new);
                m
            }
            Some(Err(e)) => {
                c.check("pca.fit-ok", false, &sg, || format!("PCA::fit returned Err({}) for n={} p={} k={}", e, n, p, k));
                continue;
            }
            None => continue,
        };
        let P = from_m(pca.components());
        if !c.check("pca.components-shape", (P.r, P.c) == (p, k), &sg, || format!("components() is {}x{}, expected {}x{}", P.r, P.c, p, k)) {
            continue;
        }
        let Tm = match c.must("PCA::transform", || pca.transform(&xm)) {
            Some(Ok(t)) => from_m(&t),
            Some(Err(e)) => {
                c.check("pca.transform-ok", false, &sg, || format!("transform(training data) returned Err({})", e));
                continue;
            }
            None => continue,
        };
        if !c.check("pca.transform-shape", (Tm.r, Tm.c) == (n, k), &sg, || format!("transform is {}x{}, expected {}x{}", Tm.r, Tm.c, n, k)) {
            continue;
        }
        if !c.check("pca.finite", P.all_finite() && Tm.all_finite(), &sg, || format!("non-finite entry in components() or transform(X), k={}", k)) {
            continue;
        }
        // ---- orthonormality (correlation mode: in the coordinates of the standardised data; the statement
        // does not fix the normaliser of the standard deviation, both conventions are accepted)
        let W0 = Mat::from_fn(p, k, |i, j| r.sd[i] * P.at(i, j));
        let mut conv = 1.0;
        let mut oerr = W0.orth_err();
        if corr {
            let f = (nn - 1.0) / nn;
            let e2 = W0.scale((1.0 / f).sqrt()).orth_err();
            if e2 < oerr {
                oerr = e2;
                conv = f;
                c.bucket("pca:corr-uses-sample-sd");
            }
        }
        // correlation mode: the library standardises with its own column means / deviations, whose relative
        // rounding error is eps * mean|x_j| / sd_j (large column means); that conditioning of the input enters
        // the column norms of W
        let to_k = if corr { to + 32.0 * eps::<T>() * (0..p).map(|j| if r.sd[j] > 0.0 { absmu.at(0, j) / r.sd[j] } else { 0.0 }).fold(0.0f64, f64::max) } else { to };
        c.ratio("pca.orthonormal", oerr, to_k, &sg, || format!("‖WᵀW − I‖_F, W = projection in the coordinates of the {} data, k={}", if corr { "standardised" } else { "centred" }, k));
        // ---- (a) transform is the affine map x -> (x − mean)·P
        let tref = r.xc.mul(&P);
        let absP = abs(&P);
        let mp = absmu.mul(&absP);
        let e_aff = {
            let xp = absx.mul(&absP);
            Mat::from_fn(n, k, |i, j| xp.at(i, j) + mp.at(0, j))
        };
        c.ratio("pca.transform=affine", max_rel(&Tm, &tref, &e_aff), ta, &sg, || format!("max |T − (X−mean)·P| / Σ(|x|+mean|x|)|P|, k={}", k));
        // ---- (c) zero column means of the library's T
        let mut zm = 0.0f64;
        for j in 0..k {
            let m = mean_v(&Tm.col(j)).abs();
            let sc = (0..n).map(|i| e_aff.at(i, j)).fold(0.0f64, f64::max);
            let q = if m == 0.0 { 0.0 } else if sc > 0.0 { m / sc } else { f64::INFINITY };
            zm = zm.max(q);
        }
        c.ratio("pca.zero-mean", zm, ta, &sg, || format!("max_j |mean_j(T)| / max_i Σ(|x|+mean|x|)|P|, k={}", k));
        // ---- (b) statistics of T_ref relative to the total variance
        let tm = col_mean(&tref);
        let tc = Mat::from_fn(n, k, |i, j| tref.at(i, j) - tm[j]);
        let ct = tc.t().mul(&tc).scale(1.0 / nn);
        let trace = r.trace * conv;
        let thr = ts * trace + 2.0 * r.floor;
        let mut off = 0.0f64;
        let mut inc = 0.0f64;
        let mut cap = 0.0f64;
        for i in 0..k {
            cap += ct.at(i, i);
            if i + 1 < k {
                inc = inc.max(ct.at(i + 1, i + 1) - ct.at(i, i));
            }
            for j in 0..i {
                off = off.max(ct.at(i, j).abs());
            }
        }
        let best: f64 = r.lam.iter().take(k).sum::<f64>() * conv;
        c.ratio("pca.decorrelated", off, thr, &sg, || format!("largest |cov(T_i,T_j)|, i≠j, vs τ·total variance {:e}, k={}", trace, k));
        c.ratio("pca.variance-order", inc, thr, &sg, || format!("largest increase var(T_j+1) − var(T_j) vs τ·total variance {:e}; variances {:?}", trace, (0..k).map(|i| ct.at(i, i)).collect::<Vec<_>>()));
        c.ratio("pca.captured-variance", (cap - best).abs(), thr, &sg, || {
            format!("Σ_j var(T_j) = {:e} vs sum of the {} largest eigenvalues = {:e} (all eigenvalues {:?})", cap, k, best, r.lam.iter().map(|l| l * conv).collect::<Vec<_>>())
        });
        c.bucket_if(k == p, "pca:k=p");
        c.bucket_if(k < p && r.lam[k - 1] > 0.0 && (r.lam[k - 1] - r.lam[k]).abs() <= 1e-12 * r.lam[0], "pca:cut-inside-repeated-eigenvalue");
        // ---- stacking: transform([A;B]) == [transform(A); transform(B)], and (a) on unseen rows
        let (a, b) = stack_parts::<T>(&mut c.rng, x);
        let ab = a.vstack(&b);
        let (am, bm, abm): (DenseMatrix<T>, DenseMatrix<T>, DenseMatrix<T>) = (to_dense(&a), to_dense(&b), to_dense(&ab));
        let tr = c.must("PCA::transform(stack)", || (pca.transform(&am), pca.transform(&bm), pca.transform(&abm)));
        let blocks = match tr {
            Some((Ok(t1), Ok(t2), Ok(t12))) => Some((from_m(&t1), from_m(&t2), from_m(&t12))),
            Some(_) => {
                c.check("pca.transform-ok", false, &sg, || "transform of a block of rows returned Err".into());
                None
            }
            None => None,
        };
        if let Some((t1, t2, t12)) = blocks {
            if c.check("pca.stack-shape", (t1.r, t1.c, t2.r, t2.c, t12.r, t12.c) == (a.r, k, b.r, k, ab.r, k), &sg, || "shape of a transformed block".into()) {
                let st = t1.vstack(&t2);
                let e_st = {
                    let xp = abs(&ab).mul(&absP);
                    Mat::from_fn(ab.r, k, |i, j| xp.at(i, j) + mp.at(0, j))
                };
                c.bucket_if(st == t12, "stack:bit-identical");
                c.ratio("pca.stacking", max_rel(&t12, &st, &e_st), ta, &sg, || format!("transform([A;B]) vs [transform(A);transform(B)], k={}", k));
                let abc = Mat::from_fn(ab.r, p, |i, j| ab.at(i, j) - r.mu[j]);
                c.ratio("pca.transform=affine(unseen)", max_rel(&t12, &abc.mul(&P), &e_st), ta, &sg, || format!("rows not in the training set, k={}", k));
            }
        }
    }
}

// ---------------------------------------------------------------- truncated SVD
fn check_tsvd<T: RealNumber>(c: &mut Case, d: &Data) {
    let x = &d.x;
    let (n, p) = (x.r, x.c);
    let sg = format!("{}/{}/{}/{}", width::<T>(), if n >= p { "n>=p" } else { "n<p" }, d.class, scale_class(d.scale));
    c.bucket(if n >= p { "tsvd:n>=p" } else { "tsvd:n<p" });
    let xm: DenseMatrix<T> = to_dense(x);
    // k = p (and beyond) is rejected with Err, not with a panic
    for k in [p, p + 1] {
        if let Some(r) = c.must("SVD::fit(k>=p)", || SVD::fit(&xm, SVDParameters::default().with_n_components(k)).map(|_| ())) {
            c.check("tsvd.rejects-k>=p", r.is_err(), &sg, || format!("SVD::fit accepted n_components={} for p={}", k, p));
        }
    }
    if p < 2 {
        return;
    }
    // reference singular values; certified by Σσ² = ‖X‖_F² and the eigenvalues of XᵀX
    let fro2 = dotv(&x.d, &x.d);
    let mut sv = singular_values(x);
    sv.resize(p, 0.0);
    let (lam, _) = jacobi_eig(&x.t().mul(x));
    let ssum: f64 = sv.iter().map(|s| s * s).sum();
    let dmax = (0..p).map(|j| (sv[j] * sv[j] - lam[j]).abs()).fold(0.0f64, f64::max);
    if !((ssum - fro2).abs() <= 1e-12 * fro2 && dmax <= 1e-12 * fro2) {
        c.inconclusive("reference singular values could not certify themselves");
        return;
    }
    if fro2 > 0.0 {
        c.nontrivial();
    }
    let s2: Vec<f64> = sv.iter().map(|s| s * s).collect();
    let tiny = 1e-20 * s2[0];
    c.bucket_if(s2[p - 1] <= tiny && fro2 > 0.0, "tsvd:rank-deficient");
    c.bucket_if(s2.windows(2).any(|w| w[0] > tiny && (w[0] - w[1]).abs() <= 1e-12 * s2[0]), "tsvd:repeated-nonzero-singular-value");
    let absx = abs(x);
    let (ta, to, ts) = (tau_aff::<T>(n, p), tau_orth::<T>(p), tau_stat::<T>());
    for k in 1..p {
        let svd: SVD<T, DenseMatrix<T>> = match c.must("SVD::fit", || SVD::fit(&xm, SVDParameters::default().with_n_components(k))) {
            Some(Ok(m)) => {
                c.check("tsvd.fit-ok", true, &sg, String::new);
                m
            }
            Some(Err(e)) => {
                c.check("tsvd.fit-ok", false, &sg, || format!("SVD::fit returned Err({}) for n={} p={} k={}", e, n, p, k));
                continue;
            }
            None => continue,
        };
        let C = from_m(svd.components());
        if !c.check("tsvd.components-shape", (C.r, C.c) == (p, k), &sg, || format!("components() is {}x{}, expected {}x{}", C.r, C.c, p, k)) {
            continue;
        }
        let Tm = match c.must("SVD::transform", || svd.transform(&xm)) {
            Some(Ok(t)) => from_m(&t),
            Some(Err(e)) => {
                c.check("tsvd.transform-ok", false, &sg, || format!("transform(training data) returned Err({})", e));
                continue;
            }
            None => continue,
        };
        if !c.check("tsvd.transform-shape", (Tm.r, Tm.c) == (n, k), &sg, || format!("transform is {}x{}", Tm.r, Tm.c)) {
            continue;
        }
        if !c.check("tsvd.finite", C.all_finite() && Tm.all_finite(), &sg, || format!("non-finite entry in components() or transform(X), k={}", k)) {
            continue;
        }
        c.ratio("tsvd.orthonormal", C.orth_err(), to, &sg, || format!("‖CᵀC − I‖_F, k={}", k));
        let xc = x.mul(&C);
        let absC = abs(&C);
        c.ratio("tsvd.transform=XC", max_rel(&Tm, &xc, &absx.mul(&absC)), ta, &sg, || format!("max |T − X·C| / Σ|x||C|, k={}", k));
        // energy of X·C and singular-vector structure (XC)ᵀ(XC) = diag(σ_1²..σ_k²), relative to ‖X‖_F²
        let g = xc.t().mul(&xc);
        let thr = ts * fro2;
        let cap: f64 = (0..k).map(|j| g.at(j, j)).sum();
        let best: f64 = s2.iter().take(k).sum();
        c.ratio("tsvd.captured-energy", (cap - best).abs(), thr, &sg, || format!("‖X·C‖_F² = {:e} vs Σ of the {} largest σ² = {:e} (σ² = {:?})", cap, k, best, s2));
        let mut dev = 0.0f64;
        for i in 0..k {
            dev = dev.max((g.at(i, i) - s2[i]).abs());
            for j in 0..i {
                dev = dev.max(g.at(i, j).abs());
            }
        }
        c.ratio("tsvd.leading-singular-vectors", dev, thr, &sg, || format!("largest entry of (XC)ᵀ(XC) − diag(σ_1²..σ_k²) vs τ‖X‖_F² = {:e}, k={}", thr, k));
        c.bucket_if(k > n, "tsvd:k>n");
        c.bucket_if(s2[k - 1] > 0.0 && (s2[k - 1] - s2[k]).abs() <= 1e-12 * s2[0], "tsvd:cut-inside-repeated-singular-value");
        // stacking
        let (a, b) = stack_parts::<T>(&mut c.rng, x);
        let ab = a.vstack(&b);
        let (am, bm, abm): (DenseMatrix<T>, DenseMatrix<T>, DenseMatrix<T>) = (to_dense(&a), to_dense(&b), to_dense(&ab));
        let tr = c.must("SVD::transform(stack)", || (svd.transform(&am), svd.transform(&bm), svd.transform(&abm)));
        let blocks = match tr {
            Some((Ok(t1), Ok(t2), Ok(t12))) => Some((from_m(&t1), from_m(&t2), from_m(&t12))),
            Some(_) => {
                c.check("tsvd.transform-ok", false, &sg, || "transform of a block of rows returned Err".into());
                None
            }
            None => None,
        };
        if let Some((t1, t2, t12)) = blocks {
            if c.check("tsvd.stack-shape", (t1.r, t1.c, t2.r, t2.c, t12.r, t12.c) == (a.r, k, b.r, k, ab.r, k), &sg, || "shape of a transformed block".into()) {
                let st = t1.vstack(&t2);
                let e_st = abs(&ab).mul(&absC);
                c.bucket_if(st == t12, "stack:bit-identical");
                c.ratio("tsvd.stacking", max_rel(&t12, &st, &e_st), ta, &sg, || format!("transform([A;B]) vs [transform(A);transform(B)], k={}", k));
                c.ratio("tsvd.transform=XC(unseen)", max_rel(&t12, &ab.mul(&C), &e_st), ta, &sg, || format!("rows not in the training set, k={}", k));
            }
        }
    }
}

// ---------------------------------------------------------------- families
fn pca_cov_t<T: RealNumber>(c: &mut Case) {
    let d = general_data::<T>(c, 1);
    describe::<T>(c, "pca-cov", &d);
    check_pca::<T>(c, &d, false);
}

fn pca_corr_t<T: RealNumber>(c: &mut Case) {
    let d = general_data::<T>(c, 1);
    describe::<T>(c, "pca-corr", &d);
    check_pca::<T>(c, &d, true);
}

fn pca_rankdef_t<T: RealNumber>(c: &mut Case) {
    let corr = c.rng.bool(0.4);
    let d = rankdef_data::<T>(c, true, !corr);
    describe::<T>(c, if corr { "pca-corr" } else { "pca-cov" }, &d);
    check_pca::<T>(c, &d, corr);
}

fn tsvd_t<T: RealNumber>(c: &mut Case) {
    let d = general_data::<T>(c, 1);
    describe::<T>(c, "tsvd", &d);
    check_tsvd::<T>(c, &d);
}

fn tsvd_rankdef_t<T: RealNumber>(c: &mut Case) {
    let d = rankdef_data::<T>(c, false, true);
    describe::<T>(c, "tsvd", &d);
    check_tsvd::<T>(c, &d);
}

macro_rules! both {
    ($name:ident, $g:ident, $p32:expr) => {
        fn $name(c: &mut Case) {
            if c.rng.bool($p32) {
                $g::<f32>(c)
            } else {
                $g::<f64>(c)
            }
        }
    };
}
both!(pca_cov, pca_cov_t, 0.25);
both!(pca_corr, pca_corr_t, 0.25);
both!(pca_rankdef, pca_rankdef_t, 0.25);
both!(tsvd, tsvd_t, 0.25);
both!(tsvd_rankdef, tsvd_rankdef_t, 0.25);

/// (rows, cols, number of matrices with entries in {-1,0,1})
const GRID_QUICK: [(usize, usize); 5] = [(2, 1), (3, 1), (2, 2), (3, 2), (2, 3)];
const GRID_THOROUGH: [(usize, usize); 7] = [(2, 1), (3, 1), (2, 2), (3, 2), (2, 3), (4, 2), (3, 3)];
const GRID_QUICK_N: u64 = 9 + 27 + 81 + 729 + 729;
const GRID_THOROUGH_N: u64 = GRID_QUICK_N + 6561 + 19683;

/// every matrix with entries in {-1,0,1} of the listed shapes: PCA (covariance; correlation when no column
/// is constant) and truncated SVD, all k, both float widths
fn tiny_grid(c: &mut Case) {
    let shapes: &[(usize, usize)] = if c.total > GRID_QUICK_N { &GRID_THOROUGH } else { &GRID_QUICK };
    let mut idx = c.index;
    let mut shape = None;
    for &(n, p) in shapes {
        let cnt = 3u64.pow((n * p) as u32);
        if idx < cnt {
            shape = Some((n, p));
            break;
        }
        idx -= cnt;
    }
    let (n, p) = match shape {
        Some(s) => s,
        None => {
            c.skip("index beyond the enumerated grid");
            return;
        }
    };
    let mut digits = Vec::with_capacity(n * p);
    for _ in 0..n * p {
        digits.push((idx % 3) as f64 - 1.0);
        idx /= 3;
    }
    let d = Data { x: Mat { r: n, c: p, d: digits }, kind: "grid{-1,0,1}".into(), class: "grid", scale: 1.0, mean_mag: 0.0 };
    describe::<f64>(c, "grid", &d);
    let constant_col = (0..p).any(|j| (0..n).all(|i| d.x.at(i, j) == d.x.at(0, j)));
    check_pca::<f64>(c, &d, false);
    check_pca::<f32>(c, &d, false);
    if !constant_col {
        check_pca::<f64>(c, &d, true);
        check_pca::<f32>(c, &d, true);
    }
    check_tsvd::<f64>(c, &d);
    check_tsvd::<f32>(c, &d);
}

/// parameter builders keep every configured value whatever the order of the `with_*` steps
fn builders_fam(c: &mut Case) {
    scverif::builders::case(c, "C14")
}

/// the uniform api traits (Predictor / SupervisedEstimator / UnsupervisedEstimator / Transformer) behave
/// exactly like the inherent methods
fn api_paths_fam(c: &mut Case) {
    scverif::apipaths::case(c, "C14")
}

/// PCA (both modes) and truncated SVD on 1025..2600 rows (beyond the ordinary bound of 80)
fn large(c: &mut Case) {
    let g = c.index % 3;
    scverif::with_big(1, || match g {
        0 => pca_cov(c),
        1 => pca_corr(c),
        _ => tsvd(c),
    })
}

fn main() {
    runner::main(Spec {
        property: "C14",
        rule: "one case = one data matrix (2<=n<=80 rows, 1<=p<=8 columns, n>p and n<=p, f64 or f32) drawn from seeded structured generators (correlated Gaussian mixtures, common-factor, conditioned designs, integers, factor+noise, clustered singular values, binary, Hadamard designs with exactly repeated eigenvalues; column scales 1e-2..1e3, column means up to 1e6 spreads, overall rescaling 1e-12..1e12; exactly rank-deficient: duplicated columns, integer linear combinations, constant columns, identical rows) or enumerated (all {-1,0,1} matrices of tiny shapes); every k in 1..=p (PCA) / 1..p (truncated SVD) is fitted and checked; a case is non-trivial when the total variance (PCA) / ‖X‖_F (truncated SVD, p>=2) is positive and the reference eigen/singular values certified themselves; distinct = hash of (operation, width, entries of X); large: PCA (both modes) and truncated SVD on 1025..2600 rows; parameter objects are passed to fit as clones in every second case",
        assumptions: vec![
            "DenseMatrix backend only (backend equivalence is C20)",
            "f32 inputs: column means <= ~30 spreads, column scales 1e-2..1e2, overall scale 1e-6..1e6",
            "correlation mode requires every column to have positive variance (standardisation undefined otherwise): such cases are skipped; either normaliser (n or n-1) of the standard deviation is accepted",
            "statistical clauses are evaluated in f64 on (X-mean)·P with the exact mean of the rounded input, tolerance 1e-9 (f64) / 2e-3 (f32) of the total variance plus the second-order effect (n·eps·max|x_j|)^2 of the rounding error of the library's column means; the library's own transform output is tied to (X-mean)·P entry-wise within 1e3·(n+p)·eps·Σ(|x|+mean|x|)|P|",
            "orthonormality tolerance 1e3·p·eps",
            "reference: cyclic Jacobi eigenvalues of the f64 covariance, cross-checked against a one-sided Jacobi SVD of the centred data (1e-12 of the trace), otherwise the case is inconclusive",
        ],
        families: vec![
            Family::new("api_paths", 300, 3000, api_paths_fam),
            Family::new("builders", 300, 3000, builders_fam),
            Family::new("pca_cov", 5000, 80000, pca_cov),
            Family::new("pca_corr", 4000, 60000, pca_corr),
            Family::new("pca_rankdef", 4000, 60000, pca_rankdef),
            Family::new("tsvd", 3000, 50000, tsvd),
            Family::new("tsvd_rankdef", 2000, 30000, tsvd_rankdef),
            Family::new("large", 600, 4000, large),
            Family::new("tiny_grid", GRID_QUICK_N, GRID_THOROUGH_N, tiny_grid).exhaustive(true, true),
        ],
        min_nontrivial: 3000,
        case_timeout_s: 120,
    });
}
