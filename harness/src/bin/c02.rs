//! C02 — eigen-decomposition: `evd(true)` returns sorted real eigenvalues with an orthonormal eigenbasis;
//! `evd(false)` returns the spectrum (conjugate pairs, trace identities, backward error of every
//! eigenvalue) with genuine eigenvectors for the real eigenvalues.
#![allow(non_snake_case)]
use scverif::gen::*;
use scverif::refla::*;
use scverif::*;
use smartcore::linalg::evd::EVDDecomposableMatrix;
use smartcore::linalg::naive::dense_matrix::DenseMatrix;
use smartcore::math::num::RealNumber;

const NMAX: usize = 30;

// ------------------------------------------------------------------------------------------------
// helpers
// ------------------------------------------------------------------------------------------------

fn rnd<T: RealNumber>(a: Mat) -> Mat {
    if width::<T>() == "f32" {
        a.round_f32()
    } else {
        a
    }
}

fn nclass(n: usize) -> &'static str {
    match n {
        1 => "n:1",
        2 => "n:2",
        3..=6 => "n:3-6",
        7..=16 => "n:7-16",
        _ => "n:17-30",
    }
}

fn hash_tag(s: &str) -> f64 {
    (scverif::rng::hash_str(s) % 1000003) as f64
}

/// largest power of two not above max|a_ij| (1 for the zero matrix): dividing by it is exact
fn pow2_norm(a: &Mat) -> f64 {
    let m = a.max_abs();
    if m == 0.0 || !m.is_finite() {
        1.0
    } else {
        2f64.powi(m.log2().floor() as i32)
    }
}

fn vsub_scaled(av: &[f64], v: &[f64], d: f64) -> Vec<f64> {
    av.iter().zip(v.iter()).map(|(x, y)| x - d * y).collect()
}

/// Kuhn's augmenting-path matching on the graph { (i,j) : dist[i][j] <= thr }
fn perfect_matching(dist: &[Vec<f64>], thr: f64) -> bool {
    let m = dist.len();
    let mut match_r: Vec<Option<usize>> = vec![None; m];
    fn try_aug(i: usize, dist: &[Vec<f64>], thr: f64, seen: &mut [bool], match_r: &mut [Option<usize>]) -> bool {
        for j in 0..dist.len() {
            if dist[i][j] <= thr && !seen[j] {
                seen[j] = true;
                let free = match match_r[j] {
                    None => true,
                    Some(k) => try_aug(k, dist, thr, seen, match_r),
                };
                if free {
                    match_r[j] = Some(i);
                    return true;
                }
            }
        }
        false
    }
    for i in 0..m {
        let mut seen = vec![false; m];
        if !try_aug(i, dist, thr, &mut seen, &mut match_r) {
            return false;
        }
    }
    true
}

/// min over all perfect matchings between the two multisets of complex numbers of the largest
/// distance of a matched pair (exact: binary search over the candidate distances).
fn bottleneck(p: &[(f64, f64)], q: &[(f64, f64)]) -> f64 {
    let m = p.len();
    if m != q.len() {
        return f64::INFINITY;
    }
    if m == 0 {
        return 0.0;
    }
    let dist: Vec<Vec<f64>> = p.iter().map(|a| q.iter().map(|b| (a.0 - b.0).hypot(a.1 - b.1)).collect()).collect();
    if dist.iter().any(|r| r.iter().any(|x| !x.is_finite())) {
        return f64::INFINITY;
    }
    let mut cand: Vec<f64> = dist.iter().flat_map(|r| r.iter().cloned()).collect();
    cand.sort_by(|a, b| a.partial_cmp(b).unwrap_or(std::cmp::Ordering::Equal));
    cand.dedup();
    let (mut lo, mut hi) = (0usize, cand.len() - 1);
    while lo < hi {
        let mid = (lo + hi) / 2;
        if perfect_matching(&dist, cand[mid]) {
            hi = mid;
        } else {
            lo = mid + 1;
        }
    }
    cand[lo]
}

/// A − (re + i·im)·I, as the real 2n×2n embedding [[X, −Y],[Y, X]] when im != 0 (its singular values
/// are those of the complex matrix, each twice)
fn shifted(a: &Mat, re: f64, im: f64) -> Mat {
    let n = a.r;
    if im == 0.0 {
        Mat::from_fn(n, n, |i, j| a.at(i, j) - if i == j { re } else { 0.0 })
    } else {
        Mat::from_fn(2 * n, 2 * n, |i, j| {
            let (bi, bj) = (i / n, j / n);
            let (ii, jj) = (i % n, j % n);
            if bi == bj {
                a.at(ii, jj) - if ii == jj { re } else { 0.0 }
            } else if ii == jj {
                if bi == 0 {
                    im
                } else {
                    -im
                }
            } else {
                0.0
            }
        })
    }
}

/// Upper bound of σ_min(M) from a few steps of inverse iteration on MᵀM (every candidate vector z
/// certifies σ_min ≤ ‖M z‖/‖z‖, so the minimum over the candidates is a sound certificate).
fn sigma_min_certificate(m: &Mat, start: &[f64]) -> f64 {
    let k = m.r;
    let mt = m.t();
    let mut best = f64::INFINITY;
    let mut x = Mat { r: k, c: 1, d: start[..k].to_vec() };
    for _ in 0..3 {
        let y = match solve(&mt, &x) {
            Some(y) => y,
            None => return 0.0, // an exactly zero pivot: M is singular in working precision
        };
        if !y.all_finite() || y.fro() == 0.0 {
            break;
        }
        let y = y.scale(1.0 / pow2_norm(&y));
        let z = match solve(m, &y) {
            Some(z) => z,
            None => return 0.0,
        };
        if !z.all_finite() || z.fro() == 0.0 {
            break;
        }
        let z = z.scale(1.0 / pow2_norm(&z));
        let est = norm2v(&m.mulv(&z.d)) / norm2v(&z.d);
        if est < best {
            best = est;
        }
        x = z;
    }
    best
}

/// exact σ_min by the reference Jacobi SVD (slow; only used before a violation is declared)
fn sigma_min_exact(m: &Mat) -> f64 {
    let s = singular_values(m);
    s[s.len() - 1]
}

struct Out {
    d: Vec<f64>,
    e: Vec<f64>,
    V: Mat,
}

fn run_evd<T: RealNumber>(c: &mut Case, a: &Mat, symmetric: bool, sg: &str) -> Option<Out> {
    let n = a.r;
    let am: DenseMatrix<T> = to_dense(a);
    let what = if symmetric { "evd(true)" } else { "evd(false)" };
    let by_value = c.rng.bool(0.25);
    let r = if by_value { c.must(what, || am.clone().evd_mut(symmetric)) } else { c.must(what, || am.evd(symmetric)) };
    let pre = if symmetric { "sym" } else { "gen" };
    let evd = match r {
        Some(Ok(x)) => x,
        Some(Err(e)) => {
            c.check(&format!("{}.ok", pre), false, sg, || format!("evd returned Err({})", e));
            return None;
        }
        None => return None,
    };
    let out = Out { d: fv(&evd.d), e: fv(&evd.e), V: from_m(&evd.V) };
    let shapes = out.d.len() == n && out.e.len() == n && (out.V.r, out.V.c) == (n, n);
    c.check(&format!("{}.shapes", pre), shapes, sg, || format!("n={} d:{} e:{} V:{}x{}", n, out.d.len(), out.e.len(), out.V.r, out.V.c));
    if !shapes {
        return None;
    }
    Some(out)
}

// ------------------------------------------------------------------------------------------------
// symmetric solver
// ------------------------------------------------------------------------------------------------

struct SymInput {
    a: Mat,
    kind: String,
    scale: f64,
}

fn sym_from_spectrum(c: &mut Case, lam: &[f64]) -> Mat {
    let n = lam.len();
    let q = rand_orth(&mut c.rng, n);
    let ql = Mat::from_fn(n, n, |i, j| q.at(i, j) * lam[j]);
    let mut a = ql.mul(&q.t());
    sym(&mut a);
    a
}

fn rand_sym_dense(c: &mut Case, n: usize) -> Mat {
    let b = Mat::randn(&mut c.rng, n, n);
    let mut a = b.add(&b.t()).scale(0.5);
    sym(&mut a);
    a
}

fn sym_permute(c: &mut Case, a: &Mat) -> Mat {
    let p = c.rng.perm(a.r);
    Mat::from_fn(a.r, a.r, |i, j| a.at(p[i], p[j]))
}

fn finish_sym<T: RealNumber>(c: &mut Case, a0: Mat, kind: &str) -> SymInput {
    let scale = draw_scale(&mut c.rng);
    let a = rnd::<T>(a0.scale(scale));
    SymInput { a, kind: kind.to_string(), scale }
}

fn check_sym<T: RealNumber>(c: &mut Case, inp: &SymInput) {
    let a = &inp.a;
    let n = a.r;
    debug_assert!((0..n).all(|i| (0..n).all(|j| a.at(i, j) == a.at(j, i))));
    c.bucket("solver:symmetric");
    c.bucket(&format!("kind:{}", inp.kind));
    c.bucket(&format!("scale:{}", scale_class(inp.scale)));
    c.bucket(&format!("width:{}", width::<T>()));
    c.bucket(nclass(n));
    c.describe(json!({"solver": "symmetric", "width": width::<T>(), "kind": inp.kind, "scale": inp.scale, "n": n, "A": mat_json(a)}));
    c.hash_f64s(&a.d);
    c.hash_f64s(&[n as f64, if width::<T>() == "f32" { 1.0 } else { 2.0 }, hash_tag("sym")]);
    if n >= 2 {
        c.nontrivial();
    }
    let sg = format!("{}/{}/{}", width::<T>(), inp.kind.split(':').next().unwrap_or(""), scale_class(inp.scale));
    let out = match run_evd::<T>(c, a, true, &sg) {
        Some(o) => o,
        None => return,
    };
    let (d, e, V) = (&out.d, &out.e, &out.V);
    let fin = d.iter().all(|x| x.is_finite()) && e.iter().all(|x| x.is_finite()) && V.all_finite();
    if !c.check("sym.finite", fin, &sg, || format!("non-finite entry in d / e / V; d = {:?}", d)) {
        return;
    }
    c.check("sym.e=0", e.iter().all(|x| *x == 0.0), &sg, || format!("imaginary parts not all zero: {:?}", e));
    c.check("sym.d-nonincreasing", d.windows(2).all(|w| w[0] >= w[1]), &sg, || format!("eigenvalues not in non-increasing order: {:?}", d));
    let tau = 100.0 * n as f64 * eps::<T>();
    let an = a.fro();
    c.ratio("sym.VtV=I", V.orth_err(), tau, &sg, || "‖VᵀV − I‖_F".into());
    let vd = Mat::from_fn(n, n, |i, j| V.at(i, j) * d[j]);
    let res = a.mul(V).sub(&vd).fro();
    c.ratio("sym.AV=VD", res, tau * an, &sg, || format!("‖A·V − V·diag(d)‖_F with ‖A‖_F = {:e}", an));
    // independent reference (cyclic Jacobi on the exactly rescaled input); implied by the two oracles
    // above through Weyl's inequality, hence the factor 3
    let s = pow2_norm(a);
    let an1 = a.scale(1.0 / s);
    let (lam, vv) = jacobi_eig(&an1);
    let lvd = Mat::from_fn(n, n, |i, j| vv.at(i, j) * lam[j]);
    let ref_res = an1.mul(&vv).sub(&lvd).fro();
    // the reference's own residual and loss of orthogonality grow with the order; both are measured and granted
    let cert = 1e-12 * (n as f64 / 30.0).max(1.0);
    let ref_orth = vv.orth_err();
    if !(ref_res <= cert * an1.fro() && ref_orth <= cert) {
        c.inconclusive("reference Jacobi eigen-solver did not certify itself");
        return;
    }
    let dmax = (0..n).map(|i| (d[i] / s - lam[i]).abs()).fold(0.0f64, f64::max);
    c.ratio("sym.d=reference", dmax, 3.0 * tau * an1.fro() + ref_res + ref_orth * an1.fro(), &sg, || format!("impl {:?} vs Jacobi reference (×{:e}) {:?}", d, s, lam));
    // behavioural features
    let lmax = lam.iter().fold(0.0f64, |m, x| m.max(x.abs()));
    let tol_rep = 1e3 * eps::<T>() * lmax;
    c.bucket_if(n >= 2 && lam.windows(2).any(|w| (w[0] - w[1]).abs() <= tol_rep), "spectrum:repeated");
    c.bucket_if(lmax > 0.0 && lam.iter().any(|x| x.abs() <= tol_rep), "spectrum:zero-eigenvalue");
    c.bucket_if(lam.iter().any(|x| *x > tol_rep) && lam.iter().any(|x| *x < -tol_rep), "spectrum:indefinite");
    c.bucket_if(n >= 3 && (1..n).any(|i| (0..i).all(|j| (i..n).all(|k| a.at(k, j) == 0.0))), "structure:reducible(deflation)");
    c.bucket_if(lmax == 0.0, "structure:zero-matrix");
}

fn sym_random_t<T: RealNumber>(c: &mut Case) {
    let n = size(&mut c.rng, NMAX);
    let k = c.rng.below(7);
    let (a, kind) = match k {
        0 | 1 => (rand_sym_dense(c, n), "random:gaussian"),
        2 => {
            let mut a = Mat::zeros(n, n);
            for i in 0..n {
                for j in 0..=i {
                    let v = c.rng.int(-9, 9) as f64;
                    a.set(i, j, v);
                    a.set(j, i, v);
                }
            }
            (a, "random:integer")
        }
        3 => {
            let p = c.rng.uni(0.3, 0.85);
            let mut a = Mat::zeros(n, n);
            for i in 0..n {
                for j in 0..=i {
                    let v = if c.rng.bool(p) { 0.0 } else { c.rng.normal() };
                    a.set(i, j, v);
                    a.set(j, i, v);
                }
            }
            (a, "random:sparse")
        }
        4 => {
            let lam: Vec<f64> = (0..n).map(|_| c.rng.uni(-1.0, 1.0)).collect();
            (sym_from_spectrum(c, &lam), "random:Q*diag(uniform)*Qt")
        }
        5 => {
            let lo = c.rng.logu(1e-8, 1e-1);
            let lam: Vec<f64> = (0..n).map(|_| c.rng.logu(lo, 1.0) * if c.rng.bool(0.5) { -1.0 } else { 1.0 }).collect();
            (sym_from_spectrum(c, &lam), "random:Q*diag(graded)*Qt")
        }
        _ => {
            // banded (tridiagonal when bw = 1)
            let bw = c.rng.us(1, 3);
            let mut a = Mat::zeros(n, n);
            for i in 0..n {
                for j in i.saturating_sub(bw)..=i {
                    let v = c.rng.normal();
                    a.set(i, j, v);
                    a.set(j, i, v);
                }
            }
            (a, "random:banded")
        }
    };
    let inp = finish_sym::<T>(c, a, kind);
    check_sym::<T>(c, &inp);
}

fn sym_repeated_t<T: RealNumber>(c: &mut Case) {
    let n = size(&mut c.rng, NMAX);
    let ndist = c.rng.us(1, 3.min(n));
    let mut vals: Vec<f64> = Vec::new();
    while vals.len() < ndist {
        let v = match c.rng.below(4) {
            0 => 0.0,
            1 => c.rng.int(-3, 3) as f64,
            _ => c.rng.uni(-2.0, 2.0),
        };
        if !vals.iter().any(|x| *x == v) {
            vals.push(v);
        }
    }
    let lam: Vec<f64> = (0..n).map(|i| if i < ndist { vals[i] } else { *c.rng.pick(&vals) }).collect();
    let a = sym_from_spectrum(c, &lam);
    let kind = if ndist == 1 { "repeated:multiple-of-identity" } else { "repeated:Q*diag(multiplicities)*Qt" };
    let inp = finish_sym::<T>(c, a, kind);
    check_sym::<T>(c, &inp);
}

fn sym_diag_t<T: RealNumber>(c: &mut Case) {
    let n = size(&mut c.rng, NMAX);
    let k = c.rng.below(5);
    let dv: Vec<f64> = match k {
        0 => (0..n).map(|_| c.rng.normal()).collect(),
        1 => (0..n).map(|_| c.rng.int(-2, 2) as f64).collect(),
        2 => (0..n).map(|i| i as f64 + 1.0).collect(), // increasing: the final sort has to reverse everything
        3 => (0..n).map(|_| if c.rng.bool(0.5) { 0.0 } else { c.rng.uni(-1.0, 1.0) }).collect(),
        _ => (0..n).map(|_| c.rng.logu(1e-10, 1.0) * if c.rng.bool(0.5) { -1.0 } else { 1.0 }).collect(),
    };
    let kinds = ["diagonal:gaussian", "diagonal:small-integers", "diagonal:increasing", "diagonal:with-zeros", "diagonal:graded"];
    let inp = finish_sym::<T>(c, Mat::diag(&dv), kinds[k]);
    check_sym::<T>(c, &inp);
}

fn sym_block_t<T: RealNumber>(c: &mut Case) {
    let n = size(&mut c.rng, NMAX).max(2);
    let tri = c.rng.bool(0.3);
    let mut a = Mat::zeros(n, n);
    let kind;
    if tri {
        // tridiagonal with some exactly zero off-diagonal entries
        for i in 0..n {
            a.set(i, i, c.rng.normal());
            if i + 1 < n && !c.rng.bool(0.3) {
                let v = c.rng.normal();
                a.set(i, i + 1, v);
                a.set(i + 1, i, v);
            }
        }
        kind = "block:tridiagonal-with-zero-couplings";
    } else {
        let mut i0 = 0;
        while i0 < n {
            let b = c.rng.us(1, (n - i0).min(8));
            let blk = match c.rng.below(5) {
                0 => Mat::zeros(b, b),
                1 => {
                    let lam: Vec<f64> = (0..b).map(|_| c.rng.int(-1, 1) as f64).collect();
                    sym_from_spectrum(c, &lam)
                }
                2 => Mat::diag(&(0..b).map(|_| c.rng.normal()).collect::<Vec<f64>>()),
                _ => rand_sym_dense(c, b),
            };
            for i in 0..b {
                for j in 0..b {
                    a.set(i0 + i, i0 + j, blk.at(i, j));
                }
            }
            i0 += b;
        }
        kind = "block:block-diagonal";
    }
    let (a, kind) = if c.rng.bool(0.35) { (sym_permute(c, &a), format!("{}+permuted", kind)) } else { (a, kind.to_string()) };
    let inp = finish_sym::<T>(c, a, &kind);
    check_sym::<T>(c, &inp);
}

fn sym_rankdef_t<T: RealNumber>(c: &mut Case) {
    let mut n = size(&mut c.rng, NMAX);
    let k = c.rng.below(6);
    if k == 5 {
        n = c.rng.us(1, NMAX); // all orders equally likely for the exact rank-one / rank-two inputs
    }
    let (a, kind): (Mat, &str) = match k {
        5 => {
            // u·uᵀ (± w·wᵀ) with small integers: after one or two Householder steps the remaining block is
            // pure rounding noise (or exactly zero)
            let u: Vec<f64> = (0..n).map(|_| c.rng.int(-3, 3) as f64).collect();
            let two = c.rng.bool(0.3);
            let sgn = if c.rng.bool(0.5) { 1.0 } else { -1.0 };
            let w: Vec<f64> = (0..n).map(|_| if two { c.rng.int(-2, 2) as f64 } else { 0.0 }).collect();
            (Mat::from_fn(n, n, |i, j| u[i] * u[j] + sgn * w[i] * w[j]), "rankdef:integer-rank-one-or-two")
        }
        0 => {
            // B·Bᵀ with small integers: exactly representable, rank r < n (for n >= 2)
            let r = if n >= 2 { c.rng.us(1, n - 1) } else { 1 };
            let b = Mat::from_fn(n, r, |_, _| c.rng.int(-3, 3) as f64);
            (b.mul(&b.t()), "rankdef:B*Bt(integer)")
        }
        1 => {
            // indefinite exactly rank deficient B·S·Bᵀ
            let r = if n >= 2 { c.rng.us(1, n - 1) } else { 1 };
            let b = Mat::from_fn(n, r, |_, _| c.rng.int(-2, 2) as f64);
            let sg: Vec<f64> = (0..r).map(|_| if c.rng.bool(0.5) { 1.0 } else { -1.0 }).collect();
            let bs = Mat::from_fn(n, r, |i, j| b.at(i, j) * sg[j]);
            (bs.mul(&b.t()), "rankdef:B*S*Bt(integer,indefinite)")
        }
        2 => {
            let u: Vec<f64> = (0..n).map(|_| c.rng.normal()).collect();
            let mut a = Mat::from_fn(n, n, |i, j| u[i] * u[j]);
            sym(&mut a);
            (a, "rankdef:rank-one")
        }
        3 => (Mat::zeros(n, n), "rankdef:zero-matrix"),
        _ => {
            let r = c.rng.us(0, n.saturating_sub(1));
            let lam: Vec<f64> = (0..n).map(|i| if i < r { c.rng.uni(-1.0, 1.0) } else { 0.0 }).collect();
            (sym_from_spectrum(c, &lam), "rankdef:Q*diag(lambda,0..0)*Qt")
        }
    };
    let inp = finish_sym::<T>(c, a, kind);
    check_sym::<T>(c, &inp);
}

fn sym_special_t<T: RealNumber>(c: &mut Case) {
    let n = size(&mut c.rng, NMAX);
    let k = c.rng.below(9);
    let (a, kind): (Mat, &str) = match k {
        0 => {
            // Wilkinson W_n^+: pairs of extremely close eigenvalues
            let m = (n as f64 - 1.0) / 2.0;
            (Mat::from_fn(n, n, |i, j| if i == j { (i as f64 - m).abs() } else if i + 1 == j || j + 1 == i { 1.0 } else { 0.0 }), "special:wilkinson")
        }
        1 => (Mat::from_fn(n, n, |i, j| if i == j { 2.0 } else if i + 1 == j || j + 1 == i { -1.0 } else { 0.0 }), "special:toeplitz(-1,2,-1)"),
        2 => (Mat::from_fn(n, n, |_, _| 1.0), "special:all-ones"),
        3 => (Mat::from_fn(n, n, |i, j| 1.0 / (i + j + 1) as f64), "special:hilbert"),
        4 => (Mat::from_fn(n, n, |i, j| (i.min(j) + 1) as f64), "special:min(i,j)"),
        5 => (Mat::from_fn(n, n, |i, j| if i + j + 1 == n { 1.0 } else { 0.0 }), "special:exchange"),
        6 => {
            // arrow head
            let dv: Vec<f64> = (0..n).map(|_| c.rng.normal()).collect();
            let w: Vec<f64> = (0..n).map(|_| c.rng.normal()).collect();
            (Mat::from_fn(n, n, |i, j| if i == j { dv[i] } else if i == n - 1 { w[j] } else if j == n - 1 { w[i] } else { 0.0 }), "special:arrow")
        }
        7 => (Mat::eye(n), "special:identity"),
        _ => {
            // Kac–Murdock–Szegő / exponential correlation
            let rho = c.rng.uni(-0.95, 0.95);
            (Mat::from_fn(n, n, |i, j| rho.powi((i as i32 - j as i32).abs())), "special:kms")
        }
    };
    let inp = finish_sym::<T>(c, a, kind);
    check_sym::<T>(c, &inp);
}

// ------------------------------------------------------------------------------------------------
// general solver
// ------------------------------------------------------------------------------------------------

struct GenInput {
    a: Mat,
    kind: String,
    /// the spectrum known by construction (eigenvalues perfectly conditioned up to `known_factor`)
    known: Option<Vec<(f64, f64)>>,
    known_factor: f64,
    /// (A0, s): A = diag(s)·A0·diag(s)⁻¹ exactly, A0 the matrix before it was un-balanced
    alt: Option<(Mat, Vec<f64>)>,
    /// all-real, well-separated spectrum by construction
    separated: bool,
}

impl GenInput {
    fn plain(a: Mat, kind: &str) -> GenInput {
        GenInput { a, kind: kind.to_string(), known: None, known_factor: 1.0, alt: None, separated: false }
    }
}

fn check_gen<T: RealNumber>(c: &mut Case, inp: &GenInput) {
    let a = &inp.a;
    let n = a.r;
    c.bucket("solver:general");
    c.bucket(&format!("kind:{}", inp.kind));
    c.bucket(&format!("width:{}", width::<T>()));
    c.bucket(nclass(n));
    c.describe(json!({"solver": "general", "width": width::<T>(), "kind": inp.kind, "n": n, "A": mat_json(a),
        "unbalanced_by": inp.alt.as_ref().map(|x| x.1.clone())}));
    c.hash_f64s(&a.d);
    c.hash_f64s(&[n as f64, if width::<T>() == "f32" { 1.0 } else { 2.0 }, hash_tag("gen")]);
    if n >= 2 {
        c.nontrivial();
    }
    let sg = format!("{}/{}", width::<T>(), inp.kind);
    let start: Vec<f64> = (0..2 * n).map(|_| c.rng.normal()).collect();
    let out = match run_evd::<T>(c, a, false, &sg) {
        Some(o) => o,
        None => return,
    };
    let (d, e, V) = (&out.d, &out.e, &out.V);
    if !c.check("gen.finite-eigenvalues", d.iter().all(|x| x.is_finite()) && e.iter().all(|x| x.is_finite()), &sg, || format!("d = {:?}, e = {:?}", d, e)) {
        return;
    }
    let ep = eps::<T>();
    // the Hessenberg reduction used by the library is elimination based (not orthogonal): its growth factor
    // enters the backward error of the back-substituted eigenvectors; worst observed in 5.2 million matrices
    // 1.45e4·n·ε (f64, block-triangular with close eigenvalues in different blocks)
    let tg = 1e4 * n as f64 * ep;
    // eigenvector residuals and complex-eigenvalue backward errors use the same constant; the rare cases in
    // which the elimination-based (non-orthogonal) Hessenberg reduction loses more digits are recorded as an
    // open known finding (block-triangular matrices), not absorbed by a looser constant
    let tgv = 1e4 * n as f64 * ep;
    let an = a.fro();
    let an0 = inp.alt.as_ref().map(|x| x.0.fro());

    // ---- conjugate pairs (multiset): every λ with Im > 0 has a partner conj(λ)
    let pos: Vec<(f64, f64)> = (0..n).filter(|&i| e[i] > 0.0).map(|i| (d[i], e[i])).collect();
    let neg: Vec<(f64, f64)> = (0..n).filter(|&i| e[i] < 0.0).map(|i| (d[i], -e[i])).collect();
    if c.check("gen.conjugate-count", pos.len() == neg.len(), &sg, || format!("{} eigenvalues with Im>0 but {} with Im<0; d = {:?}, e = {:?}", pos.len(), neg.len(), d, e)) {
        let b = bottleneck(&pos, &neg);
        c.ratio("gen.conjugate-pairs", b, 1e3 * n as f64 * ep * an, &sg, || format!("largest distance between an eigenvalue and the conjugate of its partner; d = {:?}, e = {:?}", d, e));
    }
    let npairs = pos.len();
    c.bucket(match npairs {
        0 => "spectrum:all-real",
        1 => "spectrum:1-complex-pair",
        2..=4 => "spectrum:2-4-complex-pairs",
        _ => "spectrum:>=5-complex-pairs",
    });
    c.bucket_if(npairs > 0 && 2 * npairs < n, "spectrum:mixed-real-and-complex");
    // adjacency of the pairs in the output (nothing is demanded, recorded only)
    c.bucket_if((0..n).any(|i| e[i] > 0.0 && !(i + 1 < n && e[i + 1] == -e[i] && d[i + 1] == d[i])), "output:pair-not-adjacent");

    // ---- trace identities
    let tr1 = csum((0..n).map(|i| a.at(i, i)));
    let tr2 = csum((0..n).flat_map(|i| (0..n).map(move |j| (i, j))).map(|(i, j)| a.at(i, j) * a.at(j, i)));
    let s1 = csum(d.iter().cloned());
    let s2 = csum((0..n).map(|i| d[i] * d[i]).chain((0..n).map(|i| -e[i] * e[i])));
    let si = csum(e.iter().cloned());
    let sdi = csum((0..n).map(|i| d[i] * e[i]));
    c.ratio("gen.trace", (s1 - tr1).abs(), tg * an * (n as f64).sqrt(), &sg, || format!("|Σd − tr A|, Σd = {:e}, tr A = {:e}", s1, tr1));
    c.ratio("gen.trace-of-square", (s2 - tr2).abs(), tg * an * an * n as f64, &sg, || format!("|Σ(d²−e²) − tr A²|, Σ = {:e}, tr A² = {:e}", s2, tr2));
    // imaginary parts of Σλ and Σλ² vanish (consequence of the conjugate pairing + the identities)
    c.ratio("gen.trace-imag", si.abs(), tg * an * (n as f64).sqrt(), &sg, || "|Σe|".into());
    c.ratio("gen.trace-of-square-imag", 2.0 * sdi.abs(), tg * an * an * n as f64, &sg, || "|2Σd·e|".into());

    // ---- columns reported for real eigenvalues: finite, non-zero, A·v = d·v
    let real_idx: Vec<usize> = (0..n).filter(|&i| e[i] == 0.0).collect();
    let mut vec_ok = true;
    let mut worst = 0.0f64;
    let mut worst_j = usize::MAX;
    let mut worst_alt_used = false;
    for &j in &real_idx {
        let v = V.col(j);
        let nv = norm2v(&v);
        if !(v.iter().all(|x| x.is_finite()) && nv > 0.0 && nv.is_finite()) {
            vec_ok = false;
            c.check("gen.real-eigenvector-nonzero-finite", false, &sg, || format!("column {} for the real eigenvalue {:e} is zero or not finite: {:?}", j, d[j], v));
            break;
        }
        let r = vsub_scaled(&a.mulv(&v), &v, d[j]);
        let mut ratio = if an > 0.0 { norm2v(&r) / (tgv * an * nv) } else if norm2v(&r) == 0.0 { 0.0 } else { f64::INFINITY };
        let mut alt_used = false;
        if let (Some((_, s)), Some(a0n)) = (&inp.alt, an0) {
            // the same residual in the coordinates in which the matrix was generated (balanced)
            let r0: Vec<f64> = (0..n).map(|i| r[i] / s[i]).collect();
            let v0: Vec<f64> = (0..n).map(|i| v[i] / s[i]).collect();
            let ratio0 = norm2v(&r0) / (tgv * a0n * norm2v(&v0));
            if ratio0 < ratio {
                ratio = ratio0;
                alt_used = true;
            }
        }
        if !(ratio <= worst) {
            worst = ratio;
            worst_j = j;
            worst_alt_used = alt_used;
        }
    }
    if vec_ok {
        c.check("gen.real-eigenvector-nonzero-finite", true, &sg, String::new);
        if !real_idx.is_empty() {
            c.bucket_if(worst_alt_used, "residual:judged-in-balanced-coordinates");
            c.ratio("gen.Av=dv", worst, 1.0, &sg, || format!("‖A·v − d·v‖ / (1e4·n·ε·‖A‖_F·‖v‖) for column {} (d = {:e})", worst_j, if worst_j < n { d[worst_j] } else { f64::NAN }));
        }
    }

    // ---- every complex eigenvalue is an eigenvalue of a matrix within rounding distance of A:
    //      σ_min(A − λI) ≤ τ_g‖A‖_F (real ones are covered by their eigenvector residual)
    let mut cidx: Vec<usize> = (0..n).filter(|&i| e[i] > 0.0).collect();
    if n > 120 && cidx.len() > 6 {
        // each certificate costs a decomposition of a 2n×2n matrix: for the orders above 256 only the first, the last
        // and four pairs between them are certified
        let m = cidx.len();
        cidx = vec![cidx[0], cidx[m / 5], cidx[2 * m / 5], cidx[3 * m / 5], cidx[4 * m / 5], cidx[m - 1]];
    }
    if !cidx.is_empty() {
        let mut worst = 0.0f64;
        let mut wi = cidx[0];
        for &i in &cidx {
            let mut ratio = if an > 0.0 { sigma_min_certificate(&shifted(a, d[i], e[i]), &start) / (tgv * an) } else { f64::INFINITY };
            if let (Some((a0, _)), Some(a0n)) = (&inp.alt, an0) {
                if ratio > 0.5 {
                    let r0 = sigma_min_certificate(&shifted(a0, d[i], e[i]), &start) / (tgv * a0n);
                    ratio = ratio.min(r0);
                }
            }
            if !(ratio <= worst) {
                worst = ratio;
                wi = i;
            }
        }
        if !(worst <= 1.0) {
            // the certificate is only an upper bound: decide with the exact σ_min
            let mut ratio = if an > 0.0 { sigma_min_exact(&shifted(a, d[wi], e[wi])) / (tgv * an) } else { f64::INFINITY };
            if let (Some((a0, _)), Some(a0n)) = (&inp.alt, an0) {
                if !(ratio <= 1.0) {
                    ratio = ratio.min(sigma_min_exact(&shifted(a0, d[wi], e[wi])) / (tgv * a0n));
                }
            }
            worst = ratio;
        }
        c.ratio("gen.complex-eigenvalue-backward-error", worst, 1.0, &sg, || format!("σ_min(A − λI) / (1e4·n·ε·‖A‖_F) for λ = {:e} + {:e}i", d[wi], e[wi]));
    }

    // ---- spectrum known by construction (normal matrices, S·diag(λ)·S⁻¹ with cond(S) ≤ 10)
    if let Some(known) = &inp.known {
        let got: Vec<(f64, f64)> = (0..n).map(|i| (d[i], e[i])).collect();
        let b = bottleneck(&got, known);
        c.ratio("gen.spectrum=constructed", b, inp.known_factor * tg * an, &sg, || format!("bottleneck matching distance between the returned and the constructed spectrum; returned d = {:?}, e = {:?}, constructed = {:?}", d, e, known));
    }

    // ---- all-real well-separated spectrum: no complex values (the per-column check above is then the
    //      full identity A·V = V·diag(d))
    if inp.separated {
        let emax = e.iter().fold(0.0f64, |m, x| m.max(x.abs()));
        c.ratio("gen.separated-real-spectrum-is-real", emax, tg * an, &sg, || format!("imaginary parts for a matrix with real, well separated eigenvalues: {:?}", e));
        if vec_ok && real_idx.len() == n {
            c.count("gen.full-identity(all-real)");
        }
    } else if real_idx.len() == n && vec_ok {
        c.count("gen.full-identity(all-real)");
    }
}

fn gen_random_t<T: RealNumber>(c: &mut Case) {
    let n = size(&mut c.rng, NMAX);
    let k = c.rng.below(9);
    let (a, kind): (Mat, &str) = match k {
        0 | 1 => (Mat::randn(&mut c.rng, n, n), "random:gaussian"),
        2 => (Mat::from_fn(n, n, |_, _| c.rng.int(-9, 9) as f64), "random:integer"),
        3 => {
            let p = c.rng.uni(0.3, 0.85);
            (Mat::from_fn(n, n, |_, _| if c.rng.bool(p) { 0.0 } else { c.rng.normal() }), "random:sparse")
        }
        4 => (Mat::from_fn(n, n, |_, _| c.rng.f()), "random:positive"),
        5 => {
            let s = rand_sym_dense(c, n);
            let t = c.rng.logu(1e-6, 1e-1);
            (s.add(&Mat::randn(&mut c.rng, n, n).scale(t)), "random:nearly-symmetric")
        }
        6 => {
            // reducible: dense diagonal blocks of order 1..4, random coupling on one side (the QR
            // iteration has to split the Hessenberg matrix in the middle)
            let mut blk = vec![0usize; n];
            let (mut i0, mut b) = (0, 0);
            while i0 < n {
                let w = c.rng.us(1, 4.min(n - i0));
                for t in i0..i0 + w {
                    blk[t] = b;
                }
                i0 += w;
                b += 1;
            }
            let upper = c.rng.bool(0.5);
            (Mat::from_fn(n, n, |i, j| if blk[i] == blk[j] || (blk[i] < blk[j]) == upper { c.rng.normal() } else { 0.0 }), "random:block-triangular")
        }
        7 => (Mat::from_fn(n, n, |i, j| if i <= j + 1 { c.rng.normal() } else { 0.0 }), "random:hessenberg"),
        _ => {
            let mut a = Mat::from_fn(n, n, |_, _| c.rng.f());
            for i in 0..n {
                let s: f64 = (0..n).map(|j| a.at(i, j)).sum();
                for j in 0..n {
                    let v = a.at(i, j) / s;
                    a.set(i, j, v);
                }
            }
            (a, "random:row-stochastic")
        }
    };
    let inp = GenInput::plain(rnd::<T>(a), kind);
    check_gen::<T>(c, &inp);
}

fn gen_triangular_t<T: RealNumber>(c: &mut Case) {
    let n = size(&mut c.rng, NMAX);
    let upper = c.rng.bool(0.5);
    let k = c.rng.below(5);
    let dens = c.rng.uni(0.3, 1.0);
    let dv: Vec<f64> = match k {
        0 => (0..n).map(|_| c.rng.normal()).collect(),
        1 => (0..n).map(|_| c.rng.int(-2, 2) as f64).collect(), // repeated → defective
        2 => vec![0.0; n],                                      // nilpotent
        3 => {
            let l = c.rng.uni(-2.0, 2.0);
            vec![l; n] // one Jordan-like block
        }
        _ => (0..n).map(|i| (i as f64 + 1.0) * if c.rng.bool(0.5) { 1.0 } else { -1.0 }).collect(),
    };
    let kinds = ["triangular:random-diagonal", "triangular:repeated-diagonal", "triangular:nilpotent", "triangular:single-eigenvalue", "triangular:separated-diagonal"];
    let jordan = k >= 2 && k <= 3 && c.rng.bool(0.3);
    let a = Mat::from_fn(n, n, |i, j| {
        if i == j {
            dv[i]
        } else if (upper && j > i) || (!upper && i > j) {
            if jordan {
                if (upper && j == i + 1) || (!upper && i == j + 1) {
                    1.0
                } else {
                    0.0
                }
            } else if c.rng.bool(dens) {
                0.5 * c.rng.normal()
            } else {
                0.0
            }
        } else {
            0.0
        }
    });
    let inp = GenInput::plain(rnd::<T>(a), kinds[k]);
    if upper {
        c.bucket("triangular:upper");
    } else {
        c.bucket("triangular:lower");
    }
    c.bucket_if(jordan, "triangular:jordan-block");
    check_gen::<T>(c, &inp);
}

/// coefficients (monic, low → high, without the leading 1) of Π(x − r) for real roots and conjugate pairs
fn poly_from_roots(re: &[f64], pairs: &[(f64, f64)]) -> Vec<f64> {
    let mut p = vec![1.0f64]; // low → high
    for r in re {
        let mut q = vec![0.0; p.len() + 1];
        for (i, pi) in p.iter().enumerate() {
            q[i + 1] += pi;
            q[i] -= r * pi;
        }
        p = q;
    }
    for (a, b) in pairs {
        // x² − 2a x + (a² + b²)
        let (c1, c0) = (-2.0 * a, a * a + b * b);
        let mut q = vec![0.0; p.len() + 2];
        for (i, pi) in p.iter().enumerate() {
            q[i + 2] += pi;
            q[i + 1] += c1 * pi;
            q[i] += c0 * pi;
        }
        p = q;
    }
    p.pop();
    p
}

fn gen_companion_t<T: RealNumber>(c: &mut Case) {
    let n = size(&mut c.rng, NMAX);
    let k = c.rng.below(6);
    let (coef, kind): (Vec<f64>, &str) = match k {
        0 => {
            let mut co = vec![0.0; n];
            co[0] = -1.0;
            (co, "companion:x^n-1(cyclic-shift)")
        }
        1 => (vec![0.0; n], "companion:x^n(nilpotent)"),
        2 => {
            let m = n.min(12);
            let re: Vec<f64> = (1..=m).map(|i| i as f64).collect();
            let mut co = poly_from_roots(&re, &[]);
            // pad with zero roots to order n
            let mut padded = vec![0.0; n - m];
            padded.append(&mut co);
            (padded, "companion:wilkinson-roots")
        }
        3 => ((0..n).map(|_| c.rng.normal()).collect(), "companion:random-coefficients"),
        _ => {
            let np = c.rng.us(0, n / 2);
            let nr = n - 2 * np;
            let re: Vec<f64> = (0..nr).map(|_| c.rng.uni(0.3, 1.5) * if c.rng.bool(0.5) { -1.0 } else { 1.0 }).collect();
            let pairs: Vec<(f64, f64)> = (0..np)
                .map(|_| {
                    let r = c.rng.uni(0.3, 1.5);
                    let th = c.rng.uni(0.05, std::f64::consts::PI - 0.05);
                    (r * th.cos(), r * th.sin())
                })
                .collect();
            (poly_from_roots(&re, &pairs), "companion:from-roots")
        }
    };
    // four layouts of the Frobenius companion matrix of x^n + c_{n-1}x^{n-1} + … + c_0
    let layout = c.rng.below(4);
    let base = Mat::from_fn(n, n, |i, j| {
        if j == n - 1 {
            -coef[i]
        } else if i == j + 1 {
            1.0
        } else {
            0.0
        }
    });
    let flip = |m: &Mat| Mat::from_fn(n, n, |i, j| m.at(n - 1 - i, n - 1 - j));
    let a = match layout {
        0 => base,
        1 => base.t(),
        2 => flip(&base),
        _ => flip(&base).t(),
    };
    c.bucket(&format!("companion:layout-{}", layout));
    let inp = GenInput::plain(rnd::<T>(a), kind);
    check_gen::<T>(c, &inp);
}

/// Q·blockdiag(…)·Qᵀ with 1×1 blocks `x` and 2×2 blocks [[a, b], [−b, a]]: a normal matrix with
/// eigenvalues x and a ± ib
fn normal_from_blocks(c: &mut Case, reals: &[f64], pairs: &[(f64, f64)], orthogonal_mix: bool) -> (Mat, Vec<(f64, f64)>) {
    let n = reals.len() + 2 * pairs.len();
    let mut b = Mat::zeros(n, n);
    let mut known = Vec::new();
    // interleave the blocks randomly
    let mut order: Vec<usize> = (0..reals.len() + pairs.len()).collect();
    c.rng.shuffle(&mut order);
    let mut i0 = 0;
    for &t in &order {
        if t < reals.len() {
            b.set(i0, i0, reals[t]);
            known.push((reals[t], 0.0));
            i0 += 1;
        } else {
            let (x, y) = pairs[t - reals.len()];
            b.set(i0, i0, x);
            b.set(i0 + 1, i0 + 1, x);
            b.set(i0, i0 + 1, y);
            b.set(i0 + 1, i0, -y);
            known.push((x, y.abs()));
            known.push((x, -y.abs()));
            i0 += 2;
        }
    }
    let a = if orthogonal_mix {
        let q = rand_orth(&mut c.rng, n);
        q.mul(&b).mul(&q.t())
    } else {
        b
    };
    (a, known)
}

fn gen_rotblock_t<T: RealNumber>(c: &mut Case) {
    let n = size(&mut c.rng, NMAX);
    let lo = if c.rng.bool(0.8) { 1 } else { 0 };
    let np = if n >= 2 { c.rng.us(lo, n / 2) } else { 0 };
    let nr = n - 2 * np;
    let same_angle = c.rng.bool(0.15);
    let th0 = c.rng.uni(0.05, std::f64::consts::PI - 0.05);
    let pairs: Vec<(f64, f64)> = (0..np)
        .map(|_| {
            // one pair in five: a rotation by a tiny angle (a conjugate pair 1e-12..1e-3 off the real axis, far above
            // rounding and far below the coarse scale of the matrix)
            let th = if same_angle {
                th0
            } else if c.rng.bool(0.2) {
                c.rng.logu(1e-12, 1e-3)
            } else {
                c.rng.uni(0.01, std::f64::consts::PI - 0.01)
            };
            (th.cos(), th.sin())
        })
        .collect();
    let reals: Vec<f64> = (0..nr).map(|_| if c.rng.bool(0.5) { 1.0 } else { -1.0 }).collect();
    let mix = c.rng.bool(0.85);
    let (a, known) = normal_from_blocks(c, &reals, &pairs, mix);
    let kind = if mix { "rotation-blocks:Q*blockdiag(R(theta),±1)*Qt" } else { "rotation-blocks:blockdiag(R(theta),±1)" };
    c.bucket_if(same_angle && np >= 2, "rotation-blocks:repeated-angle");
    let inp = GenInput { a: rnd::<T>(a), kind: kind.to_string(), known: Some(known), known_factor: 1.0, alt: None, separated: false };
    check_gen::<T>(c, &inp);
}

/// Quasi-triangular input (already in real Schur form up to the coupling entries): 1x1 blocks and 2x2 blocks
/// [[a, b], [c, a]] with b·c < 0 on the diagonal, random entries above. Some 2x2 blocks carry a *close* complex
/// pair with entries of very different size (|b| = eps^0.6..eps^0.4, |c| = 0.1..1): the back-substitution through such
/// a block has to pick its pivot with care.
fn gen_quasitri_t<T: RealNumber>(c: &mut Case) {
    let n = c.rng.us(3, 12);
    let mut a = Mat::zeros(n, n);
    let mut i = 0;
    let mut lopsided = false;
    while i < n {
        if i + 1 < n && c.rng.bool(0.45) {
            let d = c.rng.uni(-2.0, 2.0);
            let (b, cc) = if c.rng.bool(0.6) {
                lopsided = true;
                // eps^0.6 .. eps^0.4 of the width: 4e-10..5e-7 in f64, 7e-5..2e-3 in f32 (entries below the unit round-off
                // relative to their neighbours would make the block numerically defective in that width)
                let e = eps::<T>();
                let b = c.rng.logu(e.powf(0.6), e.powf(0.4)) * if c.rng.bool(0.5) { 1.0 } else { -1.0 };
                (b, -b.signum() * c.rng.uni(0.1, 1.0))
            } else {
                let b = c.rng.uni(0.1, 1.5) * if c.rng.bool(0.5) { 1.0 } else { -1.0 };
                (b, -b.signum() * c.rng.uni(0.1, 1.5))
            };
            let (b, cc) = if c.rng.bool(0.5) { (b, cc) } else { (cc, b) };
            a.set(i, i, d);
            a.set(i + 1, i + 1, d);
            a.set(i, i + 1, b);
            a.set(i + 1, i, cc);
            i += 2;
        } else {
            a.set(i, i, c.rng.uni(-3.0, 3.0));
            i += 1;
        }
    }
    for r in 0..n {
        for q in r + 1..n {
            if a.at(r, q) == 0.0 && !(q == r + 1 && a.at(q, r) != 0.0) {
                a.set(r, q, c.rng.normal());
            }
        }
    }
    let kind = if lopsided { "quasi-triangular:lopsided-2x2-blocks" } else { "quasi-triangular:balanced-2x2-blocks" };
    let inp = GenInput { a: rnd::<T>(a), kind: kind.to_string(), known: None, known_factor: 1.0, alt: None, separated: false };
    check_gen::<T>(c, &inp);
}

fn gen_normal_t<T: RealNumber>(c: &mut Case) {
    let n = size(&mut c.rng, NMAX);
    let k = c.rng.below(6);
    let inp = match k {
        0 => {
            // general normal: Q·blockdiag(x, [[a,b],[−b,a]])·Qᵀ
            let np = c.rng.us(0, n / 2);
            let nr = n - 2 * np;
            let pairs: Vec<(f64, f64)> = (0..np).map(|_| (c.rng.uni(-2.0, 2.0), c.rng.uni(0.05, 2.0))).collect();
            let reals: Vec<f64> = (0..nr).map(|_| c.rng.uni(-2.0, 2.0)).collect();
            let (a, known) = normal_from_blocks(c, &reals, &pairs, true);
            GenInput { a: rnd::<T>(a), kind: "normal:Q*blockdiag*Qt".into(), known: Some(known), known_factor: 1.0, alt: None, separated: false }
        }
        1 => {
            // symmetric matrix handed to the general solver; spectrum from the Jacobi reference
            let a = rnd::<T>(rand_sym_dense(c, n));
            let (lam, vv) = jacobi_eig(&a);
            let lvd = Mat::from_fn(n, n, |i, j| vv.at(i, j) * lam[j]);
            let certified = a.mul(&vv).sub(&lvd).fro() <= 1e-12 * a.fro();
            let known = if certified { Some(lam.iter().map(|x| (*x, 0.0)).collect()) } else { None };
            GenInput { a, kind: "normal:symmetric".into(), known, known_factor: 1.0, alt: None, separated: false }
        }
        2 => {
            // skew-symmetric: eigenvalues ±iσ, σ the singular values (each twice; 0 once for odd n)
            let b = Mat::randn(&mut c.rng, n, n);
            let a = rnd::<T>(b.sub(&b.t()).scale(0.5));
            let s = singular_values(&a);
            let mut known = Vec::new();
            let mut i = 0;
            while i + 1 < n {
                let sv = 0.5 * (s[i] + s[i + 1]);
                known.push((0.0, sv));
                known.push((0.0, -sv));
                i += 2;
            }
            if n % 2 == 1 {
                known.push((0.0, 0.0));
            }
            GenInput { a, kind: "normal:skew-symmetric".into(), known: Some(known), known_factor: 1.0, alt: None, separated: false }
        }
        3 => {
            // circulant: eigenvalues are the DFT of the first row
            let row: Vec<f64> = if c.rng.bool(0.3) { (0..n).map(|_| c.rng.int(-3, 3) as f64).collect() } else { (0..n).map(|_| c.rng.normal()).collect() };
            let row: Vec<f64> = if width::<T>() == "f32" { row.iter().map(|x| *x as f32 as f64).collect() } else { row };
            let a = Mat::from_fn(n, n, |i, j| row[(j + n - i) % n]);
            let known: Vec<(f64, f64)> = (0..n)
                .map(|k| {
                    let re = csum((0..n).map(|j| row[j] * (2.0 * std::f64::consts::PI * ((j * k) % n) as f64 / n as f64).cos()));
                    let im = csum((0..n).map(|j| row[j] * (2.0 * std::f64::consts::PI * ((j * k) % n) as f64 / n as f64).sin()));
                    (re, im)
                })
                .collect();
            GenInput { a, kind: "normal:circulant".into(), known: Some(known), known_factor: 1.0, alt: None, separated: false }
        }
        4 => {
            // signed permutation: a cycle of length L with sign product s has the L-th roots of s
            let p = c.rng.perm(n);
            let sgn: Vec<f64> = (0..n).map(|_| if c.rng.bool(0.3) { -1.0 } else { 1.0 }).collect();
            let a = Mat::from_fn(n, n, |i, j| if p[i] == j { sgn[i] } else { 0.0 });
            let mut seen = vec![false; n];
            let mut known = Vec::new();
            for i in 0..n {
                if seen[i] {
                    continue;
                }
                let mut l = 0usize;
                let mut s = 1.0;
                let mut j = i;
                while !seen[j] {
                    seen[j] = true;
                    s *= sgn[j];
                    l += 1;
                    j = p[j];
                }
                for t in 0..l {
                    let ang = if s > 0.0 { 2.0 * std::f64::consts::PI * t as f64 / l as f64 } else { std::f64::consts::PI * (2 * t + 1) as f64 / l as f64 };
                    let (mut re, mut im) = (ang.cos(), ang.sin());
                    // exact values on the axes
                    if im.abs() < 1e-15 {
                        im = 0.0;
                    }
                    if re.abs() < 1e-15 {
                        re = 0.0;
                    }
                    known.push((re, im));
                }
            }
            GenInput { a, kind: "normal:signed-permutation".into(), known: Some(known), known_factor: 1.0, alt: None, separated: false }
        }
        _ => {
            // random orthogonal (Haar): every eigenvalue has modulus one – checked through the invariants
            let a = rnd::<T>(rand_orth(&mut c.rng, n));
            GenInput { a, kind: "normal:orthogonal(haar)".into(), known: None, known_factor: 1.0, alt: None, separated: false }
        }
    };
    check_gen::<T>(c, &inp);
}

fn gen_balance_t<T: RealNumber>(c: &mut Case) {
    let n = size(&mut c.rng, NMAX).max(2);
    let k = c.rng.below(5);
    let (a0, kind): (Mat, &str) = match k {
        0 | 1 => (Mat::randn(&mut c.rng, n, n), "unbalanced:D*gaussian*Dinv"),
        2 => {
            let p = c.rng.uni(0.3, 0.8);
            (Mat::from_fn(n, n, |_, _| if c.rng.bool(p) { 0.0 } else { c.rng.normal() }), "unbalanced:D*sparse*Dinv")
        }
        3 => {
            let np = c.rng.us(0, n / 2);
            let pairs: Vec<(f64, f64)> = (0..np).map(|_| (c.rng.uni(-2.0, 2.0), c.rng.uni(0.05, 2.0))).collect();
            let reals: Vec<f64> = (0..n - 2 * np).map(|_| c.rng.uni(-2.0, 2.0)).collect();
            (normal_from_blocks(c, &reals, &pairs, true).0, "unbalanced:D*normal*Dinv")
        }
        _ => (Mat::from_fn(n, n, |_, _| c.rng.int(-9, 9) as f64), "unbalanced:D*integer*Dinv"),
    };
    let a0 = rnd::<T>(a0);
    let emax = *c.rng.pick(&[3i64, 8, 20]);
    let s: Vec<f64> = (0..n).map(|_| 2f64.powi(c.rng.int(-emax, emax) as i32)).collect();
    // exact (powers of two; magnitudes stay far from the over/underflow limits of f32)
    let a = Mat::from_fn(n, n, |i, j| a0.at(i, j) * s[i] / s[j]);
    c.bucket(&format!("unbalanced:exponent-range-±{}", emax));
    let inp = GenInput { a, kind: kind.to_string(), known: None, known_factor: 1.0, alt: Some((a0, s)), separated: false };
    check_gen::<T>(c, &inp);
}

fn gen_separated_t<T: RealNumber>(c: &mut Case) {
    let n = size(&mut c.rng, NMAX);
    // S with cond(S) ≤ 10 by construction
    let cs = c.rng.uni(1.0, 10.0);
    let sv = graded(n, cs);
    let s = with_singular_values(&mut c.rng, n, n, &sv);
    // well separated real eigenvalues: gaps ≥ step/2, spread ≤ (n+1)·step
    let step = c.rng.logu(0.05, 2.0);
    let off = c.rng.uni(-1.0, 1.0) * n as f64 * step;
    let mut lam: Vec<f64> = (0..n).map(|k| off + step * (k as f64 + c.rng.uni(-0.25, 0.25))).collect();
    c.rng.shuffle(&mut lam);
    let sinv = match solve(&s, &Mat::eye(n)) {
        Some(x) => x,
        None => {
            c.skip("S singular");
            return;
        }
    };
    let sl = Mat::from_fn(n, n, |i, j| s.at(i, j) * lam[j]);
    let a = rnd::<T>(sl.mul(&sinv));
    let cnd = cond(&s);
    if !(cnd <= 10.0 * (1.0 + 1e-9)) {
        c.skip("cond(S) above 10");
        return;
    }
    let known: Vec<(f64, f64)> = lam.iter().map(|x| (*x, 0.0)).collect();
    // Bauer–Fike: eigenvalue error ≤ cond(S)·‖E‖
    let inp = GenInput { a, kind: "separated-real:S*diag(lambda)*Sinv".into(), known: Some(known), known_factor: 10.0, alt: None, separated: true };
    check_gen::<T>(c, &inp);
}

macro_rules! both {
    ($name:ident, $g:ident, $p32:expr) => {
        fn $name(c: &mut Case) {
            if c.rng.bool($p32) {
                $g::<f32>(c)
            } else {
                $g::<f64>(c)
            }
        }
    };
}
both!(sym_random, sym_random_t, 0.35);
both!(sym_repeated, sym_repeated_t, 0.35);
both!(sym_diag, sym_diag_t, 0.35);
both!(sym_block, sym_block_t, 0.35);
both!(sym_rankdef, sym_rankdef_t, 0.35);
both!(sym_special, sym_special_t, 0.35);
both!(gen_random, gen_random_t, 0.35);
both!(gen_triangular, gen_triangular_t, 0.35);
both!(gen_companion, gen_companion_t, 0.35);
both!(gen_rotblock, gen_rotblock_t, 0.35);
both!(gen_normal, gen_normal_t, 0.35);
both!(gen_balance, gen_balance_t, 0.35);
both!(gen_separated, gen_separated_t, 0.35);
both!(gen_quasitri, gen_quasitri_t, 0.3);

/// the symmetric families and the random / normal general ones on orders 31..105 (beyond the ordinary bound of 30; the
/// structured general families - companion, triangular, badly balanced - have eigenvector condition numbers that grow
/// with the order beyond what the residual bound of the ordinary range allows, so they stay at their ordinary sizes)
fn large(c: &mut Case) {
    let g = c.index % 8;
    scverif::with_big(1, || match g {
        0 => sym_random(c),
        1 => sym_repeated(c),
        2 => sym_diag(c),
        3 => sym_block(c),
        4 => sym_rankdef(c),
        5 => sym_special(c),
        6 => gen_random(c),
        _ => gen_normal(c),
    })
}

/// general random matrices of order 258..300 (row and pivot indices beyond one byte)
fn order_above_256(c: &mut Case) {
    scverif::with_big(2, || gen_random(c))
}

fn main() {
    runner::main(Spec {
        property: "C02",
        rule: "cases are drawn per family from seeded structured generators, order n in 1..30 (biased to small n), f64 (65 %) or f32 (35 %). Symmetric solver evd(true): random (Gaussian, integer, sparse, banded, prescribed spectrum), repeated eigenvalues Q·diag(λ with multiplicities)·Qᵀ, diagonal, block-diagonal / tridiagonal with zero couplings (optionally symmetrically permuted), exactly rank-deficient, classical special matrices; every symmetric input is rescaled by 1 / 10^u / 2^u with the factor in [1e-12,1e12] and rounded to the width under test. General solver evd(false): random (Gaussian, integer, sparse, positive, nearly symmetric, block-triangular, Hessenberg, stochastic), triangular (incl. repeated diagonal, nilpotent, Jordan), companion (four layouts; x^n−1, x^n, Wilkinson roots, random roots/coefficients), rotation blocks Q·blockdiag(R(θ),±1)·Qᵀ, normal (Q·blockdiag·Qᵀ, symmetric, skew-symmetric, circulant, signed permutation, Haar orthogonal), badly balanced D·A0·D⁻¹ with D = powers of two up to 2^±20, and S·diag(λ)·S⁻¹ with cond(S) ≤ 10 and well separated real λ. A case is non-trivial when n ≥ 2; distinct = distinct hash of (solver, width, n, entries of A); large: the symmetric families and the random / normal general ones on orders 31..105; order_above_256: general random matrices of order 258..300",
        assumptions: vec![
            "oracle arithmetic is f64 with compensated sums on the already-rounded inputs",
            "symmetric: tau = 100·n·eps relative to ‖A‖_F (orthonormality: absolute); the comparison with the independent Jacobi reference uses 3·tau because it is implied by the residual and orthonormality oracles through Weyl's inequality",
            "general: tau_g = 1e4·n·eps relative to ‖A‖_F (‖A‖_F² for the trace of the square); no ordering and nothing about the columns of complex eigenvalues is demanded",
            "general, badly balanced family only: an eigenpair residual / eigenvalue backward error is accepted when it is small either relative to ‖A‖_F or, in the coordinates A0 = D⁻¹·A·D in which the matrix was generated, relative to ‖A0‖_F (a solver that balances is backward stable in balanced coordinates only)",
            "'the returned values are the spectrum' is monitored through the stated trace identities, the conjugate pairing, σ_min(A − λI) ≤ tau_g‖A‖_F for every complex eigenvalue (certificate by inverse iteration, exact Jacobi SVD before an alarm) and, where the spectrum is known by construction and perfectly conditioned (normal matrices; cond(S) ≤ 10 with factor 10), a bottleneck matching against it",
        ],
        families: vec![
            Family::new("sym_random", 1200, 24000, sym_random),
            Family::new("sym_repeated", 900, 18000, sym_repeated),
            Family::new("sym_diag", 500, 10000, sym_diag),
            Family::new("sym_block", 900, 18000, sym_block),
            Family::new("sym_rankdef", 700, 14000, sym_rankdef),
            Family::new("sym_special", 500, 10000, sym_special),
            Family::new("gen_random", 1400, 28000, gen_random),
            Family::new("gen_triangular", 700, 14000, gen_triangular),
            Family::new("gen_companion", 700, 14000, gen_companion),
            Family::new("gen_rotblock", 600, 12000, gen_rotblock),
            Family::new("gen_normal", 800, 16000, gen_normal),
            Family::new("gen_balance", 800, 16000, gen_balance),
            Family::new("gen_separated", 700, 14000, gen_separated),
            Family::new("gen_quasitri", 700, 14000, gen_quasitri),
            Family::new("large", 60, 400, large),
            Family::new("order_above_256", 6, 8, order_above_256),
        ],
        min_nontrivial: 1500,
        case_timeout_s: 120,
    });
}
