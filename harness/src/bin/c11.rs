//! C11 — Naive Bayes (Gaussian, multinomial, Bernoulli with optional binarisation, categorical):
//! the fitted model reports the sufficient statistics of the training data under the documented additive
//! smoothing, and `predict` returns a class maximising log prior + Σ per-feature log-likelihood computed
//! from those *reported* statistics.
//!
//! Soundness notes
//! * the order in which the model lists its classes is not prescribed by the statement: everything is
//!   aligned by label value (user priors, which are positional, must be stored exactly as supplied);
//! * the MAP oracle never uses the harness's own statistics, only the reported ones; a class is accepted
//!   when its score is within 1e-9·max(S_j, S_best) (S = Σ|terms| of a class) plus an explicit forward
//!   rounding bound of the maximum;
//! * Gaussian moments: mean within 1e-9·max|x| of the compensated mean, variance within
//!   1e-9·variance + (n·eps·max|x|)² of the compensated two-pass population variance (the second term is
//!   the unavoidable effect of the rounded mean and is negligible unless E[x²]/Var exceeds ~1e18). The signature of a moment violation is the measured
//!   conditioning κ = E[x²]/Var[x] of the (class, feature) column (decade), nothing random.
use scverif::refla::{csum, mean_v, var_pop};
use scverif::*;
use smartcore::linalg::naive::dense_matrix::DenseMatrix;
use smartcore::math::num::RealNumber;
use smartcore::naive_bayes::bernoulli::{BernoulliNB, BernoulliNBParameters};
use smartcore::naive_bayes::categorical::{CategoricalNB, CategoricalNBParameters};
use smartcore::naive_bayes::gaussian::{GaussianNB, GaussianNBParameters};
use smartcore::naive_bayes::multinomial::{MultinomialNB, MultinomialNBParameters};
use std::collections::BTreeSet;

// ------------------------------------------------------------------------------------------------
// tolerances
// ------------------------------------------------------------------------------------------------

/// absolute/relative tolerance for a reported log-probability / prior computed in T from exact counts
fn tol_lp<T: RealNumber>() -> f64 {
    if width::<T>() == "f32" {
        1e-5
    } else {
        1e-12
    }
}

/// tolerance for Σ exp(log-prob) = 1 and Σ priors = 1
fn tol_sum<T: RealNumber>() -> f64 {
    if width::<T>() == "f32" {
        1e-4
    } else {
        1e-10
    }
}

const TOL_PRIOR_SUM_F64: f64 = 1e-12;
const TOL_MOMENT: f64 = 1e-9;
const TOL_TIE: f64 = 1e-9;

// ------------------------------------------------------------------------------------------------
// labels / class structure of a training set
// ------------------------------------------------------------------------------------------------

struct Labels {
    /// distinct labels present in y, ascending
    vals: Vec<i64>,
    /// class index (into `vals`) of every row
    yi: Vec<usize>,
    style: &'static str,
}

impl Labels {
    fn n(&self) -> usize {
        self.yi.len()
    }
    fn k(&self) -> usize {
        self.vals.len()
    }
    fn y(&self) -> Vec<f64> {
        self.yi.iter().map(|&i| self.vals[i] as f64).collect()
    }
    fn counts(&self) -> Vec<usize> {
        let mut cnt = vec![0usize; self.k()];
        for &i in &self.yi {
            cnt[i] += 1;
        }
        cnt
    }
    fn rows_of(&self, k: usize) -> Vec<usize> {
        (0..self.n()).filter(|&r| self.yi[r] == k).collect()
    }
}

fn distinct_ints(c: &mut Case, k: usize, lo: i64, hi: i64) -> Vec<i64> {
    let mut s: BTreeSet<i64> = BTreeSet::new();
    while s.len() < k {
        s.insert(c.rng.int(lo, hi));
    }
    s.into_iter().collect()
}

/// 2..5 classes, skewed frequencies, every class gets at least `min_per_class` rows, 2..120 rows in
/// arbitrary order. `categorical`: labels are small non-negative integers (the variant enumerates 0..max).
fn draw_labels(c: &mut Case, categorical: bool, min_per_class: usize) -> Labels {
    let k = c.rng.us(2, 5);
    let minrows = (k * min_per_class).max(2);
    let n = if c.rng.bool(0.55) { c.rng.us(minrows, minrows.max(14)) } else { c.rng.us(minrows, 120) };
    let (vals, style): (Vec<i64>, &'static str) = if categorical {
        if c.rng.bool(0.5) {
            ((0..k as i64).collect(), "0..k-1")
        } else {
            let v = distinct_ints(c, k, 0, 9);
            let contiguous = v.iter().enumerate().all(|(i, x)| *x == i as i64);
            (v, if contiguous { "0..k-1" } else { "nonneg-gaps" })
        }
    } else {
        match c.rng.below(6) {
            0 => ((0..k as i64).collect(), "0..k-1"),
            1 => ((1..=k as i64).collect(), "1..k"),
            2 => (distinct_ints(c, k, -9, 9), "small-arbitrary"),
            3 => (distinct_ints(c, k, -1000, 1000), "wide"),
            4 => (distinct_ints(c, k, -2_000_000, 2_000_000), "huge"),
            _ => ((-(k as i64)..0).collect(), "negative-contiguous"),
        }
    };
    // skewed class weights
    let w: Vec<f64> = (0..k).map(|_| c.rng.logu(0.03, 1.0)).collect();
    let wsum: f64 = w.iter().sum();
    let mut yi: Vec<usize> = Vec::with_capacity(n);
    for cls in 0..k {
        for _ in 0..min_per_class {
            yi.push(cls);
        }
    }
    while yi.len() < n {
        let u = c.rng.f() * wsum;
        let mut acc = 0.0;
        let mut pick = k - 1;
        for (i, wi) in w.iter().enumerate() {
            acc += wi;
            if u < acc {
                pick = i;
                break;
            }
        }
        yi.push(pick);
    }
    c.rng.shuffle(&mut yi);
    c.bucket(&format!("labels:{}", style));
    c.bucket(&format!("classes:{}", k));
    c.bucket(if n <= 14 { "rows:<=14" } else { "rows:>14" });
    let cnt = {
        let mut cnt = vec![0usize; k];
        for &i in &yi {
            cnt[i] += 1;
        }
        cnt
    };
    let (mn, mx) = (cnt.iter().min().cloned().unwrap_or(0), cnt.iter().max().cloned().unwrap_or(0));
    c.bucket_if(mx >= 5 * mn.max(1), "frequencies:skewed>=5x");
    Labels { vals, yi, style }
}

/// user-supplied priors: positive, normalised (sum to one up to rounding), rounded to T
fn draw_priors<T: RealNumber>(c: &mut Case, k: usize) -> Vec<f64> {
    // special prior vectors: exactly uniform, one dominant class, two equal entries — then generic ones
    let kind = c.rng.below(10);
    if kind == 0 {
        c.bucket("priors:exactly-uniform");
        return fv(&tv::<T>(&vec![1.0 / k as f64; k]));
    }
    let w: Vec<f64> = if kind == 1 {
        c.bucket("priors:one-dominant");
        let d = c.rng.below(k);
        (0..k).map(|j| if j == d { 1.0 } else { 1e-6 }).collect()
    } else if kind == 2 && k >= 3 {
        c.bucket("priors:two-equal");
        let v = c.rng.logu(0.02, 1.0);
        (0..k).map(|j| if j < 2 { v } else { c.rng.logu(0.02, 1.0) }).collect()
    } else {
        (0..k).map(|_| c.rng.logu(0.02, 1.0)).collect()
    };
    let s: f64 = w.iter().sum();
    let p: Vec<f64> = w.iter().map(|x| x / s).collect();
    fv(&tv::<T>(&p))
}

fn draw_alpha<T: RealNumber>(c: &mut Case) -> f64 {
    let a = if c.rng.bool(0.25) { 1.0 } else { c.rng.logu(1e-2, 5.0) };
    c.bucket(if a == 1.0 {
        "alpha:=1"
    } else if a < 1.0 {
        "alpha:<1"
    } else {
        "alpha:>1"
    });
    f(t::<T>(a))
}

// ------------------------------------------------------------------------------------------------
// what a model reports (common part) and its comparison with the training data
// ------------------------------------------------------------------------------------------------

struct Reported {
    classes: Vec<f64>,
    count: Vec<usize>,
    priors: Vec<f64>,
}

/// class_priors through the serde view (no getter on the count-based variants); values are re-rounded to
/// T so that the decimal rendering of an f32 cannot matter
fn serde_priors<T: RealNumber, S: serde::Serialize>(m: &S) -> Option<Vec<f64>> {
    let v = serde_json::to_value(m).ok()?;
    let arr = v.get("inner")?.get("distribution")?.get("class_priors")?.as_array()?;
    let mut out = Vec::with_capacity(arr.len());
    for x in arr {
        out.push(f(t::<T>(x.as_f64()?)));
    }
    Some(out)
}

/// Compares classes / class counts / priors with the training data. `exp_labels` (distinct) with
/// `exp_counts` (zero allowed: categorical gaps). Returns for every expected class the index at which
/// the model reports it, or None when the class structure itself is wrong.
fn check_common<T: RealNumber>(
    c: &mut Case,
    v: &str,
    sg: &str,
    exp_labels: &[f64],
    exp_counts: &[usize],
    rep: &Reported,
    user_priors: Option<&[f64]>,
) -> Option<Vec<usize>> {
    let n: usize = exp_counts.iter().sum();
    let k = exp_labels.len();
    let shapes_ok = rep.classes.len() == k && rep.count.len() == k && rep.priors.len() == k;
    c.check(&format!("{}.class-vectors-shape", v), shapes_ok, sg, || {
        format!("expected {} classes; reported classes {:?}, class_count {:?}, priors {:?}", k, rep.classes, rep.count, rep.priors)
    });
    // classes: the distinct labels, each exactly once
    let mut map: Vec<usize> = Vec::with_capacity(k);
    let mut classes_ok = rep.classes.len() == k;
    if classes_ok {
        for l in exp_labels {
            let hits: Vec<usize> = (0..rep.classes.len()).filter(|&j| rep.classes[j] == *l).collect();
            if hits.len() == 1 {
                map.push(hits[0]);
            } else {
                classes_ok = false;
                break;
            }
        }
    }
    c.check(&format!("{}.classes", v), classes_ok, sg, || format!("distinct training labels {:?}, model reports classes {:?}", exp_labels, rep.classes));
    if !classes_ok || !shapes_ok {
        return None;
    }
    let sorted = rep.classes.windows(2).all(|w| w[0] < w[1]);
    c.bucket_if(sorted, "classes-reported-ascending");
    // class counts
    let counts_ok = (0..k).all(|i| rep.count[map[i]] == exp_counts[i]);
    c.check(&format!("{}.class_count", v), counts_ok, sg, || {
        format!("labels {:?} occur {:?} times; model: classes {:?} class_count {:?}", exp_labels, exp_counts, rep.classes, rep.count)
    });
    // priors
    match user_priors {
        Some(up) => {
            let ok = rep.priors.len() == up.len() && (0..up.len()).all(|i| rep.priors[i] == up[i]);
            c.check(&format!("{}.priors-user", v), ok, sg, || format!("supplied priors {:?}, stored {:?}", up, rep.priors));
        }
        None => {
            let mut worst = 0.0f64;
            for i in 0..k {
                let e = exp_counts[i] as f64 / n as f64;
                let d = (rep.priors[map[i]] - e).abs();
                let d = if d.is_nan() { f64::INFINITY } else { d };
                worst = worst.max(d);
            }
            c.ratio(&format!("{}.priors-frequency", v), worst, 4.0 * eps::<T>(), sg, || {
                format!("class frequencies {:?}/{} vs reported priors {:?} (classes {:?})", exp_counts, n, rep.priors, rep.classes)
            });
        }
    }
    let s = csum(rep.priors.iter().cloned());
    let tol = if width::<T>() == "f32" { tol_lp::<T>() } else { TOL_PRIOR_SUM_F64 };
    let dev = (s - 1.0).abs();
    c.ratio(&format!("{}.priors-sum", v), if dev.is_nan() { f64::INFINITY } else { dev }, tol, sg, || format!("priors {:?} sum to {}", rep.priors, s));
    Some(map)
}

// ------------------------------------------------------------------------------------------------
// MAP oracle on reported statistics
// ------------------------------------------------------------------------------------------------

#[derive(Clone, Debug)]
struct Score {
    score: f64,
    /// Σ|terms| over the finite terms
    s: f64,
    /// forward rounding bound of the library's accumulation in T
    err: f64,
}

/// terms: log prior followed by the per-feature log-likelihood terms (each finite, or −∞ for a zero
/// prior); `extra` is an additional absolute error allowance for ill-conditioned terms
fn score_of(terms: &[f64], extra: f64, eps_t: f64) -> Score {
    if terms.iter().any(|x| x.is_nan() || *x == f64::INFINITY) {
        return Score { score: f64::NAN, s: f64::NAN, err: f64::NAN };
    }
    let s = csum(terms.iter().filter(|x| x.is_finite()).map(|x| x.abs()));
    let err = 8.0 * (terms.len() as f64 + 2.0) * eps_t * s + extra;
    if terms.iter().any(|x| *x == f64::NEG_INFINITY) {
        return Score { score: f64::NEG_INFINITY, s, err };
    }
    Score { score: csum(terms.iter().cloned()), s, err }
}

/// `scores[q][j]` = score of reported class j for query q; `preds[q]` = label returned by predict
fn check_map(c: &mut Case, v: &str, wd: &str, classes: &[f64], qkind: &[&'static str], scores: &[Vec<Score>], preds: &[f64], prior_argmax: usize) {
    if !c.check(&format!("{}.predict-length", v), preds.len() == scores.len(), wd, || format!("{} query rows, {} predictions", scores.len(), preds.len())) {
        return;
    }
    for q in 0..scores.len() {
        let sc = &scores[q];
        let sg = format!("{}/query:{}", wd, qkind[q]);
        if sc.iter().any(|x| x.score.is_nan()) {
            c.bucket("map:skipped(non-finite reported statistics)");
            continue;
        }
        let mut best = 0usize;
        for j in 1..sc.len() {
            if sc[j].score > sc[best].score {
                best = j;
            }
        }
        // slack of class j against the maximum: relative to the magnitudes of the two sums being compared
        let slack = |j: usize| TOL_TIE * sc[j].s.max(sc[best].s) + sc[j].err + sc[best].err;
        let accepted: Vec<bool> = (0..sc.len()).map(|j| sc[j].score >= sc[best].score - slack(j)).collect();
        let n_acc = accepted.iter().filter(|x| **x).count();
        let hit: Vec<usize> = (0..classes.len()).filter(|&j| classes[j] == preds[q]).collect();
        if !c.check(&format!("{}.predict-returns-a-class", v), hit.len() == 1, &sg, || format!("predicted {} is not one of the classes {:?}", preds[q], classes)) {
            continue;
        }
        let j = hit[0];
        c.check(&format!("{}.map", v), accepted[j], &sg, || {
            format!(
                "query #{}: predicted label {} (class index {}) has score {:.17e}, the maximum is {:.17e} at class {} (label {}); all scores {:?}; tie slack {:e}",
                q,
                preds[q],
                j,
                sc[j].score,
                sc[best].score,
                best,
                classes[best],
                sc.iter().map(|x| x.score).collect::<Vec<f64>>(),
                slack(j)
            )
        });
        if n_acc < sc.len() {
            c.nontrivial();
        }
        c.bucket_if(n_acc > 1, "map:near-tie-accepted");
        c.bucket_if(j != prior_argmax, "map:prediction-differs-from-largest-prior");
        c.bucket(&format!("query:{}", qkind[q]));
    }
}

fn prior_argmax(p: &[f64]) -> usize {
    let mut b = 0;
    for j in 1..p.len() {
        if p[j] > p[b] {
            b = j;
        }
    }
    b
}

fn ln_prior(p: f64) -> f64 {
    if p == 0.0 {
        f64::NEG_INFINITY
    } else {
        p.ln() // NaN for negative / NaN priors: MAP skipped, the prior oracles have fired
    }
}

/// query rows: some training rows, some rows mixing per-feature values of different training rows
/// (every value occurred in training, the row usually did not), optionally fresh rows
fn draw_queries(c: &mut Case, x: &Mat, fresh: &mut dyn FnMut(&mut Case, usize) -> f64, n_fresh: usize) -> (Mat, Vec<&'static str>) {
    let (n, d) = (x.r, x.c);
    let mut rows: Vec<Vec<f64>> = Vec::new();
    let mut kind: Vec<&'static str> = Vec::new();
    let ntrain = n.min(8);
    let p = c.rng.perm(n);
    for i in 0..ntrain {
        rows.push(x.row(p[i]));
        kind.push("training-row");
    }
    for _ in 0..5 {
        let r: Vec<f64> = (0..d).map(|j| x.at(c.rng.below(n), j)).collect();
        rows.push(r);
        kind.push("mixed-training-values");
    }
    for _ in 0..n_fresh {
        let r: Vec<f64> = (0..d).map(|j| fresh(c, j)).collect();
        rows.push(r);
        kind.push("fresh-row");
    }
    (Mat::from_rows(&rows), kind)
}

fn hash_case(c: &mut Case, tag: f64, x: &Mat, y: &[f64], extra: &[f64]) {
    c.hash_f64s(&[tag, x.r as f64, x.c as f64]);
    c.hash_f64s(&x.d);
    c.hash_f64s(y);
    c.hash_f64s(extra);
}

// ------------------------------------------------------------------------------------------------
// Gaussian
// ------------------------------------------------------------------------------------------------

fn cond_class(kappa: f64) -> String {
    if !(kappa >= 1e4) {
        "cond<1e4".to_string()
    } else {
        let d = kappa.log10().floor() as i64;
        format!("cond:1e{}", d.min(17))
    }
}

fn gaussian_gen(c: &mut Case, offset: bool) {
    let idx = c.index;
    let lab = draw_labels(c, false, 2);
    let (n, k) = (lab.n(), lab.k());
    let d = c.rng.us(1, 8);
    let integer = !offset && c.rng.bool(0.3);
    // per-feature location / scale, per (class, feature) shift / spread
    let mut scale = vec![1.0f64; d];
    let mut loc = vec![0.0f64; d];
    let forced = c.rng.below(d);
    for j in 0..d {
        if !integer && c.rng.bool(0.6) {
            // mostly moderate units; a fifth of the scaled features in very small or very large units
            // ("real features" of any scale: the variances then sit far below / above 1)
            scale[j] = if c.rng.bool(0.2) { if c.rng.bool(0.5) { c.rng.logu(1e-12, 1e-6) } else { c.rng.logu(1e4, 1e8) } } else { c.rng.logu(1e-3, 1e3) };
            if scale[j] < 1e-3 || scale[j] > 1e3 {
                c.bucket("gaussian:feature-in-extreme-units");
            }
        }
        let ratio = if offset && (j == forced || c.rng.bool(0.5)) {
            c.rng.logu(1e3, 1e8) * if c.rng.bool(0.5) { 1.0 } else { -1.0 }
        } else if c.rng.bool(0.4) {
            0.0
        } else {
            c.rng.uni(-20.0, 20.0)
        };
        loc[j] = if integer { ratio.round() } else { ratio * scale[j] };
    }
    let overlap = c.rng.bool(0.3);
    let shift: Vec<Vec<f64>> = (0..k).map(|_| (0..d).map(|_| if overlap { c.rng.uni(-0.3, 0.3) } else { c.rng.uni(-3.0, 3.0) }).collect()).collect();
    let spread: Vec<Vec<f64>> = (0..k).map(|_| (0..d).map(|_| c.rng.logu(0.3, 3.0)).collect()).collect();
    let mut x = Mat::zeros(n, d);
    for r in 0..n {
        let cl = lab.yi[r];
        for j in 0..d {
            let z = shift[cl][j] + spread[cl][j] * c.rng.normal();
            let v = if integer { (2.0 * z).round() + loc[j] } else { loc[j] + scale[j] * z };
            x.set(r, j, v);
        }
    }
    // validity of the input: within every class every feature takes at least two distinct values
    for cl in 0..k {
        let rows = lab.rows_of(cl);
        for j in 0..d {
            let first = x.at(rows[0], j);
            if rows.iter().all(|&r| x.at(r, j) == first) {
                let bump = if integer { 1.0 } else { scale[j] };
                x.set(rows[0], j, first + bump);
            }
        }
    }
    let y = lab.y();
    let user_priors = if c.rng.bool(0.35) { Some(draw_priors::<f64>(c, k)) } else { None };
    c.bucket(if user_priors.is_some() { "priors:user" } else { "priors:empirical" });
    c.bucket(if integer { "gaussian:integer-features" } else { "gaussian:real-features" });
    c.bucket_if(overlap, "gaussian:overlapping-classes");
    let mut fresh = |c: &mut Case, j: usize| -> f64 {
        if integer {
            loc[j] + c.rng.int(-10, 10) as f64
        } else {
            loc[j] + scale[j] * c.rng.uni(-6.0, 6.0)
        }
    };
    let (qm, qkind) = draw_queries(c, &x, &mut fresh, 6);
    c.describe(json!({"variant": "gaussian", "width": "f64", "priors": user_priors, "y": y, "X": mat_json(&x), "queries": mat_json(&qm)}));
    hash_case(c, 1.0, &x, &y, user_priors.as_deref().unwrap_or(&[]));

    let xm: DenseMatrix<f64> = to_dense(&x);
    let params = match &user_priors {
        Some(p) => GaussianNBParameters::default().with_priors(p.clone()),
        None => GaussianNBParameters::default(),
    };
    let sg = format!("f64/labels:{}", lab.style);
    let model = match c.must("gaussian.fit", || GaussianNB::fit(&xm, &y, scverif::reused(idx, params))) {
        Some(Ok(m)) => m,
        Some(Err(e)) => {
            c.check("gaussian.fit-ok", false, &sg, || format!("fit returned Err({}) on a valid training set", e));
            return;
        }
        None => return,
    };
    let rep = Reported { classes: model.classes().clone(), count: model.class_count().clone(), priors: model.class_priors().clone() };
    let exp_labels: Vec<f64> = lab.vals.iter().map(|v| *v as f64).collect();
    let map = match check_common::<f64>(c, "gaussian", &sg, &exp_labels, &lab.counts(), &rep, user_priors.as_deref()) {
        Some(m) => m,
        None => return,
    };
    let theta = model.theta().clone();
    let var = model.var().clone();
    let shape_ok = theta.len() == k && var.len() == k && theta.iter().all(|r| r.len() == d) && var.iter().all(|r| r.len() == d);
    if !c.check("gaussian.moments-shape", shape_ok, &sg, || format!("theta {}x?, var {}x?, expected {}x{}", theta.len(), var.len(), k, d)) {
        return;
    }
    let mut worst_kappa = 0.0f64;
    let mut stats_valid = true;
    for cl in 0..k {
        let rows = lab.rows_of(cl);
        let rj = map[cl];
        for j in 0..d {
            let col: Vec<f64> = rows.iter().map(|&r| x.at(r, j)).collect();
            let m_ref = mean_v(&col);
            let v_ref = var_pop(&col);
            let maxabs = col.iter().fold(0.0f64, |m, v| m.max(v.abs()));
            if !(v_ref > 0.0) {
                // cannot happen (two distinct values) unless the reference itself underflows
                c.inconclusive("reference variance not positive");
                return;
            }
            let ex2 = csum(col.iter().map(|v| v * v)) / col.len() as f64;
            let kappa = ex2 / v_ref;
            worst_kappa = worst_kappa.max(kappa);
            let cc = cond_class(kappa);
            let dm = (theta[rj][j] - m_ref).abs();
            c.ratio("gaussian.theta", if dm.is_nan() { f64::INFINITY } else { dm }, TOL_MOMENT * maxabs, &cc, || {
                format!("class {} feature {}: reported mean {:e}, reference {:e} ({} rows)", lab.vals[cl], j, theta[rj][j], m_ref, col.len())
            });
            let dv = (var[rj][j] - v_ref).abs();
            // the centre of the column is only known to n·eps·max|x| in working precision, and a centre off
            // by δ inflates the centred second moment by exactly δ² (matters only for E[x²]/Var > ~1e18)
            let dmean = col.len() as f64 * eps::<f64>() * maxabs;
            c.ratio("gaussian.var", if dv.is_nan() { f64::INFINITY } else { dv }, TOL_MOMENT * v_ref + dmean * dmean, &cc, || {
                format!(
                    "class {} feature {}: reported variance {:e}, two-pass population variance {:e} ({} rows, mean {:e}, E[x^2]/Var = {:e}), column {:?}",
                    lab.vals[cl],
                    j,
                    var[rj][j],
                    v_ref,
                    col.len(),
                    m_ref,
                    kappa,
                    if col.len() <= 6 { col.clone() } else { col[..6].to_vec() }
                )
            });
            if !(var[rj][j] > 0.0 && var[rj][j].is_finite()) {
                stats_valid = false;
                c.check("gaussian.var-positive", false, &cc, || {
                    format!("class {} feature {}: reported variance {:e} although the column has distinct values (reference {:e})", lab.vals[cl], j, var[rj][j], v_ref)
                });
            } else {
                c.count("gaussian.var-positive");
            }
        }
    }
    c.bucket(&format!("gaussian:{}", cond_class(worst_kappa)));
    // MAP from the reported statistics
    let qd: DenseMatrix<f64> = to_dense(&qm);
    let preds = match c.must("gaussian.predict", || model.predict(&qd)) {
        Some(Ok(p)) => p,
        Some(Err(e)) => {
            c.check("gaussian.predict-ok", false, &sg, || format!("predict returned Err({})", e));
            return;
        }
        None => return,
    };
    // the same prediction requested through the uniform api::Predictor trait (generic code path)
    if let Some(Ok(tp)) = c.must("gaussian.predict(trait)", || scverif::trait_predict(&model, &qd)) {
        let tp = tp;
        c.check("gaussian.predictor-trait=predict", tp == preds, &sg, || format!("api::Predictor::predict returned {:?}, the inherent predict {:?}", tp, preds));
    }
    sequence_checks(c, "gaussian", &sg, &model, &qd, &preds, |m, q| m.predict(q));
    if !stats_valid {
        c.bucket("map:skipped(non-finite reported statistics)");
        return;
    }
    let ln2pi = (2.0 * std::f64::consts::PI).ln();
    let mut scores: Vec<Vec<Score>> = Vec::with_capacity(qm.r);
    for q in 0..qm.r {
        let mut row = Vec::with_capacity(k);
        for cj in 0..k {
            let mut terms = vec![ln_prior(rep.priors[cj])];
            for j in 0..d {
                let dx = qm.at(q, j) - theta[cj][j];
                terms.push(-(dx * dx) / (2.0 * var[cj][j]));
                terms.push(-0.5 * ln2pi);
                terms.push(-0.5 * var[cj][j].ln());
            }
            row.push(score_of(&terms, 0.0, eps::<f64>()));
        }
        scores.push(row);
    }
    check_map(c, "gaussian", "f64", &rep.classes, &qkind, &scores, &preds, prior_argmax(&rep.priors));
}

fn gaussian(c: &mut Case) {
    gaussian_gen(c, false)
}

fn gaussian_offset(c: &mut Case) {
    c.bucket("gaussian:large-common-offset");
    gaussian_gen(c, true)
}

// ------------------------------------------------------------------------------------------------
// multinomial
// ------------------------------------------------------------------------------------------------

fn multinomial_t<T: SNum>(c: &mut Case) {
    let idx = c.index;
    let wd = width::<T>();
    c.bucket(&format!("width:{}", wd));
    let lab = draw_labels(c, false, 1);
    let (n, k) = (lab.n(), lab.k());
    let d = c.rng.us(1, 8);
    let alpha = draw_alpha::<T>(c);
    // per (class, feature) rate; some features never occur in a class
    let rate: Vec<Vec<f64>> = (0..k).map(|_| (0..d).map(|_| if c.rng.bool(0.2) { 0.0 } else { c.rng.logu(0.05, 3.0) }).collect()).collect();
    let mut x = Mat::zeros(n, d);
    for r in 0..n {
        for j in 0..d {
            let lam = rate[lab.yi[r]][j];
            let v = (-(1.0 - c.rng.f()).ln() * lam).floor().min(9.0);
            x.set(r, j, v);
        }
    }
    let y = lab.y();
    let user_priors = if c.rng.bool(0.35) { Some(draw_priors::<T>(c, k)) } else { None };
    c.bucket(if user_priors.is_some() { "priors:user" } else { "priors:empirical" });
    let mut fresh = |c: &mut Case, _j: usize| -> f64 { c.rng.int(0, 6) as f64 };
    let (qm, qkind) = draw_queries(c, &x, &mut fresh, 6);
    c.describe(json!({"variant": "multinomial", "width": wd, "alpha": alpha, "priors": user_priors, "y": y, "X": mat_json(&x), "queries": mat_json(&qm)}));
    hash_case(c, if wd == "f32" { 2.5 } else { 2.0 }, &x, &y, &[alpha]);
    c.hash_f64s(user_priors.as_deref().unwrap_or(&[]));

    let xm: DenseMatrix<T> = to_dense(&x);
    let yt: Vec<T> = tv(&y);
    let mut params = MultinomialNBParameters::default().with_alpha(t::<T>(alpha));
    if let Some(p) = &user_priors {
        params = params.with_priors(tv::<T>(p));
    }
    let sg = format!("{}/labels:{}", wd, lab.style);
    let model = match c.must("multinomial.fit", || MultinomialNB::fit(&xm, &yt, scverif::reused(idx, params))) {
        Some(Ok(m)) => m,
        Some(Err(e)) => {
            c.check("multinomial.fit-ok", false, &sg, || format!("fit returned Err({}) on a valid training set", e));
            return;
        }
        None => return,
    };
    let priors = match serde_priors::<T, _>(&model) {
        Some(p) => p,
        None => {
            c.inconclusive("serde view of MultinomialNB has no inner.distribution.class_priors array");
            return;
        }
    };
    let rep = Reported { classes: fv(model.classes()), count: model.class_count().clone(), priors };
    let exp_labels: Vec<f64> = lab.vals.iter().map(|v| *v as f64).collect();
    let map = match check_common::<T>(c, "multinomial", &sg, &exp_labels, &lab.counts(), &rep, user_priors.as_deref()) {
        Some(m) => m,
        None => return,
    };
    let fc = model.feature_count().clone();
    let flp: Vec<Vec<f64>> = model.feature_log_prob().iter().map(|r| fv(r)).collect();
    let shape_ok = fc.len() == k && flp.len() == k && fc.iter().all(|r| r.len() == d) && flp.iter().all(|r| r.len() == d) && model.n_features() == d;
    if !c.check("multinomial.statistics-shape", shape_ok, &sg, || format!("feature_count {}x?, feature_log_prob {}x?, n_features {}, expected {}x{}", fc.len(), flp.len(), model.n_features(), k, d)) {
        return;
    }
    let mut stats_valid = true;
    for cl in 0..k {
        let rows = lab.rows_of(cl);
        let rj = map[cl];
        let exp_fc: Vec<usize> = (0..d).map(|j| rows.iter().map(|&r| x.at(r, j) as usize).sum()).collect();
        c.check("multinomial.feature_count", fc[rj] == exp_fc, &sg, || format!("class {}: Σ counts per feature {:?}, reported {:?}", lab.vals[cl], exp_fc, fc[rj]));
        c.bucket_if(exp_fc.iter().any(|v| *v == 0), "multinomial:zero-count-feature");
        let nc: usize = exp_fc.iter().sum();
        c.bucket_if(nc == 0, "multinomial:class-without-any-count");
        let mut worst = 0.0f64;
        let mut wj = 0;
        for j in 0..d {
            let e = ((exp_fc[j] as f64 + alpha) / (nc as f64 + alpha * d as f64)).ln();
            let dv = (flp[rj][j] - e).abs() / e.abs().max(1.0);
            let dv = if dv.is_nan() { f64::INFINITY } else { dv };
            if dv >= worst {
                worst = dv;
                wj = j;
            }
            if !flp[rj][j].is_finite() {
                stats_valid = false;
            }
        }
        c.ratio("multinomial.feature_log_prob", worst, tol_lp::<T>(), &sg, || {
            format!(
                "class {} feature {}: reported {:e}, expected ln(({}+{})/({}+{}*{})) = {:e}",
                lab.vals[cl],
                wj,
                flp[rj][wj],
                exp_fc[wj],
                alpha,
                nc,
                alpha,
                d,
                ((exp_fc[wj] as f64 + alpha) / (nc as f64 + alpha * d as f64)).ln()
            )
        });
        let s = csum(flp[rj].iter().map(|v| v.exp()));
        let dev = (s - 1.0).abs();
        c.ratio("multinomial.normalisation", if dev.is_nan() { f64::INFINITY } else { dev }, tol_sum::<T>(), &sg, || {
            format!("class {}: Σ_f exp(feature_log_prob) = {} (log-probs {:?})", lab.vals[cl], s, flp[rj])
        });
    }
    let qd: DenseMatrix<T> = to_dense(&qm);
    let preds = match c.must("multinomial.predict", || model.predict(&qd)) {
        Some(Ok(p)) => fv(&p),
        Some(Err(e)) => {
            c.check("multinomial.predict-ok", false, &sg, || format!("predict returned Err({})", e));
            return;
        }
        None => return,
    };
    // the same prediction requested through the uniform api::Predictor trait (generic code path)
    if let Some(Ok(tp)) = c.must("multinomial.predict(trait)", || scverif::trait_predict(&model, &qd)) {
        let tp = fv(&tp);
        c.check("multinomial.predictor-trait=predict", tp == preds, &sg, || format!("api::Predictor::predict returned {:?}, the inherent predict {:?}", tp, preds));
    }
    sequence_checks(c, "multinomial", &sg, &model, &qd, &preds, |m, q| m.predict(q));
    if !stats_valid {
        c.bucket("map:skipped(non-finite reported statistics)");
        return;
    }
    let mut scores: Vec<Vec<Score>> = Vec::with_capacity(qm.r);
    for q in 0..qm.r {
        let mut row = Vec::with_capacity(k);
        for cj in 0..k {
            let mut terms = vec![ln_prior(rep.priors[cj])];
            for j in 0..d {
                terms.push(qm.at(q, j) * flp[cj][j]);
            }
            row.push(score_of(&terms, 0.0, eps::<T>()));
        }
        scores.push(row);
    }
    check_map(c, "multinomial", wd, &rep.classes, &qkind, &scores, &preds, prior_argmax(&rep.priors));
}

// ------------------------------------------------------------------------------------------------
// Bernoulli
// ------------------------------------------------------------------------------------------------

struct BernInput {
    lab: Labels,
    x: Mat,
    alpha: f64,
    binarize: Option<f64>,
    user_priors: Option<Vec<f64>>,
    qm: Mat,
    qkind: Vec<&'static str>,
    mode: &'static str,
}

fn bernoulli_draw<T: RealNumber>(c: &mut Case) -> BernInput {
    let lab = draw_labels(c, false, 1);
    let (n, k) = (lab.n(), lab.k());
    let d = c.rng.us(1, 8);
    let alpha = draw_alpha::<T>(c);
    let mode: &'static str = *c.rng.pick(&["binary/no-binarize", "binary/no-binarize", "counts/threshold-0", "reals/threshold", "integers/integer-threshold"]);
    let p1: Vec<Vec<f64>> = (0..k)
        .map(|_| {
            (0..d)
                .map(|_| match c.rng.below(6) {
                    0 => 0.0,
                    1 => 1.0,
                    _ => c.rng.f(),
                })
                .collect()
        })
        .collect();
    let mut x = Mat::zeros(n, d);
    let binarize: Option<f64>;
    match mode {
        "binary/no-binarize" => {
            binarize = None;
            for r in 0..n {
                for j in 0..d {
                    x.set(r, j, if c.rng.bool(p1[lab.yi[r]][j]) { 1.0 } else { 0.0 });
                }
            }
        }
        "counts/threshold-0" => {
            binarize = Some(0.0);
            for r in 0..n {
                for j in 0..d {
                    x.set(r, j, if c.rng.bool(p1[lab.yi[r]][j]) { c.rng.int(1, 3) as f64 } else { 0.0 });
                }
            }
        }
        "reals/threshold" => {
            let th = f(t::<T>(c.rng.uni(-1.0, 1.0)));
            binarize = Some(th);
            for r in 0..n {
                for j in 0..d {
                    let above = c.rng.bool(p1[lab.yi[r]][j]);
                    let delta = c.rng.logu(1e-3, 3.0);
                    x.set(r, j, if above { th + delta } else { th - delta });
                }
            }
        }
        _ => {
            let th = c.rng.int(-2, 2) as f64;
            binarize = Some(th);
            for r in 0..n {
                for j in 0..d {
                    let above = c.rng.bool(p1[lab.yi[r]][j]);
                    x.set(r, j, if above { th + c.rng.int(1, 3) as f64 } else { th - c.rng.int(0, 2) as f64 });
                }
            }
        }
    }
    if width::<T>() == "f32" {
        x = x.round_f32();
    }
    let user_priors = if c.rng.bool(0.35) { Some(draw_priors::<T>(c, k)) } else { None };
    let m2 = mode;
    let th = binarize;
    let mut fresh = |c: &mut Case, _j: usize| -> f64 {
        let v = match m2 {
            "binary/no-binarize" => c.rng.int(0, 1) as f64,
            "counts/threshold-0" => c.rng.int(0, 3) as f64,
            "reals/threshold" => th.unwrap_or(0.0) + c.rng.uni(-3.0, 3.0),
            _ => th.unwrap_or(0.0) + c.rng.int(-3, 3) as f64,
        };
        v
    };
    let (mut qm, qkind) = draw_queries(c, &x, &mut fresh, 6);
    if width::<T>() == "f32" {
        qm = qm.round_f32();
    }
    BernInput { lab, x, alpha, binarize, user_priors, qm, qkind, mode }
}

fn bin(v: f64, th: Option<f64>) -> f64 {
    match th {
        Some(t) => {
            if v > t {
                1.0
            } else {
                0.0
            }
        }
        None => v,
    }
}

fn bernoulli_run<T: SNum>(c: &mut Case, inp: BernInput, tag: f64) {
    let idx = c.index;
    let wd = width::<T>();
    let BernInput { lab, x, alpha, binarize, user_priors, qm, qkind, mode } = inp;
    let (k, d) = (lab.k(), x.c);
    let y = lab.y();
    c.bucket(&format!("bernoulli:{}", mode));
    c.bucket(if user_priors.is_some() { "priors:user" } else { "priors:empirical" });
    let at_threshold = match binarize {
        Some(th) => x.d.iter().chain(qm.d.iter()).any(|v| *v == th),
        None => false,
    };
    c.bucket_if(at_threshold, "bernoulli:value==threshold");
    c.describe(json!({"variant": "bernoulli", "width": wd, "alpha": alpha, "binarize": binarize, "priors": user_priors, "y": y, "X": mat_json(&x), "queries": mat_json(&qm)}));
    hash_case(c, tag, &x, &y, &[alpha, binarize.unwrap_or(-777.0), if binarize.is_some() { 1.0 } else { 0.0 }]);
    c.hash_f64s(user_priors.as_deref().unwrap_or(&[]));

    let xm: DenseMatrix<T> = to_dense(&x);
    let yt: Vec<T> = tv(&y);
    let mut params = BernoulliNBParameters::default().with_alpha(t::<T>(alpha));
    params.binarize = binarize.map(|b| t::<T>(b));
    if let Some(p) = &user_priors {
        params = params.with_priors(tv::<T>(p));
    }
    let sg = format!("{}/labels:{}", wd, lab.style);
    let sgb = format!("{}/{}{}", wd, mode, if at_threshold { "/value==threshold" } else { "" });
    let model = match c.must("bernoulli.fit", || BernoulliNB::fit(&xm, &yt, scverif::reused(idx, params))) {
        Some(Ok(m)) => m,
        Some(Err(e)) => {
            c.check("bernoulli.fit-ok", false, &sgb, || format!("fit returned Err({}) on a valid training set", e));
            return;
        }
        None => return,
    };
    let priors = match serde_priors::<T, _>(&model) {
        Some(p) => p,
        None => {
            c.inconclusive("serde view of BernoulliNB has no inner.distribution.class_priors array");
            return;
        }
    };
    let rep = Reported { classes: fv(model.classes()), count: model.class_count().clone(), priors };
    let exp_labels: Vec<f64> = lab.vals.iter().map(|v| *v as f64).collect();
    let counts = lab.counts();
    let map = match check_common::<T>(c, "bernoulli", &sg, &exp_labels, &counts, &rep, user_priors.as_deref()) {
        Some(m) => m,
        None => return,
    };
    let fc = model.feature_count().clone();
    let flp: Vec<Vec<f64>> = model.feature_log_prob().iter().map(|r| fv(r)).collect();
    let shape_ok = fc.len() == k && flp.len() == k && fc.iter().all(|r| r.len() == d) && flp.iter().all(|r| r.len() == d) && model.n_features() == d;
    if !c.check("bernoulli.statistics-shape", shape_ok, &sgb, || format!("feature_count {}x?, feature_log_prob {}x?, n_features {}, expected {}x{}", fc.len(), flp.len(), model.n_features(), k, d)) {
        return;
    }
    let mut stats_valid = true;
    for cl in 0..k {
        let rows = lab.rows_of(cl);
        let rj = map[cl];
        let exp_fc: Vec<usize> = (0..d).map(|j| rows.iter().filter(|&&r| bin(x.at(r, j), binarize) == 1.0).count()).collect();
        c.check("bernoulli.feature_count", fc[rj] == exp_fc, &sgb, || {
            format!("class {}: rows with feature on {:?} (binarize {:?}), reported {:?}", lab.vals[cl], exp_fc, binarize, fc[rj])
        });
        c.bucket_if(exp_fc.iter().any(|v| *v == 0), "bernoulli:feature-never-on-in-class");
        c.bucket_if(exp_fc.iter().any(|v| *v == counts[cl]), "bernoulli:feature-always-on-in-class");
        let mut worst = 0.0f64;
        let mut wj = 0;
        for j in 0..d {
            let e = ((exp_fc[j] as f64 + alpha) / (counts[cl] as f64 + 2.0 * alpha)).ln();
            let dv = (flp[rj][j] - e).abs() / e.abs().max(1.0);
            let dv = if dv.is_nan() { f64::INFINITY } else { dv };
            if dv >= worst {
                worst = dv;
                wj = j;
            }
            if !(flp[rj][j].is_finite() && flp[rj][j] < 0.0) {
                stats_valid = false;
            }
        }
        c.ratio("bernoulli.feature_log_prob", worst, tol_lp::<T>(), &sg, || {
            format!(
                "class {} feature {}: reported {:e}, expected ln(({}+{})/({}+2*{})) = {:e}",
                lab.vals[cl],
                wj,
                flp[rj][wj],
                exp_fc[wj],
                alpha,
                counts[cl],
                alpha,
                ((exp_fc[wj] as f64 + alpha) / (counts[cl] as f64 + 2.0 * alpha)).ln()
            )
        });
    }
    let qd: DenseMatrix<T> = to_dense(&qm);
    let preds = match c.must("bernoulli.predict", || model.predict(&qd)) {
        Some(Ok(p)) => fv(&p),
        Some(Err(e)) => {
            c.check("bernoulli.predict-ok", false, &sgb, || format!("predict returned Err({})", e));
            return;
        }
        None => return,
    };
    // the same prediction requested through the uniform api::Predictor trait (generic code path)
    if let Some(Ok(tp)) = c.must("bernoulli.predict(trait)", || scverif::trait_predict(&model, &qd)) {
        let tp = fv(&tp);
        c.check("bernoulli.predictor-trait=predict", tp == preds, &sgb, || format!("api::Predictor::predict returned {:?}, the inherent predict {:?}", tp, preds));
    }
    sequence_checks(c, "bernoulli", &sgb, &model, &qd, &preds, |m, q| m.predict(q));
    if !stats_valid {
        c.bucket("map:skipped(non-finite reported statistics)");
        return;
    }
    let e_t = eps::<T>();
    let mut scores: Vec<Vec<Score>> = Vec::with_capacity(qm.r);
    for q in 0..qm.r {
        let mut row = Vec::with_capacity(k);
        for cj in 0..k {
            let mut terms = vec![ln_prior(rep.priors[cj])];
            let mut extra = 0.0;
            for j in 0..d {
                let lp = flp[cj][j];
                if bin(qm.at(q, j), binarize) == 1.0 {
                    terms.push(lp);
                } else {
                    // ln(1 − p) with p = exp(lp): conditioned like p/(1−p)
                    let p = lp.exp();
                    let qv = -lp.exp_m1();
                    terms.push(qv.ln());
                    extra += 8.0 * e_t * p * (1.0 + lp.abs()) / qv;
                }
            }
            row.push(score_of(&terms, extra, e_t));
        }
        scores.push(row);
    }
    let wdq = format!("{}/{}", wd, if at_threshold { "value==threshold" } else { "plain" });
    check_map(c, "bernoulli", &wdq, &rep.classes, &qkind, &scores, &preds, prior_argmax(&rep.priors));
}

fn bernoulli_t<T: SNum>(c: &mut Case) {
    c.bucket(&format!("width:{}", width::<T>()));
    let inp = bernoulli_draw::<T>(c);
    bernoulli_run::<T>(c, inp, if width::<T>() == "f32" { 3.5 } else { 3.0 });
}

/// small-scope enumeration: every labelling (both classes present) of 4 rows with labels {−1, 3} × every
/// 4×2 binary feature matrix; alpha = 1, no binarisation; all four binary rows are queried. Exact ties are
/// frequent here.
fn bernoulli_enum(c: &mut Case) {
    let labelling = (c.index / 256) as usize + 1; // 1..=14
    let bits = (c.index % 256) as usize;
    let raw: Vec<i64> = (0..4).map(|r| if (labelling >> r) & 1 == 1 { 3 } else { -1 }).collect();
    let vals = vec![-1i64, 3];
    let yi: Vec<usize> = raw.iter().map(|v| if *v == -1 { 0 } else { 1 }).collect();
    let lab = Labels { vals, yi, style: "enum{-1,3}" };
    let x = Mat::from_fn(4, 2, |r, j| ((bits >> (2 * r + j)) & 1) as f64);
    let qm = Mat::from_rows(&[vec![0.0, 0.0], vec![0.0, 1.0], vec![1.0, 0.0], vec![1.0, 1.0]]);
    let qkind: Vec<&'static str> = (0..4)
        .map(|q| if (0..4).any(|r| x.row(r) == qm.row(q)) { "training-row" } else { "fresh-row" })
        .collect();
    c.bucket("width:f64");
    let inp = BernInput { lab, x, alpha: 1.0, binarize: None, user_priors: None, qm, qkind, mode: "binary/no-binarize" };
    bernoulli_run::<f64>(c, inp, 3.25);
}

// ------------------------------------------------------------------------------------------------
// categorical
// ------------------------------------------------------------------------------------------------

fn categorical_t<T: SNum>(c: &mut Case) {
    let idx = c.index;
    let wd = width::<T>();
    c.bucket(&format!("width:{}", wd));
    let lab = draw_labels(c, true, 1);
    let (n, k) = (lab.n(), lab.k());
    let d = c.rng.us(1, 8);
    let alpha = draw_alpha::<T>(c);
    // per feature: number of codes and the (increasing) code values; per (class, feature) a distribution
    let mut codes: Vec<Vec<i64>> = Vec::with_capacity(d);
    for _ in 0..d {
        let kf = c.rng.us(1, 5);
        if c.rng.bool(0.75) {
            codes.push((0..kf as i64).collect());
        } else {
            codes.push(distinct_ints(c, kf, 0, 7));
        }
    }
    let mut x = Mat::zeros(n, d);
    let wts: Vec<Vec<Vec<f64>>> = (0..k).map(|_| (0..d).map(|j| (0..codes[j].len()).map(|_| if c.rng.bool(0.25) { 0.0 } else { c.rng.logu(0.05, 1.0) }).collect()).collect()).collect();
    for r in 0..n {
        for j in 0..d {
            let w = &wts[lab.yi[r]][j];
            let s: f64 = w.iter().sum();
            let pick = if s <= 0.0 {
                c.rng.below(w.len())
            } else {
                let u = c.rng.f() * s;
                let mut acc = 0.0;
                let mut p = w.len() - 1;
                for (i, wi) in w.iter().enumerate() {
                    acc += wi;
                    if u < acc {
                        p = i;
                        break;
                    }
                }
                p
            };
            x.set(r, j, codes[j][pick] as f64);
        }
    }
    let y = lab.y();
    // queries: only category codes that occurred in training in the respective feature
    let mut nofresh = |_c: &mut Case, _j: usize| -> f64 { 0.0 };
    let (qm, qkind) = draw_queries(c, &x, &mut nofresh, 0);
    c.describe(json!({"variant": "categorical", "width": wd, "alpha": alpha, "y": y, "X": mat_json(&x), "queries": mat_json(&qm)}));
    hash_case(c, if wd == "f32" { 4.5 } else { 4.0 }, &x, &y, &[alpha]);

    let xm: DenseMatrix<T> = to_dense(&x);
    let yt: Vec<T> = tv(&y);
    let params = CategoricalNBParameters::default().with_alpha(t::<T>(alpha));
    let sg = format!("{}/labels:{}", wd, lab.style);
    let model = match c.must("categorical.fit", || CategoricalNB::fit(&xm, &yt, scverif::reused(idx, params))) {
        Some(Ok(m)) => m,
        Some(Err(e)) => {
            c.check("categorical.fit-ok", false, &sg, || format!("fit returned Err({}) on a valid training set", e));
            return;
        }
        None => return,
    };
    let priors = match serde_priors::<T, _>(&model) {
        Some(p) => p,
        None => {
            c.inconclusive("serde view of CategoricalNB has no inner.distribution.class_priors array");
            return;
        }
    };
    let rep = Reported { classes: fv(model.classes()), count: model.class_count().clone(), priors };
    // the categorical variant enumerates 0..=max label
    let maxlab = *lab.vals.last().unwrap_or(&0) as usize;
    let kk = maxlab + 1;
    let exp_labels: Vec<f64> = (0..kk).map(|v| v as f64).collect();
    let mut exp_counts = vec![0usize; kk];
    for &i in &lab.yi {
        exp_counts[lab.vals[i] as usize] += 1;
    }
    c.bucket_if(exp_counts.iter().any(|v| *v == 0), "categorical:class-without-rows(label gap)");
    let map = match check_common::<T>(c, "categorical", &sg, &exp_labels, &exp_counts, &rep, None) {
        Some(m) => m,
        None => return,
    };
    let ncat = model.n_categories().clone();
    let cc = model.category_count().clone();
    let flp: Vec<Vec<Vec<f64>>> = model.feature_log_prob().iter().map(|a| a.iter().map(|b| fv(b)).collect()).collect();
    let exp_ncat: Vec<usize> = (0..d).map(|j| (0..n).map(|r| x.at(r, j) as usize).max().unwrap_or(0) + 1).collect();
    c.check("categorical.n_categories", ncat == exp_ncat && model.n_features() == d, &sg, || {
        format!("largest code + 1 per feature {:?}, reported n_categories {:?}, n_features {}", exp_ncat, ncat, model.n_features())
    });
    let shape_ok = cc.len() == d
        && flp.len() == d
        && (0..d).all(|j| cc[j].len() == kk && flp[j].len() == kk && (0..kk).all(|q| cc[j][q].len() == exp_ncat[j] && flp[j][q].len() == exp_ncat[j]));
    if !c.check("categorical.statistics-shape", shape_ok, &sg, || {
        format!("category_count / feature_log_prob must be [feature {}][class {}][category {:?}]", d, kk, exp_ncat)
    }) {
        return;
    }
    let mut stats_valid = true;
    for j in 0..d {
        let kf = exp_ncat[j];
        let occurring: BTreeSet<usize> = (0..n).map(|r| x.at(r, j) as usize).collect();
        c.bucket_if(occurring.len() < kf, "categorical:code-gap(unused category below the maximum)");
        c.bucket_if(kf == 1, "categorical:single-category-feature");
        for cl in 0..kk {
            let rj = map[cl];
            let mut e_cnt = vec![0usize; kf];
            for r in 0..n {
                if lab.vals[lab.yi[r]] as usize == cl {
                    e_cnt[x.at(r, j) as usize] += 1;
                }
            }
            c.check("categorical.category_count", cc[j][rj] == e_cnt, &sg, || format!("feature {} class {}: counts per category {:?}, reported {:?}", j, cl, e_cnt, cc[j][rj]));
            c.bucket_if(exp_counts[cl] > 0 && e_cnt.iter().any(|v| *v == 0), "categorical:zero-count-category");
            let mut worst = 0.0f64;
            let mut wv = 0;
            for v in 0..kf {
                let e = ((e_cnt[v] as f64 + alpha) / (exp_counts[cl] as f64 + alpha * kf as f64)).ln();
                let dv = (flp[j][rj][v] - e).abs() / e.abs().max(1.0);
                let dv = if dv.is_nan() { f64::INFINITY } else { dv };
                if dv >= worst {
                    worst = dv;
                    wv = v;
                }
                if !flp[j][rj][v].is_finite() {
                    stats_valid = false;
                }
            }
            c.ratio("categorical.feature_log_prob", worst, tol_lp::<T>(), &sg, || {
                format!(
                    "feature {} class {} category {}: reported {:e}, expected ln(({}+{})/({}+{}*{})) = {:e}",
                    j,
                    cl,
                    wv,
                    flp[j][rj][wv],
                    e_cnt[wv],
                    alpha,
                    exp_counts[cl],
                    alpha,
                    kf,
                    ((e_cnt[wv] as f64 + alpha) / (exp_counts[cl] as f64 + alpha * kf as f64)).ln()
                )
            });
            let s = csum(flp[j][rj].iter().map(|v| v.exp()));
            let dev = (s - 1.0).abs();
            c.ratio("categorical.normalisation", if dev.is_nan() { f64::INFINITY } else { dev }, tol_sum::<T>(), &sg, || {
                format!("feature {} class {}: Σ_k exp(feature_log_prob) = {} (log-probs {:?})", j, cl, s, flp[j][rj])
            });
        }
    }
    let qd: DenseMatrix<T> = to_dense(&qm);
    let preds = match c.must("categorical.predict", || model.predict(&qd)) {
        Some(Ok(p)) => fv(&p),
        Some(Err(e)) => {
            c.check("categorical.predict-ok", false, &sg, || format!("predict returned Err({})", e));
            return;
        }
        None => return,
    };
    // the same prediction requested through the uniform api::Predictor trait (generic code path)
    if let Some(Ok(tp)) = c.must("categorical.predict(trait)", || scverif::trait_predict(&model, &qd)) {
        let tp = fv(&tp);
        c.check("categorical.predictor-trait=predict", tp == preds, &sg, || format!("api::Predictor::predict returned {:?}, the inherent predict {:?}", tp, preds));
    }
    sequence_checks(c, "categorical", &sg, &model, &qd, &preds, |m, q| m.predict(q));
    if !stats_valid {
        c.bucket("map:skipped(non-finite reported statistics)");
        return;
    }
    let mut scores: Vec<Vec<Score>> = Vec::with_capacity(qm.r);
    for q in 0..qm.r {
        let mut row = Vec::with_capacity(kk);
        for cj in 0..kk {
            let mut terms = vec![ln_prior(rep.priors[cj])];
            for j in 0..d {
                terms.push(flp[j][cj][qm.at(q, j) as usize]);
            }
            row.push(score_of(&terms, 0.0, eps::<T>()));
        }
        scores.push(row);
    }
    check_map(c, "categorical", wd, &rep.classes, &qkind, &scores, &preds, prior_argmax(&rep.priors));
}

macro_rules! both {
    ($name:ident, $g:ident, $p32:expr) => {
        fn $name(c: &mut Case) {
            if c.rng.bool($p32) {
                $g::<f32>(c)
            } else {
                $g::<f64>(c)
            }
        }
    };
}
both!(multinomial, multinomial_t, 0.25);
both!(bernoulli, bernoulli_t, 0.25);
both!(categorical, categorical_t, 0.25);

/// parameter builders keep every configured value whatever the order of the `with_*` steps
fn builders_fam(c: &mut Case) {
    scverif::builders::case(c, "C11")
}

fn main() {
    runner::main(Spec {
        property: "C11",
        rule: "one training set per case from seeded generators: 2..120 rows in arbitrary order, 1..8 features, 2..5 classes with skewed frequencies and label values 0..k-1 / 1..k / small arbitrary / ±1000 / ±2e6 / negative (categorical: non-negative with gaps), alpha = 1 or log-uniform in [1e-2,5], user priors in 35 % of the Gaussian/multinomial/Bernoulli cases; Gaussian: real or small-integer features with per-feature location and scale, every class has >= 2 rows and >= 2 distinct values per feature (family gaussian_offset adds a common offset of 1e3..1e8 spreads); multinomial: counts 0..9; Bernoulli: 0/1 without binarisation, or counts / reals / integers with a threshold (values equal to the threshold included); categorical: 1..5 codes per feature, contiguous or with gaps; bernoulli_enum enumerates all 14 two-class labellings x all 256 binary 4x2 matrices; 13..19 query rows per case (training rows, rows mixing training values, fresh rows; categorical only codes seen in training). A case is non-trivial when the fit succeeded, the class structure was reported correctly and for at least one query row the MAP oracle rejected at least one class (the arg-max was discriminating). distinct = hash of (variant, width, X, y, alpha, binarize, priors); parameter objects are passed to fit as clones in every second case",
        assumptions: vec![
            "the order in which a model lists its classes is not checked; all per-class statistics are aligned by label value, user priors must be stored positionally as supplied",
            "Gaussian moments (f64 only): |mean - ref| <= 1e-9·max|x|, |var - ref| <= 1e-9·var + (n·eps·max|x|)^2 against compensated two-pass references (the second term only matters for E[x^2]/Var > 1e18, where the mean itself is not representable accurately enough); the signature of a moment violation is the decade of E[x^2]/Var of the column",
            "count-based log-probabilities: |obs - exp| <= 1e-12·max(1,|exp|) (f64) / 1e-5 (f32, alpha and priors rounded to f32 first); normalisation Σ exp = 1 ± 1e-10 / 1e-4; priors sum to 1 ± 1e-12 / 1e-5",
            "MAP: scores recomputed in f64 from the REPORTED statistics; a class j is accepted within 1e-9·max(Σ|terms_j|, Σ|terms_best|) plus a forward rounding bound 8(d+3)·eps_T·Σ|terms| (and the conditioning of ln(1-p) for Bernoulli) of the maximum",
            "Bernoulli binarisation maps x > threshold to 1 (documented by MatrixPreprocessing::binarize); cases with values equal to the threshold carry their own signature",
            "categorical n_categories = largest code + 1 per feature (categories are enumerated 0..max like the class labels)",
        ],
        families: vec![
            Family::new("builders", 300, 3000, builders_fam),
            Family::new("gaussian", 6000, 80000, gaussian),
            Family::new("gaussian_offset", 1000, 15000, gaussian_offset),
            Family::new("multinomial", 6000, 80000, multinomial),
            Family::new("bernoulli", 6000, 80000, bernoulli),
            Family::new("bernoulli_enum", 3584, 3584, bernoulli_enum).exhaustive(true, true),
            Family::new("categorical", 6000, 80000, categorical),
        ],
        min_nontrivial: 4000,
        case_timeout_s: 120,
    });
}
