use smartcore::cluster::kmeans::*;
use smartcore::linalg::naive::dense_matrix::DenseMatrix;
use scverif::rng::Rng;
fn main(){
    let mut rng=Rng::new(7);
    let mut tot=0; let mut emp=0; let mut byk=[0usize;9]; let mut nk=[0usize;9];
    for ds in 0..2000 {
        let w = *rng.pick(&[0.5,1.0,1.5]);
        let g1 = rng.int(5, 9) as f64 * 0.5; let g2 = rng.int(7, 12) as f64 * 0.5;
        let mut rows: Vec<f64> = Vec::new();
        for _ in 0..rng.us(1,3) { rows.push(0.0); }
        for _ in 0..rng.us(1,2) { rows.push(g1); }
        for _ in 0..rng.us(1,2) { rows.push(g1+w); }
        for _ in 0..rng.us(2,4) { rows.push(g1+w+g2); }
        for _ in 0..rng.us(2,4) { rows.push(g1+w+g2+w); }
        rng.shuffle(&mut rows);
        let mut dv=rows.clone(); dv.sort_by(|a,b|a.partial_cmp(b).unwrap()); dv.dedup();
        if dv.len()<3 {continue;}
        let k=3;
        let x=DenseMatrix::from_array(rows.len(),1,&rows);
        for _ in 0..10 {
            let m=KMeans::fit(&x,KMeansParameters::default().with_k(k)).unwrap();
            let j=serde_json::to_value(&m).unwrap();
            let size:Vec<u64>=j["size"].as_array().unwrap().iter().map(|x|x.as_u64().unwrap()).collect();
            tot+=1; nk[k]+=1;
            if size.iter().any(|s|*s==0){emp+=1; byk[k]+=1; if emp<4 {println!("{:?} k={} {}", rows,k,j);} }
        }
        let _=ds;
    }
    println!("empties {} / {} byk {:?} nk {:?}", emp, tot, byk, nk);
}
