use smartcore::linalg::naive::dense_matrix::DenseMatrix;
use smartcore::linalg::evd::EVDDecomposableMatrix;
use smartcore::linalg::BaseMatrix;
fn main(){
    let a0=[0.0945f64,0.,0.,0., 0.,0.,0.519,-0.67, 0.,0.,0.72,0., 0.467,0.,0.,0.];
    let a32=DenseMatrix::from_array(4,4,&a0.iter().map(|x|*x as f32).collect::<Vec<f32>>());
    let e=a32.evd(false).unwrap();
    println!("f32 d={:?} e={:?}", e.d, e.e);
    for j in 0..4 { println!(" v{}={:?}", j, e.V.get_col_as_vec(j)); }
    let a64=DenseMatrix::from_array(4,4,&a0);
    let e=a64.evd(false).unwrap();
    println!("f64 d={:?} e={:?}", e.d, e.e);
    for j in 0..4 { println!(" v{}={:?}", j, e.V.get_col_as_vec(j)); }
}
