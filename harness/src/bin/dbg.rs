use smartcore::linalg::naive::dense_matrix::DenseMatrix;
use smartcore::linalg::evd::EVDDecomposableMatrix;
use smartcore::linalg::BaseMatrix;
fn main(){
    let r: serde_json::Value = serde_json::from_str(&std::fs::read_to_string(std::env::args().nth(1).unwrap()).unwrap()).unwrap();
    let a=&r["case"]["A"]; let n=a["rows"].as_u64().unwrap() as usize;
    let d:Vec<f64>=a["row_major"].as_array().unwrap().iter().map(|x|x.as_f64().unwrap()).collect();
    let a64=DenseMatrix::from_array(n,n,&d);
    let e=a64.evd(false).unwrap();
    let an=d.iter().map(|x|x*x).sum::<f64>().sqrt();
    for j in 0..n {
        let v=e.V.get_col_as_vec(j);
        let nv=v.iter().map(|x|x*x).sum::<f64>().sqrt();
        let mut r2=0.0; for i in 0..n { let mut s=0.0; for k in 0..n { s+=d[i*n+k]*v[k]; } s-=e.d[j]*v[i]; r2+=s*s; }
        println!("j={} d={:.12e} e={:.3e} |v|={:.3e} rel-res={:.3e}", j, e.d[j], e.e[j], nv, r2.sqrt()/(an*nv));
    }
    for i in 0..n { println!("{}", (0..n).map(|k| format!("{:8.3}", d[i*n+k])).collect::<Vec<_>>().join(" ")); }
}
