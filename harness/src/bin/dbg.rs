use smartcore::linalg::naive::dense_matrix::DenseMatrix;
use smartcore::linear::lasso::*;
fn main(){
    let r: serde_json::Value = serde_json::from_str(&std::fs::read_to_string(std::env::args().nth(1).unwrap()).unwrap()).unwrap();
    let c=&r["case"];
    let x=&c["X"]; let n=x["rows"].as_u64().unwrap() as usize; let p=x["cols"].as_u64().unwrap() as usize;
    let d:Vec<f64>=x["row_major"].as_array().unwrap().iter().map(|v|v.as_f64().unwrap()).collect();
    let y:Vec<f64>=c["y"].as_array().unwrap().iter().map(|v|v.as_f64().unwrap()).collect();
    let xm=DenseMatrix::from_array(n,p,&d);
    let alpha=c["alpha"].as_f64().unwrap(); let tol=c["tol"].as_f64().unwrap(); let norm=c["normalize"].as_bool().unwrap();
    println!("n={} p={} alpha={} tol={} normalize={}", n,p,alpha,tol,norm);
    for mi in [10usize, 100, 1000, 5000] {
        smartcore::verif::set_step_budget(u64::MAX);
        let m=Lasso::fit(&xm,&y,LassoParameters{alpha,normalize:norm,tol,max_iter:mi});
        println!("max_iter={} steps={} ok={} coef={:?}", mi, smartcore::verif::steps(), m.is_ok(), m.as_ref().ok().map(|m| format!("{:?}", m.coefficients())));
    }
}
