//! C15 — evaluation metrics equal their textbook definitions.
//!
//! Families: accuracy, binary (precision / recall / F-beta), auc, regression (MSE / MAE / R²),
//! hcv (homogeneity / completeness / V-measure), mismatch (length contract of the seven pairwise
//! metrics). Every metric is called through the struct API (`ClassificationMetrics::…().get_score`)
//! and through the function API of `metrics/mod.rs`; both must return the value of the definition,
//! which the harness computes independently in f64 (compensated sums) on the already rounded inputs.
use scverif::*;
use smartcore::math::num::RealNumber;
use smartcore::metrics::{self, ClassificationMetrics, ClusterMetrics, RegressionMetrics};
use std::collections::BTreeMap;

// ---------------------------------------------------------------- helpers

/// vector length 1..=200, biased to short vectors
fn draw_n(c: &mut Case, lo: usize) -> usize {
    match scverif::big() {
            // beyond the ~200 entries of the ordinary families: some thousand entries
        1 => return c.rng.us(300, 3000),
        // f64 only: around a hundred thousand entries (counts whose products pass 2^31)
        2 => return c.rng.us(93000, 100000),
        _ => {}
    }
    let r = c.rng.f();
    let n = if r < 0.3 {
        c.rng.us(1, 8)
    } else if r < 0.7 {
        c.rng.us(9, 50)
    } else {
        c.rng.us(51, 200)
    };
    n.max(lo)
}

fn size_bucket(c: &mut Case, n: usize) {
    c.bucket(if n == 1 {
        "n:1"
    } else if n <= 8 {
        "n:2-8"
    } else if n <= 50 {
        "n:9-50"
    } else if n <= 200 {
        "n:51-200"
    } else if n <= 3000 {
        "n:300-3000"
    } else {
        "n:93000-100000"
    });
}

/// value of x after rounding to T
fn rt<T: RealNumber>(x: f64) -> f64 {
    f(t::<T>(x))
}

fn round_vec<T: RealNumber>(v: &[f64]) -> Vec<f64> {
    v.iter().map(|x| rt::<T>(*x)).collect()
}

/// Neumaier compensated sum
fn ksum(xs: impl Iterator<Item = f64>) -> f64 {
    let mut s = 0.0f64;
    let mut comp = 0.0f64;
    for x in xs {
        let tt = s + x;
        if s.abs() >= x.abs() {
            comp += (s - tt) + x;
        } else {
            comp += (x - tt) + s;
        }
        s = tt;
    }
    s + comp
}

/// |got − exp|, +inf when the library value is not finite (NaN must never pass a comparison)
fn dev(got: f64, exp: f64) -> f64 {
    if !got.is_finite() {
        f64::INFINITY
    } else {
        (got - exp).abs()
    }
}

fn hash_case(c: &mut Case, tag: &str, a: &[f64], b: &[f64], extra: &[f64]) {
    c.hash_f64s(&[(scverif::rng::hash_str(tag) % 1000003) as f64, a.len() as f64, b.len() as f64]);
    c.hash_f64s(a);
    c.hash_f64s(b);
    c.hash_f64s(extra);
}

/// Calls the struct API and the function API of one metric; both results are compared with `exp`.
fn both_apis<T: RealNumber>(
    c: &mut Case,
    oracle: &str,
    sg: &str,
    exp: f64,
    tol: f64,
    call_struct: impl FnOnce() -> T,
    call_fn: impl FnOnce() -> T,
) {
    if let Some(v) = c.must(&format!("{}(struct)", oracle), call_struct) {
        let v = f(v);
        c.ratio(oracle, dev(v, exp), tol, sg, || format!("struct API returned {:e}, definition gives {:e}", v, exp));
    }
    if let Some(v) = c.must(&format!("{}(fn)", oracle), call_fn) {
        let v = f(v);
        c.ratio(oracle, dev(v, exp), tol, sg, || format!("function API returned {:e}, definition gives {:e}", v, exp));
    }
}

// ---------------------------------------------------------------- accuracy
fn accuracy_t<T: RealNumber>(c: &mut Case) {
    let n = draw_n(c, 1);
    let kind = *c.rng.pick(&["binary", "multiclass", "real-planted", "all-equal", "none-equal"]);
    let mut yt: Vec<f64> = Vec::with_capacity(n);
    let mut yp: Vec<f64> = Vec::with_capacity(n);
    match kind {
        "binary" => {
            let p = c.rng.f();
            let q = *c.rng.pick(&[0.0, 0.05, 0.3, 0.5, 0.95, 1.0]);
            for _ in 0..n {
                let a = if c.rng.bool(p) { 1.0 } else { 0.0 };
                let b = if c.rng.bool(q) { 1.0 - a } else { a };
                yt.push(a);
                yp.push(b);
            }
        }
        "multiclass" => {
            let k = c.rng.int(2, 6);
            let base = c.rng.int(-5, 5);
            let q = c.rng.f();
            for _ in 0..n {
                let a = (base + c.rng.int(0, k - 1)) as f64;
                let b = if c.rng.bool(q) { (base + c.rng.int(0, k - 1)) as f64 } else { a };
                yt.push(a);
                yp.push(b);
            }
        }
        "real-planted" => {
            let q = c.rng.f();
            let s = *c.rng.pick(&[1.0, 1e-3, 1e3]);
            for _ in 0..n {
                let a = c.rng.normal() * s;
                let b = if c.rng.bool(q) { c.rng.normal() * s } else { a };
                yt.push(a);
                yp.push(b);
            }
        }
        "all-equal" => {
            for _ in 0..n {
                let a = c.rng.int(0, 3) as f64;
                yt.push(a);
                yp.push(a);
            }
        }
        _ => {
            for _ in 0..n {
                let a = c.rng.int(0, 3) as f64;
                yt.push(a);
                yp.push(a + 1.0);
            }
        }
    }
    let yt = round_vec::<T>(&yt);
    let yp = round_vec::<T>(&yp);
    let eq = (0..n).filter(|&i| yt[i] == yp[i]).count();
    let exp = eq as f64 / n as f64;
    c.describe(json!({"metric": "accuracy", "width": width::<T>(), "kind": kind, "y_true": yt, "y_pred": yp}));
    hash_case(c, "accuracy", &yt, &yp, &[eps::<T>()]);
    c.nontrivial();
    size_bucket(c, n);
    c.bucket(&format!("accuracy:{}", kind));
    c.bucket(&format!("width:{}", width::<T>()));
    c.bucket(if eq == 0 {
        "accuracy:0"
    } else if eq == n {
        "accuracy:1"
    } else {
        "accuracy:strictly-between"
    });
    let sg = format!("accuracy/{}/{}", kind, width::<T>());
    let a: Vec<T> = tv(&yt);
    let b: Vec<T> = tv(&yp);
    let tol = (n as f64 + 4.0) * eps::<T>() * exp;
    both_apis::<T>(c, "accuracy", &sg, exp, tol, || ClassificationMetrics::accuracy().get_score(&a, &b), || metrics::accuracy(&a, &b));
}

// ---------------------------------------------------------------- precision / recall / F-beta
fn draw_binary_pair(c: &mut Case, n: usize) -> (Vec<f64>, Vec<f64>, &'static str) {
    // number of actual positives: every balance incl. none / one / all-but-one / all
    let npos = match c.rng.below(6) {
        0 => 0,
        1 => 1.min(n),
        2 => n.saturating_sub(1),
        3 => n,
        _ => c.rng.us(0, n),
    };
    let mut yt: Vec<f64> = (0..n).map(|i| if i < npos { 1.0 } else { 0.0 }).collect();
    c.rng.shuffle(&mut yt);
    let kind = *c.rng.pick(&["flip", "flip", "independent", "all-negative", "all-positive", "single-predicted-positive"]);
    let yp: Vec<f64> = match kind {
        "flip" => {
            let q = *c.rng.pick(&[0.0, 0.02, 0.1, 0.3, 0.5, 0.9, 1.0]);
            yt.iter().map(|a| if c.rng.bool(q) { 1.0 - a } else { *a }).collect()
        }
        "independent" => {
            let q = c.rng.f();
            (0..n).map(|_| if c.rng.bool(q) { 1.0 } else { 0.0 }).collect()
        }
        "all-negative" => vec![0.0; n],
        "all-positive" => vec![1.0; n],
        _ => {
            let mut v = vec![0.0; n];
            let i = c.rng.below(n);
            v[i] = 1.0;
            v
        }
    };
    (yt, yp, kind)
}

fn binary_t<T: RealNumber>(c: &mut Case) {
    let n = draw_n(c, 1);
    let (yt, yp, kind) = draw_binary_pair(c, n);
    let beta = rt::<T>(match c.rng.below(5) {
        0 | 1 => 1.0,
        2 => 0.5,
        3 => 2.0,
        _ => c.rng.logu(0.1, 10.0),
    });
    let tp = (0..n).filter(|&i| yt[i] == 1.0 && yp[i] == 1.0).count() as f64;
    let fp = (0..n).filter(|&i| yt[i] == 0.0 && yp[i] == 1.0).count() as f64;
    let fnn = (0..n).filter(|&i| yt[i] == 1.0 && yp[i] == 0.0).count() as f64;
    let tn = n as f64 - tp - fp - fnn;
    c.describe(json!({"metric": "precision/recall/f-beta", "width": width::<T>(), "kind": kind, "beta": beta, "y_true": yt, "y_pred": yp,
        "tp": tp, "fp": fp, "fn": fnn, "tn": tn}));
    hash_case(c, "binary", &yt, &yp, &[beta, eps::<T>()]);
    size_bucket(c, n);
    c.bucket(&format!("binary:pred-{}", kind));
    c.bucket(&format!("width:{}", width::<T>()));
    let npos = tp + fnn;
    c.bucket_if(npos == 1.0, "binary:single-actual-positive");
    c.bucket_if(npos == n as f64 - 1.0 && n > 1, "binary:single-actual-negative");
    c.bucket_if(npos == n as f64, "binary:no-actual-negative");
    c.bucket_if(beta != 1.0, "binary:beta!=1");
    let p_def = tp + fp > 0.0;
    let r_def = tp + fnn > 0.0;
    c.bucket_if(!p_def, "precision:undefined(no predicted positive, 0/0)");
    c.bucket_if(!r_def, "recall:undefined(no actual positive, 0/0)");
    if !p_def && !r_def {
        c.skip("neither precision nor recall is defined (no predicted and no actual positive: 0/0)");
        return;
    }
    c.nontrivial();
    let e = eps::<T>();
    let sg = format!("binary/{}/{}", kind, width::<T>());
    let a: Vec<T> = tv(&yt);
    let b: Vec<T> = tv(&yp);
    if p_def {
        let exp = tp / (tp + fp);
        both_apis::<T>(c, "precision", &sg, exp, 8.0 * e * exp, || ClassificationMetrics::precision().get_score(&a, &b), || metrics::precision(&a, &b));
    }
    if r_def {
        let exp = tp / (tp + fnn);
        both_apis::<T>(c, "recall", &sg, exp, 8.0 * e * exp, || ClassificationMetrics::recall().get_score(&a, &b), || metrics::recall(&a, &b));
    }
    if p_def && r_def {
        if tp == 0.0 {
            // precision = recall = 0: the documented definition (1+β²)·P·R/(β²·P+R) is 0/0 here; not demanded
            c.bucket("fbeta:undefined(precision=recall=0, harmonic mean 0/0)");
        } else {
            let b2 = beta * beta;
            let exp = (1.0 + b2) * tp / ((1.0 + b2) * tp + b2 * fnn + fp);
            let bt: T = t(beta);
            both_apis::<T>(c, "fbeta", &sg, exp, 64.0 * e * exp, || ClassificationMetrics::f1(bt).get_score(&a, &b), || metrics::f1(&a, &b, bt));
        }
    } else {
        c.bucket("fbeta:undefined(precision or recall undefined)");
    }
}

// ---------------------------------------------------------------- ROC AUC
fn auc_t<T: RealNumber>(c: &mut Case) {
    let n = draw_n(c, 2);
    let npos = match c.rng.below(5) {
        0 => 1,
        1 => n - 1,
        _ => c.rng.us(1, n - 1),
    };
    let mut yt: Vec<f64> = (0..n).map(|i| if i < npos { 1.0 } else { 0.0 }).collect();
    c.rng.shuffle(&mut yt);
    let kind = *c.rng.pick(&["continuous", "continuous", "informative", "few-values", "few-values", "constant", "rounded", "integers", "separating", "anti-separating", "signed-zero", "sorted-input", "sort-killer", "underflowed"]);
    // the quadratic cases of the sort (worst-case orders, heavy ties) are only affordable up to some thousand entries
    let kind = if n > 9000 && kind != "informative" { "continuous" } else { kind };
    let sc = *c.rng.pick(&[1.0, 1.0, 1e-6, 1e6, -1.0]);
    let mut ys: Vec<f64> = match kind {
        "continuous" => (0..n).map(|_| c.rng.f() * sc).collect(),
        "informative" => yt.iter().map(|y| (c.rng.normal() + 1.5 * y) * sc).collect(),
        "few-values" => {
            let k = c.rng.us(2, 5);
            let vals: Vec<f64> = (0..k).map(|_| c.rng.normal() * sc).collect();
            let lean = c.rng.bool(0.5);
            yt.iter()
                .map(|y| {
                    if lean && *y == 1.0 && c.rng.bool(0.5) {
                        vals.iter().cloned().fold(f64::NEG_INFINITY, f64::max)
                    } else {
                        *c.rng.pick(&vals)
                    }
                })
                .collect()
        }
        "sort-killer" => scverif::gen::sort_killer(n, c.rng.bool(0.5)).iter().map(|v| v * sc).collect(),
        // scores that have underflowed: zero, subnormal and the smallest normal numbers of the width (distinct values
        // that differ by less than the smallest normal number)
        "underflowed" => {
            let (tiny, step) = if width::<T>() == "f32" { (1.1754944e-38f64, 1.4012985e-45f64) } else { (2.2250738585072014e-308f64, 5e-324f64) };
            (0..n)
                .map(|_| match c.rng.below(5) {
                    0 => 0.0,
                    1 => step * c.rng.int(1, 40) as f64,
                    2 => tiny * c.rng.uni(0.0, 1.0),
                    3 => tiny * c.rng.uni(1.0, 4.0),
                    _ => -step * c.rng.int(0, 10) as f64,
                })
                .collect()
        }
        "constant" => {
            let v = *c.rng.pick(&[0.0, 0.5, 1.0, -3.25, 1e9]);
            vec![v; n]
        }
        "rounded" => yt.iter().map(|y| ((c.rng.f() * 0.7 + 0.3 * y) * 10.0).round() / 10.0).collect(),
        "integers" => {
            let k = c.rng.int(1, 12);
            (0..n).map(|_| c.rng.int(-k, k) as f64).collect()
        }
        "separating" => yt.iter().map(|y| y * 2.0 + c.rng.f()).collect(),
        "anti-separating" => yt.iter().map(|y| -y * 2.0 + c.rng.f()).collect(),
        "signed-zero" => (0..n)
            .map(|_| match c.rng.below(4) {
                0 => 0.0,
                1 => -0.0,
                2 => 1.0,
                _ => -1.0,
            })
            .collect(),
        _ => {
            // already sorted (ascending or descending) input with tie blocks: exercises the argsort on ordered data
            let mut v: Vec<f64> = (0..n).map(|_| (c.rng.f() * 20.0).floor() / 4.0).collect();
            v.sort_by(|a, b| a.partial_cmp(b).unwrap());
            if c.rng.bool(0.5) {
                v.reverse();
            }
            v
        }
    };
    ys = round_vec::<T>(&ys);
    // definition: P(score(pos) > score(neg)) + ½·P(equal) over all positive/negative pairs
    let (mut gt, mut ties) = (0u64, 0u64);
    if n <= 4000 {
        for i in 0..n {
            if yt[i] != 1.0 {
                continue;
            }
            for j in 0..n {
                if yt[j] != 0.0 {
                    continue;
                }
                if ys[i] > ys[j] {
                    gt += 1;
                } else if ys[i] == ys[j] {
                    ties += 1;
                }
            }
        }
    } else {
        // the same two counts in O(n log n): negatives sorted, for each positive the negatives below it and equal to it
        let mut negs: Vec<f64> = (0..n).filter(|&j| yt[j] == 0.0).map(|j| ys[j]).collect();
        negs.sort_by(|a, b| a.partial_cmp(b).unwrap());
        for i in 0..n {
            if yt[i] == 1.0 {
                let below = negs.partition_point(|v| *v < ys[i]);
                let upto = negs.partition_point(|v| *v <= ys[i]);
                gt += below as u64;
                ties += (upto - below) as u64;
            }
        }
    }
    let pairs = (npos * (n - npos)) as f64;
    let exp = (gt as f64 + 0.5 * ties as f64) / pairs;
    let mut sorted = ys.clone();
    sorted.sort_by(|a, b| a.partial_cmp(b).unwrap());
    let mut maxrun = 1;
    let mut run = 1;
    for i in 1..n {
        if sorted[i] == sorted[i - 1] {
            run += 1;
            maxrun = maxrun.max(run);
        } else {
            run = 1;
        }
    }
    c.describe(json!({"metric": "roc_auc", "width": width::<T>(), "kind": kind, "y_true": yt, "y_score": ys, "positives": npos,
        "pairs_pos_gt_neg": gt, "pairs_tied": ties}));
    hash_case(c, "auc", &yt, &ys, &[eps::<T>()]);
    c.nontrivial();
    size_bucket(c, n);
    c.bucket(&format!("auc:{}", kind));
    c.bucket(&format!("width:{}", width::<T>()));
    c.bucket_if(npos == 1, "auc:single-positive");
    c.bucket_if(npos == n - 1, "auc:single-negative");
    c.bucket(if ties == 0 { "auc:no-pos/neg-tie" } else { "auc:pos/neg-ties" });
    c.bucket_if(maxrun >= 3, "auc:tie-run>=3");
    c.bucket_if(maxrun == n, "auc:all-scores-equal");
    c.bucket_if(maxrun == 2, "auc:tie-run=2");
    c.bucket_if(ties == 0 && maxrun > 1, "auc:ties-within-one-class-only");
    c.bucket(if exp == 1.0 {
        "auc:=1"
    } else if exp == 0.0 {
        "auc:=0"
    } else if exp == 0.5 {
        "auc:=0.5"
    } else {
        "auc:other"
    });
    let tiesig = if maxrun == n {
        "constant"
    } else if ties > 0 {
        "pos-neg-ties"
    } else if maxrun > 1 {
        "within-class-ties"
    } else {
        "no-ties"
    };
    let sg = format!("auc/{}/{}", tiesig, width::<T>());
    let a: Vec<T> = tv(&yt);
    let s: Vec<T> = tv(&ys);
    let tol = (n as f64 / 4.0 + 8.0) * eps::<T>();
    both_apis::<T>(c, "auc", &sg, exp, tol, || ClassificationMetrics::roc_auc_score().get_score(&a, &s), || metrics::roc_auc_score(&a, &s));
}

/// ROC-AUC ranks the scores with the library's own quicksort (median-of-three, explicit 64-slot stack that
/// panics when it overflows). Random scores never load that stack; this family *searches* for score orders
/// that do: hill climbing on permutations, guided by the high-water mark of the stack reported by the `verif`
/// gauge. The verdicts are the property's own: no panic on a valid input, and the value of the definition.
fn auc_sort_stress(c: &mut Case) {
    const SITE: &str = "quick_argsort.stack";
    let n = c.rng.us(64, 200);
    let start = *c.rng.pick(&["random", "random", "ascending", "descending", "organ-pipe", "sawtooth", "interleaved-halves", "two-runs", "left-chain-killer", "right-chain-killer"]);
    let mut ys: Vec<f64> = match start {
        "left-chain-killer" => scverif::gen::sort_killer(n, true),
        "right-chain-killer" => scverif::gen::sort_killer(n, false),
        "ascending" => (0..n).map(|i| i as f64).collect(),
        "descending" => (0..n).map(|i| (n - i) as f64).collect(),
        "organ-pipe" => (0..n).map(|i| if i < n / 2 { 2 * i } else { 2 * (n - 1 - i) + 1 } as f64).collect(),
        "sawtooth" => {
            let m = c.rng.us(2, 9);
            (0..n).map(|i| ((i % m) * n + i) as f64).collect()
        }
        "interleaved-halves" => (0..n).map(|i| if i % 2 == 0 { i / 2 } else { n / 2 + i / 2 + 1 } as f64).collect(),
        "two-runs" => (0..n).map(|i| if i < n / 2 { 2 * i + 1 } else { 2 * (i - n / 2) } as f64).collect(),
        _ => {
            let p = c.rng.perm(n);
            p.iter().map(|v| *v as f64).collect()
        }
    };
    let npos = c.rng.us(1, n - 1);
    let mut yt: Vec<f64> = (0..n).map(|i| if i < npos { 1.0 } else { 0.0 }).collect();
    c.rng.shuffle(&mut yt);
    c.bucket(&format!("stress-start:{}", start));
    size_bucket(c, n);
    let steps = 1500;
    let mut best: u64 = 0;
    let mut first = true;
    let mut evals = 0u64;
    for step in 0..=steps {
        // proposal: swap two entries, reverse a stretch or rotate a stretch by one
        let mut cand = ys.clone();
        if !first {
            let (i, j) = (c.rng.below(n), c.rng.below(n));
            let (lo, hi) = (i.min(j), i.max(j));
            match c.rng.below(4) {
                0 | 1 => cand.swap(i, j),
                2 => cand[lo..=hi].reverse(),
                _ => cand[lo..=hi].rotate_left(1),
            }
        }
        let _ = smartcore::verif::take_max(SITE);
        c.count("no-panic:roc_auc_score");
        let r = guard(|| ClassificationMetrics::roc_auc_score().get_score(&yt, &cand));
        let depth = smartcore::verif::take_max(SITE);
        evals += 1;
        match r {
            Ok(v) => {
                if first || step == steps {
                    let ys = &cand;
                    // the value of the definition at the start and at the end of the search
                    let (mut gt, mut ties) = (0u64, 0u64);
                    for a in 0..n {
                        for b in 0..n {
                            if yt[a] == 1.0 && yt[b] == 0.0 {
                                if ys[a] > ys[b] {
                                    gt += 1;
                                } else if ys[a] == ys[b] {
                                    ties += 1;
                                }
                            }
                        }
                    }
                    let exp = (gt as f64 + 0.5 * ties as f64) / (npos * (n - npos)) as f64;
                    c.describe(json!({"metric": "roc_auc", "search": "hill climbing on the sort's stack high-water mark", "start": start, "step": step, "stack_high_water": depth, "y_true": yt, "y_score": ys}));
                    c.ratio("auc.value", dev(v, exp), (n as f64 / 4.0 + 8.0) * f64::EPSILON, "auc/stress-search/f64", || format!("roc_auc_score = {:e}, definition {:e}", v, exp));
                }
                if first || depth >= best {
                    best = depth;
                    ys = cand;
                }
                first = false;
            }
            Err(p) => {
                c.describe(json!({"metric": "roc_auc", "search": "hill climbing on the sort's stack high-water mark", "start": start, "step": step, "stack_high_water_before": best, "y_true": yt, "y_score": cand}));
                if p.in_harness() {
                    c.inconclusive(&format!("harness panic: {}", p.short()));
                } else {
                    c.violate("no-panic:roc_auc_score", &p.loc(), format!("roc_auc_score panicked on a tie-free score vector of length {} found after {} search steps (stack high-water mark before: {}): {}", n, step, best, p.short()));
                }
                break;
            }
        }
    }
    c.count("auc.sort-stress.evaluations");
    let _ = evals;
    c.hash_f64s(&ys);
    c.hash_f64s(&yt);
    c.nontrivial();
    c.bucket(&format!(
        "sort-stack-high-water:{}",
        match best {
            0..=8 => "<=8",
            9..=16 => "9..16",
            17..=24 => "17..24",
            25..=32 => "25..32",
            33..=48 => "33..48",
            _ => ">48",
        }
    ));
}

// ---------------------------------------------------------------- MSE / MAE / R²
fn regression_t<T: RealNumber>(c: &mut Case) {
    let n = draw_n(c, 1);
    let wide = width::<T>() == "f64";
    let scale = if c.rng.bool(0.5) {
        1.0
    } else if wide {
        c.rng.logu(1e-100, 1e100)
    } else {
        c.rng.logu(1e-6, 1e6)
    };
    let off = if c.rng.bool(0.4) { 0.0 } else { c.rng.logu(0.1, 1e3) * if c.rng.bool(0.5) { 1.0 } else { -1.0 } };
    let tkind = *c.rng.pick(&["normal", "normal", "normal", "integer", "two-valued", "constant"]);
    let base: Vec<f64> = match tkind {
        "normal" => (0..n).map(|_| off + c.rng.normal()).collect(),
        "integer" => (0..n).map(|_| off.round() + c.rng.int(-5, 5) as f64).collect(),
        "two-valued" => (0..n).map(|_| off + if c.rng.bool(0.5) { 1.0 } else { -1.0 }).collect(),
        _ => vec![off + 1.0; n],
    };
    let pkind = *c.rng.pick(&["exact", "small-noise", "noise", "noise", "unrelated", "mean-prediction", "partly-exact", "shifted"]);
    let pred: Vec<f64> = match pkind {
        "exact" => base.clone(),
        "small-noise" => base.iter().map(|y| y + 1e-3 * c.rng.normal()).collect(),
        "noise" => {
            let s = c.rng.logu(0.05, 2.0);
            base.iter().map(|y| y + s * c.rng.normal()).collect()
        }
        "unrelated" => (0..n).map(|_| off + 2.0 * c.rng.normal()).collect(),
        "mean-prediction" => {
            let m = ksum(base.iter().cloned()) / n as f64;
            vec![m; n]
        }
        "partly-exact" => base.iter().map(|y| if c.rng.bool(0.5) { *y } else { y + c.rng.normal() }).collect(),
        _ => {
            let d = c.rng.normal();
            base.iter().map(|y| y + d).collect()
        }
    };
    let yt = round_vec::<T>(&base.iter().map(|y| y * scale).collect::<Vec<f64>>());
    let yp = round_vec::<T>(&pred.iter().map(|y| y * scale).collect::<Vec<f64>>());
    let e = eps::<T>();
    let nf = n as f64;
    // definitions from the residuals (f64, compensated)
    let ss_res = ksum((0..n).map(|i| (yt[i] - yp[i]) * (yt[i] - yp[i])));
    let sa_res = ksum((0..n).map(|i| (yt[i] - yp[i]).abs()));
    let mse = ss_res / nf;
    let mae = sa_res / nf;
    let mean = ksum(yt.iter().cloned()) / nf;
    let ss_tot = ksum(yt.iter().map(|y| (y - mean) * (y - mean)));
    let mean_abs = ksum(yt.iter().map(|y| y.abs())) / nf;
    c.describe(json!({"metric": "mse/mae/r2", "width": width::<T>(), "target_kind": tkind, "prediction_kind": pkind, "scale": scale, "offset": off,
        "y_true": yt, "y_pred": yp}));
    hash_case(c, "regression", &yt, &yp, &[e]);
    c.nontrivial();
    size_bucket(c, n);
    c.bucket(&format!("regression:target-{}", tkind));
    c.bucket(&format!("regression:pred-{}", pkind));
    c.bucket(&format!("width:{}", width::<T>()));
    c.bucket(if scale == 1.0 {
        "scale:1"
    } else if scale < 1e-3 {
        "scale:<1e-3"
    } else if scale > 1e3 {
        "scale:>1e3"
    } else {
        "scale:moderate"
    });
    c.bucket_if(off.abs() >= 30.0, "regression:offset>=30·spread");
    c.bucket_if(ss_res == 0.0, "regression:zero-residuals");
    let sclass = if scale == 1.0 {
        "unit"
    } else if scale < 1.0 {
        "small"
    } else {
        "large"
    };
    let sg = format!("regression/{}/{}", sclass, width::<T>());
    let a: Vec<T> = tv(&yt);
    let b: Vec<T> = tv(&yp);
    // sums of non-negative terms: relative error (n+4)·eps in the implementation, a few eps in the reference
    let rel = 4.0 * (nf + 4.0) * e;
    both_apis::<T>(c, "mse", &sg, mse, rel * mse, || RegressionMetrics::mean_squared_error().get_score(&a, &b), || metrics::mean_squared_error(&a, &b));
    both_apis::<T>(c, "mae", &sg, mae, rel * mae, || RegressionMetrics::mean_absolute_error().get_score(&a, &b), || metrics::mean_absolute_error(&a, &b));
    if !(ss_tot > 0.0) {
        c.bucket("r2:undefined(constant target, zero total sum of squares)");
        return;
    }
    // R² = 1 − SS_res/SS_tot. A mean carrying the rounding error δ of a plain running sum inflates
    // SS_tot by exactly n·δ² (first-order term vanishes), |δ| <= n·eps·mean|y|.
    let delta = nf * e * mean_abs;
    let infl = nf * delta * delta / ss_tot;
    if infl > 1e-3 {
        c.bucket("r2:skipped(offset/spread too large for the width: SS_tot ill-conditioned)");
        return;
    }
    let q = ss_res / ss_tot;
    let r2 = 1.0 - q;
    let tol = 4.0 * (q * (2.0 * (nf + 4.0) * e + infl) + e * r2.abs().max(1.0));
    c.bucket(if r2 == 1.0 {
        "r2:=1"
    } else if r2 < 0.0 {
        "r2:negative"
    } else {
        "r2:in[0,1)"
    });
    both_apis::<T>(c, "r2", &sg, r2, tol, || RegressionMetrics::r2().get_score(&a, &b), || metrics::r2(&a, &b));
}

// ---------------------------------------------------------------- homogeneity / completeness / V-measure
struct HcvRef {
    ka: usize,
    kb: usize,
    h_c: f64,
    h_k: f64,
    h: f64,
    c: f64,
    v: f64,
    /// H(C|K) is exactly zero: every cluster holds members of one class only
    zero_hck: bool,
    /// H(K|C) is exactly zero: every class lies within one cluster
    zero_hkc: bool,
    /// the table is an exact outer product (mutual information zero)
    independent: bool,
}

fn hcv_ref(a: &[i64], b: &[i64]) -> HcvRef {
    let n = a.len() as f64;
    let mut ca: BTreeMap<i64, f64> = BTreeMap::new();
    let mut cb: BTreeMap<i64, f64> = BTreeMap::new();
    let mut cab: BTreeMap<(i64, i64), f64> = BTreeMap::new();
    for i in 0..a.len() {
        *ca.entry(a[i]).or_insert(0.0) += 1.0;
        *cb.entry(b[i]).or_insert(0.0) += 1.0;
        *cab.entry((a[i], b[i])).or_insert(0.0) += 1.0;
    }
    let ent = |m: &BTreeMap<i64, f64>| -> f64 {
        if m.len() == 1 {
            0.0
        } else {
            -ksum(m.values().map(|x| (x / n) * (x / n).ln()))
        }
    };
    let h_c = ent(&ca);
    let h_k = ent(&cb);
    // conditional entropies from the contingency table; cells that fill their row/column contribute ln 1 = 0 exactly
    let hck = -ksum(cab.iter().map(|((_, y), nij)| if *nij == cb[y] { 0.0 } else { (nij / n) * (nij / cb[y]).ln() }));
    let hkc = -ksum(cab.iter().map(|((x, _), nij)| if *nij == ca[x] { 0.0 } else { (nij / n) * (nij / ca[x]).ln() }));
    let zero_hck = cab.iter().all(|((_, y), nij)| *nij == cb[y]);
    let zero_hkc = cab.iter().all(|((x, _), nij)| *nij == ca[x]);
    let independent = ca.iter().all(|(x, ax)| cb.iter().all(|(y, by)| cab.get(&(*x, *y)).cloned().unwrap_or(0.0) * n == ax * by));
    let h = if zero_hck {
        1.0
    } else if independent {
        0.0
    } else {
        1.0 - hck / h_c
    };
    let cc = if zero_hkc {
        1.0
    } else if independent {
        0.0
    } else {
        1.0 - hkc / h_k
    };
    let v = if h + cc == 0.0 { 0.0 } else { 2.0 * h * cc / (h + cc) };
    HcvRef { ka: ca.len(), kb: cb.len(), h_c, h_k, h, c: cc, v, zero_hck, zero_hkc, independent }
}

/// distinct arbitrary integer label values for k classes (|value| < 2^24 so that f32 holds them exactly)
fn label_values(c: &mut Case, k: usize) -> Vec<i64> {
    let mode = c.rng.below(4);
    let mut vals: Vec<i64> = Vec::new();
    match mode {
        0 => {
            for i in 0..k {
                vals.push(i as i64);
            }
        }
        1 => {
            let base = c.rng.int(-50, 50);
            for i in 0..k {
                vals.push(base + i as i64);
            }
        }
        _ => {
            let lim = if mode == 2 { 1000 } else { 10_000_000 };
            while vals.len() < k {
                let v = c.rng.int(-lim, lim);
                if !vals.contains(&v) {
                    vals.push(v);
                }
            }
        }
    }
    c.rng.shuffle(&mut vals);
    vals
}

fn relabel(c: &mut Case, x: &[i64]) -> Vec<i64> {
    let mut distinct: Vec<i64> = x.to_vec();
    distinct.sort();
    distinct.dedup();
    let new = label_values(c, distinct.len());
    x.iter().map(|v| new[distinct.iter().position(|d| d == v).unwrap_or(0)]).collect()
}

fn lab<T: RealNumber>(x: &[i64]) -> Vec<T> {
    x.iter().map(|v| t::<T>(*v as f64)).collect()
}

fn hcv_t<T: RealNumber>(c: &mut Case) {
    let kind = *c.rng.pick(&[
        "random", "random", "random", "noisy-copy", "identical", "renamed-copy", "refinement", "coarsening", "product", "product",
        "single-class-true", "single-class-pred", "single-class-both", "one-outlier", "near-independent",
    ]);
    let mut n = draw_n(c, 1);
    // class indices first, arbitrary label values afterwards
    let (ia, ib): (Vec<usize>, Vec<usize>) = match kind {
        "random" => {
            let ka = c.rng.us(1, 8);
            let kb = c.rng.us(1, 8);
            ((0..n).map(|_| c.rng.below(ka)).collect(), (0..n).map(|_| c.rng.below(kb)).collect())
        }
        "noisy-copy" => {
            let k = c.rng.us(2, 8);
            let q = c.rng.uni(0.0, 0.4);
            let a: Vec<usize> = (0..n).map(|_| c.rng.below(k)).collect();
            let b = a.iter().map(|x| if c.rng.bool(q) { c.rng.below(k) } else { *x }).collect();
            (a, b)
        }
        "identical" | "renamed-copy" => {
            let k = c.rng.us(1, 8);
            let a: Vec<usize> = (0..n).map(|_| c.rng.below(k)).collect();
            (a.clone(), a)
        }
        "refinement" | "coarsening" => {
            // fine labelling with up to 8 classes, coarse one = a many-to-one map of it
            let kf = c.rng.us(2, 8);
            let kc = c.rng.us(1, kf);
            let map: Vec<usize> = (0..kf).map(|_| c.rng.below(kc)).collect();
            let fine: Vec<usize> = (0..n).map(|_| c.rng.below(kf)).collect();
            let coarse: Vec<usize> = fine.iter().map(|x| map[*x]).collect();
            if kind == "refinement" {
                (coarse, fine) // clusters refine the classes: H(C|K) = 0
            } else {
                (fine, coarse) // every class within one cluster: H(K|C) = 0
            }
        }
        "product" => {
            // n_ij = r_i·s_j·m exactly: independent labellings, mutual information zero
            let (mut r, mut s, mut m);
            loop {
                let ka = c.rng.us(2, 8);
                let kb = c.rng.us(2, 8);
                r = (0..ka).map(|_| c.rng.us(1, 3)).collect::<Vec<usize>>();
                s = (0..kb).map(|_| c.rng.us(1, 3)).collect::<Vec<usize>>();
                m = c.rng.us(1, 4);
                let tot = r.iter().sum::<usize>() * s.iter().sum::<usize>() * m;
                if tot <= 200 {
                    n = tot;
                    break;
                }
            }
            let mut pairs: Vec<(usize, usize)> = Vec::new();
            for (i, ri) in r.iter().enumerate() {
                for (j, sj) in s.iter().enumerate() {
                    for _ in 0..ri * sj * m {
                        pairs.push((i, j));
                    }
                }
            }
            c.rng.shuffle(&mut pairs);
            (pairs.iter().map(|p| p.0).collect(), pairs.iter().map(|p| p.1).collect())
        }
        "near-independent" => {
            // mutual information tiny but not zero: the table [[m, m-1], [m+1, m]] (determinant 1), or an exact product
            // table with a single item moved to the next column
            if c.rng.bool(0.5) {
                let m = c.rng.us(2, 50);
                n = 4 * m;
                let mut pairs: Vec<(usize, usize)> = Vec::new();
                for (cell, cnt) in [((0, 0), m), ((0, 1), m - 1), ((1, 0), m + 1), ((1, 1), m)] {
                    for _ in 0..cnt {
                        pairs.push(cell);
                    }
                }
                c.rng.shuffle(&mut pairs);
                (pairs.iter().map(|p| p.0).collect(), pairs.iter().map(|p| p.1).collect())
            } else {
                let (ka, kb) = (c.rng.us(2, 4), c.rng.us(2, 4));
                let r: Vec<usize> = (0..ka).map(|_| c.rng.us(1, 5)).collect();
                let sv: Vec<usize> = (0..kb).map(|_| c.rng.us(1, 5)).collect();
                let mut pairs: Vec<(usize, usize)> = Vec::new();
                for (i, ri) in r.iter().enumerate() {
                    for (j, sj) in sv.iter().enumerate() {
                        for _ in 0..ri * sj {
                            pairs.push((i, j));
                        }
                    }
                }
                pairs[0].1 = (pairs[0].1 + 1) % kb;
                n = pairs.len();
                c.rng.shuffle(&mut pairs);
                (pairs.iter().map(|p| p.0).collect(), pairs.iter().map(|p| p.1).collect())
            }
        }
        "single-class-true" => {
            let kb = c.rng.us(2, 8);
            (vec![0; n], (0..n).map(|_| c.rng.below(kb)).collect())
        }
        "single-class-pred" => {
            let ka = c.rng.us(2, 8);
            ((0..n).map(|_| c.rng.below(ka)).collect(), vec![0; n])
        }
        "single-class-both" => (vec![0; n], vec![0; n]),
        _ => {
            // one point off in one labelling: the smallest non-zero entropy for this n
            let k = c.rng.us(1, 4);
            let mut a = vec![0usize; n];
            let i = c.rng.below(n);
            a[i] = 1;
            let b: Vec<usize> = (0..n).map(|_| c.rng.below(k)).collect();
            if c.rng.bool(0.5) {
                (a, b)
            } else {
                (b, a)
            }
        }
    };
    let va = label_values(c, 8);
    let vb = if kind == "identical" { va.clone() } else { label_values(c, 8) };
    let a: Vec<i64> = ia.iter().map(|i| va[*i]).collect();
    let b: Vec<i64> = ib.iter().map(|i| vb[*i]).collect();
    let r = hcv_ref(&a, &b);
    c.describe(json!({"metric": "hcv", "width": width::<T>(), "kind": kind, "labels_true": a, "labels_pred": b,
        "classes_true": r.ka, "classes_pred": r.kb, "expected": [r.h, r.c, r.v]}));
    let af: Vec<f64> = a.iter().map(|x| *x as f64).collect();
    let bf: Vec<f64> = b.iter().map(|x| *x as f64).collect();
    hash_case(c, "hcv", &af, &bf, &[eps::<T>()]);
    c.nontrivial();
    size_bucket(c, n);
    c.bucket(&format!("hcv:{}", kind));
    c.bucket(&format!("width:{}", width::<T>()));
    c.bucket(&format!("hcv:classes-true={}", r.ka));
    c.bucket(&format!("hcv:classes-pred={}", r.kb));
    c.bucket_if(r.zero_hck, "hcv:H(C|K)=0");
    c.bucket_if(r.zero_hkc, "hcv:H(K|C)=0");
    c.bucket_if(r.independent && r.ka > 1 && r.kb > 1, "hcv:independent(MI=0)");
    c.bucket_if(a.iter().chain(b.iter()).any(|x| *x < 0), "hcv:negative-label-values");
    let sg: String = if r.ka == 1 && r.kb == 1 {
        "hcv/single-class-both".into()
    } else if r.ka == 1 {
        "hcv/single-class-true".into()
    } else if r.kb == 1 {
        "hcv/single-class-pred".into()
    } else {
        format!("hcv/{}/{}", kind, width::<T>())
    };
    let degenerate = r.ka == 1 || r.kb == 1;
    // tolerance: MI and the entropies are sums of O(k²) terms p·ln(·) with |ln| <= 2·ln n, then one division by the entropy
    let e = eps::<T>();
    let lnn = 1.0 + (n as f64).ln();
    let tol_h = 64.0 * e * lnn / if r.h_c > 0.0 { r.h_c.min(1.0) } else { 1.0 };
    let tol_c = 64.0 * e * lnn / if r.h_k > 0.0 { r.h_k.min(1.0) } else { 1.0 };
    let tol_v = 2.0 * (tol_h + tol_c) + 8.0 * e;
    let la: Vec<T> = lab(&a);
    let lb: Vec<T> = lab(&b);
    let (h, cc, v) = match c.must("hcv_score", || ClusterMetrics::hcv_score().get_score(&la, &lb)) {
        Some((h, cc, v)) => (f(h), f(cc), f(v)),
        None => return,
    };
    // --- value 1 when the respective conditional entropy is zero (decided combinatorially on the table)
    if r.zero_hck || r.zero_hkc {
        let mut worst = 0.0f64;
        let mut what = Vec::new();
        if r.zero_hck {
            worst = worst.max(dev(h, 1.0) / tol_h);
            what.push(format!("H(C|K)=0 but homogeneity = {:e}", h));
        }
        if r.zero_hkc {
            worst = worst.max(dev(cc, 1.0) / tol_c);
            what.push(format!("H(K|C)=0 but completeness = {:e}", cc));
        }
        if r.zero_hck && r.zero_hkc {
            worst = worst.max(dev(v, 1.0) / tol_v);
            what.push(format!("both zero but V-measure = {:e}", v));
        }
        let ok = c.ratio("hcv.one-when-conditional-entropy-zero", worst, 1.0, &sg, || {
            format!("returned (h, c, v) = ({:e}, {:e}, {:e}); {}", h, cc, v, what.join("; "))
        });
        if !ok && degenerate {
            // everything below would only repeat the same single-class defect
            return;
        }
    }
    // --- values of the definition
    c.ratio("hcv.homogeneity", dev(h, r.h), tol_h, &sg, || format!("homogeneity {:e}, definition 1 − H(C|K)/H(C) = {:e}", h, r.h));
    c.ratio("hcv.completeness", dev(cc, r.c), tol_c, &sg, || format!("completeness {:e}, definition 1 − H(K|C)/H(K) = {:e}", cc, r.c));
    c.ratio("hcv.v-measure", dev(v, r.v), tol_v, &sg, || format!("V-measure {:e}, definition 2hc/(h+c) = {:e} (h = {:e}, c = {:e})", v, r.v, r.h, r.c));
    // --- range
    let out = |x: f64, tol: f64| if !x.is_finite() { f64::INFINITY } else { ((-x).max(x - 1.0).max(0.0)) / tol };
    let worst_range = out(h, tol_h).max(out(cc, tol_c)).max(out(v, tol_v));
    c.ratio("hcv.range[0,1]", worst_range, 1.0, &sg, || format!("(h, c, v) = ({:e}, {:e}, {:e}) leaves [0,1]", h, cc, v));
    // --- function API
    if let Some((fh, fc, fvv)) = c.must("hcv(fn)", || (metrics::homogeneity_score(&la, &lb), metrics::completeness_score(&la, &lb), metrics::v_measure_score(&la, &lb))) {
        let (fh, fc, fvv) = (f(fh), f(fc), f(fvv));
        let w = (dev(fh, r.h) / tol_h).max(dev(fc, r.c) / tol_c).max(dev(fvv, r.v) / tol_v);
        c.ratio("hcv.function-api", w, 1.0, &sg, || {
            format!("homogeneity_score/completeness_score/v_measure_score = ({:e}, {:e}, {:e}), definition ({:e}, {:e}, {:e})", fh, fc, fvv, r.h, r.c, r.v)
        });
    }
    // --- exchange of the arguments swaps homogeneity and completeness, V-measure unchanged
    if let Some((sh, sc, sv)) = c.must("hcv_score(swapped)", || ClusterMetrics::hcv_score().get_score(&lb, &la)) {
        let (sh, sc, sv) = (f(sh), f(sc), f(sv));
        let w = (dev(sh, cc) / (2.0 * tol_c)).max(dev(sc, h) / (2.0 * tol_h)).max(dev(sv, v) / (2.0 * tol_v));
        c.ratio("hcv.swap", w, 1.0, &sg, || format!("score(true,pred) = ({:e}, {:e}, {:e}) but score(pred,true) = ({:e}, {:e}, {:e})", h, cc, v, sh, sc, sv));
    }
    // --- renaming of the labels (independent injective maps on both sides)
    let a2 = relabel(c, &a);
    let b2 = relabel(c, &b);
    let la2: Vec<T> = lab(&a2);
    let lb2: Vec<T> = lab(&b2);
    if let Some((rh, rc, rv)) = c.must("hcv_score(renamed)", || ClusterMetrics::hcv_score().get_score(&la2, &lb2)) {
        let (rh, rc, rv) = (f(rh), f(rc), f(rv));
        let w = (dev(rh, h) / (2.0 * tol_h)).max(dev(rc, cc) / (2.0 * tol_c)).max(dev(rv, v) / (2.0 * tol_v));
        c.ratio("hcv.rename-invariance", w, 1.0, &sg, || {
            format!("original ({:e}, {:e}, {:e}), after renaming true->{:?}.. pred->{:?}.. ({:e}, {:e}, {:e})", h, cc, v, &a2[..a2.len().min(6)], &b2[..b2.len().min(6)], rh, rc, rv)
        });
    }
}

// ---------------------------------------------------------------- length contract
const PAIRWISE: [&str; 7] = ["accuracy", "precision", "recall", "fbeta", "mse", "mae", "r2"];

fn mismatch_t<T: RealNumber>(c: &mut Case) {
    let metric = PAIRWISE[(c.index % 7) as usize];
    let n1 = draw_n(c, 1);
    let n2 = loop {
        let cand = match c.rng.below(4) {
            0 => n1 + 1,
            1 => n1.saturating_sub(1).max(1),
            _ => draw_n(c, 1),
        };
        if cand != n1 {
            break cand;
        }
    };
    // binary content: inside the value domain of every one of the seven metrics, positives on both sides
    let mut yt: Vec<f64> = (0..n1).map(|_| if c.rng.bool(0.5) { 1.0 } else { 0.0 }).collect();
    let mut yp: Vec<f64> = (0..n2).map(|_| if c.rng.bool(0.5) { 1.0 } else { 0.0 }).collect();
    yt[0] = 1.0;
    yp[0] = 1.0;
    let via_fn = c.rng.bool(0.5);
    c.describe(json!({"metric": metric, "width": width::<T>(), "api": if via_fn { "function" } else { "struct" }, "len_true": n1, "len_pred": n2,
        "y_true": yt, "y_pred": yp}));
    hash_case(c, metric, &yt, &yp, &[eps::<T>(), if via_fn { 1.0 } else { 0.0 }]);
    c.nontrivial();
    c.bucket(&format!("mismatch:{}", metric));
    c.bucket(if n1 < n2 { "mismatch:true-shorter" } else { "mismatch:pred-shorter" });
    c.bucket_if((n1 as i64 - n2 as i64).abs() == 1, "mismatch:lengths-differ-by-1");
    c.bucket(&format!("width:{}", width::<T>()));
    c.bucket(if via_fn { "api:function" } else { "api:struct" });
    let a: Vec<T> = tv(&yt);
    let b: Vec<T> = tv(&yp);
    let sg = format!("{}/{}", metric, if n1 < n2 { "true-shorter" } else { "pred-shorter" });
    let one: T = t(1.0);
    c.must_panic("rejects-different-length", &sg, || -> T {
        match (metric, via_fn) {
            ("accuracy", false) => ClassificationMetrics::accuracy().get_score(&a, &b),
            ("accuracy", true) => metrics::accuracy(&a, &b),
            ("precision", false) => ClassificationMetrics::precision().get_score(&a, &b),
            ("precision", true) => metrics::precision(&a, &b),
            ("recall", false) => ClassificationMetrics::recall().get_score(&a, &b),
            ("recall", true) => metrics::recall(&a, &b),
            ("fbeta", false) => ClassificationMetrics::f1(one).get_score(&a, &b),
            ("fbeta", true) => metrics::f1(&a, &b, one),
            ("mse", false) => RegressionMetrics::mean_squared_error().get_score(&a, &b),
            ("mse", true) => metrics::mean_squared_error(&a, &b),
            ("mae", false) => RegressionMetrics::mean_absolute_error().get_score(&a, &b),
            ("mae", true) => metrics::mean_absolute_error(&a, &b),
            ("r2", false) => RegressionMetrics::r2().get_score(&a, &b),
            (_, _) => metrics::r2(&a, &b),
        }
    });
}

macro_rules! both {
    ($name:ident, $g:ident, $p32:expr) => {
        fn $name(c: &mut Case) {
            if c.rng.bool($p32) {
                $g::<f32>(c)
            } else {
                $g::<f64>(c)
            }
        }
    };
}
both!(accuracy, accuracy_t, 0.25);
both!(binary, binary_t, 0.25);
both!(auc, auc_t, 0.25);
both!(regression, regression_t, 0.3);
both!(hcv, hcv_t, 0.25);
both!(mismatch, mismatch_t, 0.25);

/// the five metric groups on vectors of 300..3000 entries
fn long_vectors(c: &mut Case) {
    if c.index % 40 == 7 {
        return scverif::with_big(2, || if c.index % 80 == 7 { auc_t::<f64>(c) } else { binary_t::<f64>(c) });
    }
    let g = c.index % 5;
    scverif::with_big(1, || match g {
        0 => accuracy(c),
        1 => binary(c),
        2 => auc(c),
        3 => regression(c),
        _ => hcv(c),
    })
}

fn main() {
    runner::main(Spec {
        property: "C15",
        rule: "cases are drawn per family from seeded generators: vector length 1..200 (30% 1..8, 40% 9..50, 30% 51..200; long_vectors: 300..3000, one case in 40 with 93000..100000 entries of f64), f64 or f32 (25-30%); accuracy: binary / multiclass / real labels with planted equalities; binary: every class balance (0, 1, n-1, n, uniform positives) x predictions (flipped copy, independent, all-negative, all-positive, single positive), beta in {1, 0.5, 2, log-uniform 0.1..10}; auc: 1..n-1 positives, scores continuous / informative / 2-5 distinct values / constant / rounded / integers / separating / signed zeros / pre-sorted; regression: targets normal / integer / two-valued / constant, offset 0 or 0.1..1000 spreads, scale 1 or log-uniform (1e-100..1e100 f64, 1e-6..1e6 f32), predictions exact / noisy / unrelated / mean / shifted; hcv: 1..8 classes per side with arbitrary distinct integer label values (|v| <= 1e7), random / noisy copy / identical / renamed copy / refinement / coarsening / exact product table / single-class true, pred, both / one outlier; mismatch: the seven pairwise metrics (index mod 7) on binary vectors of different lengths 1..201 through either API. A case is non-trivial when at least one metric value is defined by the statement and compared (all cases except binary cases where neither precision nor recall is defined); distinct = distinct hash of (family tag, width, both vectors, beta/api); auc also draws the worst-case orders of the library's median-of-three argsort (gen::sort_killer); auc_sort_stress: 64..200 tie-free scores, 1500 hill-climbing steps (swap / reverse / rotate) from structured starts incl. both sort-killer orders, guided by the high-water mark of the sort's explicit stack (verif gauge), verdicts no-panic and the value of the definition at the start and the end of the search",
        assumptions: vec![
            "oracle arithmetic is f64 with compensated sums on the inputs already rounded to the width under test",
            "0/0 cases are outside the statement and are counted, not checked: precision without predicted positives, recall without actual positives, F-beta when precision or recall is undefined or both are 0 (the documented harmonic-mean formula is 0/0), AUC without a positive or without a negative (never generated), R² of a constant target",
            "tolerances: count ratios and sums of non-negative terms relative 4(n+4)·eps (accuracy (n+4)·eps, precision/recall 8·eps, F-beta 64·eps); AUC absolute (n/4+8)·eps; R² absolute 4·[q·(2(n+4)·eps + n·δ²/SS_tot) + eps·max(1,|R²|)] with q = SS_res/SS_tot and δ = n·eps·mean|y| the error bound of a running-sum mean (cases with n·δ²/SS_tot > 1e-3 are not compared); homogeneity / completeness absolute 64·eps·(1+ln n)/min(1, H) with H the entropy in the denominator, V-measure twice their sum",
            "R² offsets are limited to 1000 spreads so that SS_tot stays well-conditioned in f32; scales are limited so that no square overflows or underflows",
            "label values of the cluster metrics are integers with |v| <= 1e7 (exactly representable in f32)",
            "a panic of any origin inside the library counts as rejection of vectors of different length",
        ],
        families: vec![
            Family::new("accuracy", 6000, 120000, accuracy),
            Family::new("binary", 10000, 200000, binary),
            Family::new("auc", 10000, 200000, auc),
            Family::new("auc_sort_stress", 48, 480, auc_sort_stress),
            Family::new("regression", 8000, 160000, regression),
            Family::new("hcv", 12000, 240000, hcv),
            Family::new("mismatch", 4000, 80000, mismatch),
            Family::new("long_vectors", 400, 4000, long_vectors),
        ],
        min_nontrivial: 8000,
        case_timeout_s: 120,
    });
}
