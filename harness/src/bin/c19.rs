//! C19 — every serialisable public type survives a serialise/deserialise round trip (bincode: bit for
//! bit; JSON: up to decimal rounding), serialisation never fails for objects built from finite data, and
//! model equality is meaningful (reflexive, equal to the restored copy and to a deterministic refit,
//! unequal to a model fitted on different rows and targets that behaves differently).
#![allow(clippy::type_complexity, clippy::too_many_arguments)]
use scverif::*;
use serde::de::DeserializeOwned;
use serde::Serialize;
use smartcore::algorithm::neighbour::cover_tree::CoverTree;
use smartcore::algorithm::neighbour::linear_search::LinearKNNSearch;
use smartcore::algorithm::neighbour::KNNAlgorithmName;
use smartcore::cluster::dbscan::{DBSCANParameters, DBSCAN};
use smartcore::cluster::kmeans::{KMeans, KMeansParameters};
use smartcore::decomposition::pca::{PCAParameters, PCA};
use smartcore::decomposition::svd::{SVDParameters, SVD};
use smartcore::ensemble::random_forest_classifier::{RandomForestClassifier, RandomForestClassifierParameters};
use smartcore::ensemble::random_forest_regressor::{RandomForestRegressor, RandomForestRegressorParameters};
use smartcore::error::{Failed, FailedError};
use smartcore::linalg::naive::dense_matrix::DenseMatrix;
use smartcore::linalg::BaseMatrix;
use smartcore::linear::elastic_net::{ElasticNet, ElasticNetParameters};
use smartcore::linear::lasso::{Lasso, LassoParameters};
use smartcore::linear::linear_regression::{LinearRegression, LinearRegressionParameters, LinearRegressionSolverName};
use smartcore::linear::logistic_regression::{LogisticRegression, LogisticRegressionParameters};
use smartcore::linear::ridge_regression::{RidgeRegression, RidgeRegressionParameters, RidgeRegressionSolverName};
use smartcore::math::distance::euclidian::Euclidian;
use smartcore::math::distance::hamming::Hamming;
use smartcore::math::distance::mahalanobis::Mahalanobis;
use smartcore::math::distance::manhattan::Manhattan;
use smartcore::math::distance::minkowski::Minkowski;
use smartcore::math::distance::Distance;
use smartcore::math::num::RealNumber;
use smartcore::metrics::accuracy::Accuracy;
use smartcore::metrics::auc::AUC;
use smartcore::metrics::cluster_hcv::HCVScore;
use smartcore::metrics::f1::F1;
use smartcore::metrics::mean_absolute_error::MeanAbsoluteError;
use smartcore::metrics::mean_squared_error::MeanSquareError;
use smartcore::metrics::precision::Precision;
use smartcore::metrics::r2::R2;
use smartcore::metrics::recall::Recall;
use smartcore::naive_bayes::bernoulli::{BernoulliNB, BernoulliNBParameters};
use smartcore::naive_bayes::categorical::{CategoricalNB, CategoricalNBParameters};
use smartcore::naive_bayes::gaussian::{GaussianNB, GaussianNBParameters};
use smartcore::naive_bayes::multinomial::{MultinomialNB, MultinomialNBParameters};
use smartcore::neighbors::knn_classifier::{KNNClassifier, KNNClassifierParameters};
use smartcore::neighbors::knn_regressor::{KNNRegressor, KNNRegressorParameters};
use smartcore::neighbors::KNNWeightFunction;
use smartcore::svm::svc::{SVCParameters, SVC};
use smartcore::svm::svr::{SVRParameters, SVR};
use smartcore::svm::{Kernel, Kernels, LinearKernel, PolynomialKernel, RBFKernel, SigmoidKernel};
use smartcore::tree::decision_tree_classifier::{DecisionTreeClassifier, DecisionTreeClassifierParameters, SplitCriterion};
use smartcore::tree::decision_tree_regressor::{DecisionTreeRegressor, DecisionTreeRegressorParameters};

/// float widths under test
pub trait Num: RealNumber + Serialize + DeserializeOwned + Default + 'static {}
impl Num for f32 {}
impl Num for f64 {}

type DM<T> = DenseMatrix<T>;

/// JSON tolerance on outputs when the decimal text did not reproduce every float exactly
fn json_tol(width: &str) -> f64 {
    if width == "f32" {
        1e-6
    } else {
        1e-12
    }
}

fn trunc(s: &str, n: usize) -> String {
    s.chars().take(n).collect()
}

fn bits_eq(a: &[f64], b: &[f64]) -> bool {
    a.len() == b.len() && a.iter().zip(b.iter()).all(|(x, y)| x.to_bits() == y.to_bits())
}

fn first_diff(a: &[f64], b: &[f64]) -> String {
    if a.len() != b.len() {
        return format!("output lengths differ: {} vs {}", a.len(), b.len());
    }
    for i in 0..a.len() {
        if a[i].to_bits() != b[i].to_bits() {
            return format!("output[{}]: original {:e} vs restored {:e} ({} outputs)", i, a[i], b[i], a.len());
        }
    }
    "identical".into()
}

/// max |a_i − b_i| / (1 + max|a|); identical bit patterns (also NaN) count as 0, other non-finite as ∞
fn rel_diff(a: &[f64], b: &[f64]) -> f64 {
    if a.len() != b.len() {
        return f64::INFINITY;
    }
    let scale = 1.0 + a.iter().filter(|x| x.is_finite()).fold(0.0f64, |m, x| m.max(x.abs()));
    let mut w = 0.0f64;
    for i in 0..a.len() {
        if a[i].to_bits() == b[i].to_bits() {
            continue;
        }
        if !a[i].is_finite() || !b[i].is_finite() {
            return f64::INFINITY;
        }
        w = w.max((a[i] - b[i]).abs() / scale);
    }
    w
}

/// behavioural difference used by the inequality clause: some output differs clearly (≫ any float tolerance)
fn clearly_differ(a: &[f64], b: &[f64]) -> bool {
    if a.len() != b.len() {
        return true;
    }
    a.iter().zip(b.iter()).any(|(x, y)| x.is_finite() && y.is_finite() && (x - y).abs() > 1e-3 * (1.0 + x.abs().max(y.abs())))
}

/// keys under which a JSON `null` is legitimate (Option fields and PhantomData markers of the crate)
const NULL_OK: [&str; 14] = [
    "max_depth", "m", "samples", "split_value", "split_score", "true_child", "false_child", "priors", "binarize", "t", "f", "phantom",
    "_phantom_t", "_phantom_m",
];

fn find_bad_null(v: &Value, key: &str, out: &mut Option<String>) {
    if out.is_some() {
        return;
    }
    match v {
        Value::Null => {
            if !NULL_OK.contains(&key) {
                *out = Some(key.to_string());
            }
        }
        Value::Array(a) => {
            for e in a {
                find_bad_null(e, key, out);
            }
        }
        Value::Object(o) => {
            for (k, e) in o {
                find_bad_null(e, k, out);
            }
        }
        _ => {}
    }
}

/// runs a (possibly panicking) fallible call; Err carries a printable reason; second field: harness panic
fn attempt<R, E: std::fmt::Display>(f: impl FnOnce() -> Result<R, E>) -> Result<R, (String, bool)> {
    match guard(f) {
        Ok(Ok(r)) => Ok(r),
        Ok(Err(e)) => Err((format!("Err({})", trunc(&e.to_string(), 300)), false)),
        Err(p) => Err((format!("panicked: {}", p.short()), p.in_harness())),
    }
}

struct Ctx<'a, M> {
    ty: &'static str,
    width: &'static str,
    outs: &'a dyn Fn(&M) -> Result<Vec<f64>, String>,
    eq: Option<&'a dyn Fn(&M, &M) -> bool>,
    /// outputs are continuous functions of the stored floats with a small condition number
    smooth: bool,
    /// configuration class that gets its own signature ("" or e.g. "/alpha=0")
    variant: &'static str,
}

impl<'a, M> Ctx<'a, M> {
    fn sg(&self) -> String {
        format!("{}/{}{}", self.ty, self.width, self.variant)
    }
}

/// largest relative difference between the float leaves of two serialised states; structure, strings,
/// booleans, nulls and integers must agree exactly (Err names the first place where they do not)
fn state_diff(a: &Value, b: &Value, path: &str, worst: &mut f64) -> Result<(), String> {
    match (a, b) {
        (Value::Number(x), Value::Number(y)) => {
            if x == y {
                return Ok(());
            }
            if x.is_f64() && y.is_f64() {
                let (u, v) = (x.as_f64().unwrap_or(f64::NAN), y.as_f64().unwrap_or(f64::NAN));
                let d = (u - v).abs() / u.abs().max(v.abs());
                if d.is_finite() {
                    if d > *worst {
                        *worst = d;
                    }
                    return Ok(());
                }
            }
            Err(format!("{}: {} vs {}", path, x, y))
        }
        (Value::Array(x), Value::Array(y)) => {
            if x.len() != y.len() {
                return Err(format!("{}: array lengths {} vs {}", path, x.len(), y.len()));
            }
            for (i, (u, v)) in x.iter().zip(y.iter()).enumerate() {
                state_diff(u, v, &format!("{}[{}]", path, i), worst)?;
            }
            Ok(())
        }
        (Value::Object(x), Value::Object(y)) => {
            if x.len() != y.len() {
                return Err(format!("{}: objects with {} vs {} fields", path, x.len(), y.len()));
            }
            for (k, u) in x {
                match y.get(k) {
                    Some(v) => state_diff(u, v, &format!("{}.{}", path, k), worst)?,
                    None => return Err(format!("{}: field {} missing after the round trip", path, k)),
                }
            }
            Ok(())
        }
        _ => {
            if a == b {
                Ok(())
            } else {
                Err(format!("{}: {} vs {}", path, trunc(&a.to_string(), 80), trunc(&b.to_string(), 80)))
            }
        }
    }
}

fn run_outs<M>(c: &mut Case, cx: &Ctx<M>, m: &M) -> Result<Vec<f64>, String> {
    match attempt(|| (cx.outs)(m)) {
        Ok(v) => Ok(v),
        Err((e, harness)) => {
            if harness {
                c.inconclusive(&format!("harness panic while computing outputs: {}", trunc(&e, 160)));
            }
            Err(e)
        }
    }
}

fn run_eq<M>(c: &mut Case, cx: &Ctx<M>, a: &M, b: &M) -> Option<bool> {
    let eq = cx.eq?;
    c.must(&format!("eq:{}", cx.ty), || eq(a, b))
}

/// restored object: same outputs (bit-identical when `exact`), equal to the original
fn check_restored<M>(c: &mut Case, cx: &Ctx<M>, fmt: &str, m: &M, r: &M, o0: &[f64], exact: bool) {
    let sg = cx.sg();
    match run_outs(c, cx, r) {
        Ok(o1) => {
            if exact {
                c.check(&format!("{}.outputs-bit-identical", fmt), bits_eq(o0, &o1), &sg, || first_diff(o0, &o1));
            }
            if fmt == "json" && !exact && cx.smooth {
                c.ratio(&format!("{}.outputs-close", fmt), rel_diff(o0, &o1), json_tol(cx.width), &sg, || first_diff(o0, &o1));
            }
        }
        Err(e) => {
            c.check(&format!("{}.outputs-available", fmt), false, &sg, || format!("the original produced outputs, the restored object did not: {}", e));
        }
    }
    if exact {
        if let Some(e1) = run_eq(c, cx, m, r) {
            let e2 = run_eq(c, cx, r, m).unwrap_or(false);
            c.check(&format!("{}.eq-restored", fmt), e1 && e2, &format!("eq/{}", cx.ty), || format!("original == restored: {}, restored == original: {}", e1, e2));
        }
    }
}

/// the four round trips of one object `m` whose outputs on the probe inputs are `o0`
fn roundtrip<M: Serialize + DeserializeOwned>(c: &mut Case, cx: &Ctx<M>, m: &M, o0: &[f64]) {
    let sg = cx.sg();
    // ---------------- bincode
    match attempt(|| bincode::serialize(m)) {
        Err((e, _)) => {
            c.check("bincode.serialize-ok", false, &sg, || e);
        }
        Ok(bytes) => {
            c.check("bincode.serialize-ok", true, &sg, String::new);
            match attempt(|| bincode::deserialize::<M>(&bytes)) {
                Err((e, _)) => {
                    c.check("bincode.deserialize-ok", false, &sg, || format!("{} ({} bytes)", e, bytes.len()));
                }
                Ok(r) => {
                    c.check("bincode.deserialize-ok", true, &sg, String::new);
                    match attempt(|| bincode::serialize(&r)) {
                        Ok(b2) => {
                            c.check("bincode.reserialize-identical", b2 == bytes, &sg, || {
                                let p = b2.iter().zip(bytes.iter()).position(|(x, y)| x != y);
                                format!("re-serialised bytes differ (lengths {} / {}, first difference at {:?})", bytes.len(), b2.len(), p)
                            });
                        }
                        Err((e, _)) => {
                            c.check("bincode.reserialize-identical", false, &sg, || format!("restored object does not serialise: {}", e));
                        }
                    }
                    check_restored(c, cx, "bincode", m, &r, o0, true);
                }
            }
        }
    }
    // ---------------- JSON text
    match attempt(|| serde_json::to_string(m)) {
        Err((e, _)) => {
            c.check("json.serialize-ok", false, &sg, || e);
        }
        Ok(s) => {
            c.check("json.serialize-ok", true, &sg, String::new);
            let mut null_number = false;
            if let Ok(v) = serde_json::from_str::<Value>(&s) {
                let mut bad = None;
                find_bad_null(&v, "", &mut bad);
                let key = bad.clone().unwrap_or_default();
                c.check("json.no-null-number", bad.is_none(), &format!("{}/{}{}", cx.ty, key, cx.variant), || {
                    format!("JSON of a model fitted on finite data has null under key '{}' (NaN/±inf state): {}", key, trunc(&s, 600))
                });
                null_number = bad.is_some();
            }
            if null_number {
                // a null in place of a number cannot be read back: consequence of the violation just recorded
                c.bucket("json:null-number(no further JSON verdicts)");
            } else {
            match attempt(|| serde_json::from_str::<M>(&s)) {
                Err((e, _)) => {
                    c.check("json.deserialize-ok", false, &sg, || format!("{}; json = {}", e, trunc(&s, 600)));
                }
                Ok(r) => {
                    c.check("json.deserialize-ok", true, &sg, String::new);
                    let exact = match attempt(|| serde_json::to_string(&r)) {
                        Ok(s2) => s2 == s,
                        Err((e, _)) => {
                            c.check("json.reserialize-ok", false, &sg, || e);
                            false
                        }
                    };
                    c.bucket(if exact { "json:text-reproduced-exactly" } else { "json:decimal-rounding-observed" });
                    // stored state equal up to the decimal rounding of its floats
                    if let (Ok(va), Ok(vb)) = (attempt(|| serde_json::to_value(m)), attempt(|| serde_json::to_value(&r))) {
                        let mut worst = 0.0f64;
                        match state_diff(&va, &vb, "$", &mut worst) {
                            Ok(()) => {
                                c.ratio("json.state-close", worst, json_tol(cx.width), &sg, || "largest relative change of a stored float".to_string());
                            }
                            Err(e) => {
                                c.check("json.state-close", false, &sg, || format!("state changed by the JSON round trip at {}", e));
                            }
                        }
                    }
                    check_restored(c, cx, "json", m, &r, o0, exact);
                }
            }
            }
        }
    }
    // ---------------- serde_json::Value (self-describing data model without decimal text: exact)
    if let Ok(v) = attempt(|| serde_json::to_value(m)) {
        let mut bad = None;
        find_bad_null(&v, "", &mut bad);
        if bad.is_none() {
            match attempt(|| serde_json::from_value::<M>(v)) {
                Err((e, _)) => {
                    c.check("json-value.deserialize-ok", false, &sg, || e);
                }
                Ok(r) => {
                    c.check("json-value.deserialize-ok", true, &sg, String::new);
                    check_restored(c, cx, "json-value", m, &r, o0, true);
                }
            }
        }
    }
}

fn guarded_fit<M>(fit: &dyn Fn(&Ds) -> Result<M, String>, d: &Ds) -> Result<M, (String, bool)> {
    smartcore::verif::set_step_budget(3_000_000);
    let r = attempt(|| fit(d));
    smartcore::verif::set_step_budget(u64::MAX);
    r
}

/// complete C19 protocol for one estimator / structure type on one scenario
fn drive<M: Serialize + DeserializeOwned>(
    c: &mut Case,
    sc: &Scen,
    ty: &'static str,
    fit: &dyn Fn(&Ds) -> Result<M, String>,
    outs: &dyn Fn(&M) -> Result<Vec<f64>, String>,
    eq: Option<&dyn Fn(&M, &M) -> bool>,
    deterministic: bool,
    smooth: bool,
) {
    let variant = if c.buckets.contains("nb:alpha=0") { "/alpha=0" } else { "" };
    let cx = Ctx { ty, width: sc.width(), outs, eq, smooth, variant };
    c.bucket(&format!("type:{}", ty));
    c.bucket(&format!("width:{}", sc.width()));
    let m = match guarded_fit(fit, &sc.a) {
        Ok(m) => m,
        Err((e, harness)) => {
            if harness {
                c.inconclusive(&format!("harness panic in fit: {}", trunc(&e, 160)));
            } else {
                c.skip(&format!("{}: fit on the generated data did not succeed (not a C19 matter): {}", ty, trunc(&e, 80)));
            }
            return;
        }
    };
    let o0 = match run_outs(c, &cx, &m) {
        Ok(o) => o,
        Err(e) => {
            c.skip(&format!("{}: the freshly fitted model cannot produce outputs (not a C19 matter): {}", ty, trunc(&e, 80)));
            return;
        }
    };
    if o0.iter().any(|x| x.to_bits() != o0[0].to_bits()) {
        c.nontrivial();
    }
    roundtrip(c, &cx, &m, &o0);
    // ---------------- equality clauses
    if eq.is_none() {
        c.bucket("eq:not-observable(no PartialEq)");
        return;
    }
    let esg = format!("eq/{}", ty);
    if let Some(e) = run_eq(c, &cx, &m, &m) {
        c.check("eq.reflexive", e, &esg, || "m == m is false".to_string());
    }
    if deterministic {
        match guarded_fit(fit, &sc.a) {
            Ok(m2) => {
                if let Some(e1) = run_eq(c, &cx, &m, &m2) {
                    let e2 = run_eq(c, &cx, &m2, &m).unwrap_or(false);
                    c.check("eq.refit", e1 && e2, &esg, || format!("second fit on the same data: m == refit {}, refit == m {}", e1, e2));
                }
            }
            Err(_) => c.bucket("eq:refit-failed"),
        }
    }
    match guarded_fit(fit, &sc.b) {
        Ok(mb) => match run_outs(c, &cx, &mb) {
            Ok(ob) => {
                if clearly_differ(&o0, &ob) {
                    c.bucket(&format!("eq:different-model/{}", sc.bmode));
                    if let Some(e1) = run_eq(c, &cx, &m, &mb) {
                        let e2 = run_eq(c, &cx, &mb, &m).unwrap_or(true);
                        c.check("eq.different", !e1 && !e2, &esg, || {
                            format!(
                                "models fitted on different rows and targets ({}) whose outputs differ ({}) compare equal: m == other {}, other == m {}",
                                sc.bmode,
                                first_diff(&o0, &ob),
                                e1,
                                e2
                            )
                        });
                    }
                } else {
                    c.bucket("eq:other-model-behaves-alike(no verdict)");
                }
            }
            Err(_) => c.bucket("eq:other-model-no-outputs"),
        },
        Err(_) => c.bucket("eq:other-fit-failed"),
    }
}

// ------------------------------------------------------------------------------------------------
// scenarios: data set A, a different data set B (other rows and other targets), probe queries Q
// ------------------------------------------------------------------------------------------------

#[derive(Clone, Copy, PartialEq, Debug)]
enum XKind {
    Cont,
    Binary,
    Counts,
    Categ,
}

#[derive(Clone, Copy, PartialEq, Debug)]
enum YKind {
    None,
    Reg,
    /// classes: exact number (0 = draw 2..3); labels 0..k-1 when `plain`
    Cls { k: usize, plain: bool },
}

struct ScSpec {
    xk: XKind,
    yk: YKind,
    nmin: usize,
    nmax: usize,
    pmin: usize,
    pmax: usize,
    /// prefer n in {4, 8, 16} (exact means on dyadic data)
    pow2: bool,
}

#[derive(Clone)]
struct Ds {
    x: Mat,
    y: Vec<f64>,
}

struct Scen {
    f32: bool,
    grid: bool,
    n: usize,
    p: usize,
    labels: Vec<f64>,
    a: Ds,
    b: Ds,
    bmode: &'static str,
    q: Mat,
}

fn r32(f32w: bool, v: f64) -> f64 {
    if f32w {
        v as f32 as f64
    } else {
        v
    }
}

struct ColGen {
    scale: Vec<f64>,
    mean: Vec<f64>,
}

fn draw_row(rng: &mut Rng, xk: XKind, grid: bool, f32w: bool, p: usize, g: &ColGen) -> Vec<f64> {
    (0..p)
        .map(|j| match xk {
            XKind::Cont => {
                if grid {
                    rng.int(-32, 32) as f64 / 8.0
                } else {
                    r32(f32w, rng.normal() * g.scale[j] + g.mean[j])
                }
            }
            XKind::Binary => {
                if rng.bool(0.5) {
                    1.0
                } else {
                    0.0
                }
            }
            XKind::Counts => rng.int(0, 5) as f64,
            XKind::Categ => rng.int(0, 3) as f64,
        })
        .collect()
}

fn draw_rows(rng: &mut Rng, xk: XKind, grid: bool, f32w: bool, n: usize, p: usize, g: &ColGen) -> Mat {
    let mut rows: Vec<Vec<f64>> = Vec::new();
    for _ in 0..n {
        let mut r = draw_row(rng, xk, grid, f32w, p, g);
        if xk == XKind::Cont {
            let mut tries = 0;
            while rows.contains(&r) && tries < 100 {
                r = draw_row(rng, xk, grid, f32w, p, g);
                tries += 1;
            }
        }
        rows.push(r);
    }
    Mat::from_rows(&rows)
}

fn reg_targets(rng: &mut Rng, x: &Mat, grid: bool, f32w: bool) -> Vec<f64> {
    let w: Vec<f64> = (0..x.c).map(|_| rng.normal()).collect();
    let b0 = rng.uni(-2.0, 2.0);
    (0..x.r)
        .map(|i| {
            let v = refla::dotv(&x.row(i), &w) + b0 + 0.3 * rng.normal();
            if grid {
                (v * 8.0).round() / 8.0
            } else {
                r32(f32w, v)
            }
        })
        .collect()
}

/// class indices 0..k with every class present at least twice (n >= 2k)
fn cls_idx(rng: &mut Rng, x: &Mat, k: usize) -> Vec<usize> {
    let n = x.r;
    let w: Vec<f64> = (0..x.c).map(|_| rng.normal()).collect();
    let sc: Vec<f64> = (0..n).map(|i| refla::dotv(&x.row(i), &w) + 0.5 * rng.normal()).collect();
    let mut order: Vec<usize> = (0..n).collect();
    order.sort_by(|a, b| sc[*a].partial_cmp(&sc[*b]).unwrap_or(std::cmp::Ordering::Equal));
    let mut idx = vec![0usize; n];
    for (r, &i) in order.iter().enumerate() {
        idx[i] = r * k / n;
    }
    for v in idx.iter_mut() {
        if rng.bool(0.1) {
            *v = rng.below(k);
        }
    }
    for i in 0..(2 * k).min(n) {
        idx[i] = i % k;
    }
    idx
}

impl Scen {
    fn width(&self) -> &'static str {
        if self.f32 {
            "f32"
        } else {
            "f64"
        }
    }

    fn draw(c: &mut Case, sp: &ScSpec) -> Scen {
        let rng = &mut c.rng;
        let f32w = rng.bool(0.35);
        let grid = sp.xk == XKind::Cont && rng.bool(0.5);
        let p = rng.us(sp.pmin, sp.pmax);
        let k = match sp.yk {
            YKind::Cls { k: 0, .. } => rng.us(2, 3),
            YKind::Cls { k, .. } => k,
            _ => 0,
        };
        let lo = sp.nmin.max(2 * k + 1).max(p + 3);
        let mut n = rng.us(lo, sp.nmax.max(lo));
        if sp.pow2 && rng.bool(0.6) {
            let cands: Vec<usize> = [4usize, 8, 16].iter().cloned().filter(|v| *v >= lo.min(16)).collect();
            n = *rng.pick(&cands);
        }
        let labels: Vec<f64> = match sp.yk {
            YKind::Cls { plain: true, .. } => (0..k).map(|i| i as f64).collect(),
            YKind::Cls { .. } => {
                let sets: [[f64; 3]; 4] = [[0.0, 1.0, 2.0], [-1.0, 1.0, 3.0], [1.0, 2.0, 5.0], [0.5, 2.5, 7.0]];
                sets[rng.below(4)][..k].to_vec()
            }
            _ => vec![],
        };
        let g = ColGen { scale: (0..p).map(|_| rng.logu(0.3, 3.0)).collect(), mean: (0..p).map(|_| rng.uni(-2.0, 2.0)).collect() };
        let ax = draw_rows(rng, sp.xk, grid, f32w, n, p, &g);
        let (ay, aidx): (Vec<f64>, Vec<usize>) = match sp.yk {
            YKind::None => (vec![], vec![]),
            YKind::Reg => (reg_targets(rng, &ax, grid, f32w), vec![]),
            YKind::Cls { .. } => {
                let idx = cls_idx(rng, &ax, k);
                (idx.iter().map(|i| labels[*i]).collect(), idx)
            }
        };
        // ---- the other data set: every row differs, every target differs (translated) or an independent draw
        let translated = sp.xk == XKind::Cont && rng.bool(0.6);
        // a third of the translated variants keep the first half of the rows in place (aligned, bit-identical):
        // "different rows" then means "some rows differ", the hardest case for an equality that compares row by row
        let shared_half = translated && rng.bool(0.35);
        // one case in eight: B is A with one to three rows appended (a model refitted after new data arrived): every
        // row and target of A is a prefix of B's
        let superset = rng.bool(0.125);
        let (b, bmode) = if superset {
            let m = rng.us(1, 3);
            let ex = draw_rows(rng, sp.xk, grid, f32w, m, p, &g);
            let bx = Mat::from_fn(n + m, p, |i, j| if i < n { ax.at(i, j) } else { ex.at(i - n, j) });
            let by: Vec<f64> = match sp.yk {
                YKind::None => vec![],
                YKind::Reg => {
                    let mut y = ay.clone();
                    y.extend(reg_targets(rng, &ex, grid, f32w));
                    y
                }
                YKind::Cls { .. } => {
                    let mut y = ay.clone();
                    y.extend((0..m).map(|_| labels[rng.below(k)]));
                    y
                }
            };
            (Ds { x: bx, y: by }, "the rows of A plus one to three appended rows")
        } else if translated {
            let shift: Vec<f64> = (0..p).map(|_| rng.int(1, 6) as f64 * if rng.bool(0.5) { 1.0 } else { -1.0 }).collect();
            let bx = Mat::from_fn(n, p, |i, j| if shared_half && i < n / 2 { ax.at(i, j) } else { r32(f32w, ax.at(i, j) + shift[j]) });
            let by: Vec<f64> = match sp.yk {
                YKind::None => vec![],
                YKind::Reg => {
                    let s = rng.int(1, 6) as f64 * if rng.bool(0.5) { 1.0 } else { -1.0 };
                    ay.iter().map(|v| r32(f32w, v + s)).collect()
                }
                YKind::Cls { .. } => aidx.iter().map(|i| labels[(i + 1) % k]).collect(),
            };
            (Ds { x: bx, y: by }, if shared_half { "first half of the rows shared, the rest translated, shifted/rotated targets" } else { "translated rows, shifted/rotated targets" })
        } else {
            let mut bx = draw_rows(rng, sp.xk, grid, f32w, n, p, &g);
            if bx.d == ax.d {
                // discrete data can coincide: force a different row
                let v = if bx.at(0, 0) == 0.0 { 1.0 } else { 0.0 };
                bx.set(0, 0, v);
            }
            let by: Vec<f64> = match sp.yk {
                YKind::None => vec![],
                YKind::Reg => {
                    let mut y = reg_targets(rng, &bx, grid, f32w);
                    if y == ay {
                        y[0] += 1.0;
                    }
                    y
                }
                YKind::Cls { .. } => {
                    let mut idx = cls_idx(rng, &bx, k);
                    if idx == aidx {
                        idx = idx.iter().map(|i| (i + 1) % k).collect();
                    }
                    idx.iter().map(|i| labels[*i]).collect()
                }
            };
            (Ds { x: bx, y: by }, "independent draw")
        };
        // ---- probes: fresh points, neighbours of A rows, neighbours of B rows, one exact A row
        let nq = rng.us(6, 10);
        let mut qrows: Vec<Vec<f64>> = Vec::new();
        for t in 0..nq {
            let base: Vec<f64> = match t % 3 {
                0 => draw_row(rng, sp.xk, grid, f32w, p, &g),
                1 => ax.row(rng.below(n)),
                _ => b.x.row(rng.below(n)),
            };
            let row: Vec<f64> = if sp.xk == XKind::Cont && t % 3 != 0 {
                base.iter().map(|v| if grid { v + rng.int(-2, 2) as f64 / 8.0 } else { r32(f32w, v + 0.1 * rng.normal()) }).collect()
            } else {
                base
            };
            qrows.push(row);
        }
        qrows.push(ax.row(rng.below(n)));
        let q = Mat::from_rows(&qrows);
        Scen { f32: f32w, grid, n, p, labels, a: Ds { x: ax, y: ay }, b, bmode, q }
    }

    fn describe(&self, c: &mut Case, ty: &str, hyper: Value) {
        c.describe(json!({
            "type": ty, "width": self.width(), "grid": self.grid, "n": self.n, "p": self.p, "labels": self.labels, "hyper": hyper,
            "A": {"x": mat_json(&self.a.x), "y": self.a.y},
            "B": {"mode": self.bmode, "x": mat_json(&self.b.x), "y": self.b.y},
            "Q": mat_json(&self.q),
        }));
        c.bucket(if self.grid { "data:dyadic-grid" } else { "data:generic" });
        c.bucket(&format!("other:{}", self.bmode));
    }
}

fn dx<T: Num>(d: &Ds) -> (DM<T>, Vec<T>) {
    (to_dense::<T>(&d.x), tv::<T>(&d.y))
}

fn es<E: std::fmt::Display>(e: E) -> String {
    e.to_string()
}

// ------------------------------------------------------------------------------------------------
// linear models
// ------------------------------------------------------------------------------------------------
const REG: ScSpec = ScSpec { xk: XKind::Cont, yk: YKind::Reg, nmin: 6, nmax: 20, pmin: 1, pmax: 4, pow2: false };
const CLS: ScSpec = ScSpec { xk: XKind::Cont, yk: YKind::Cls { k: 0, plain: false }, nmin: 8, nmax: 20, pmin: 1, pmax: 4, pow2: false };
const CLS2: ScSpec = ScSpec { xk: XKind::Cont, yk: YKind::Cls { k: 2, plain: false }, nmin: 8, nmax: 18, pmin: 1, pmax: 3, pow2: false };
// a few hundred rows (sorting / selection code switches strategy with the length of its input); half of the
// scenarios are lattice-valued, i.e. every feature column is full of ties
const REG_BIG: ScSpec = ScSpec { xk: XKind::Cont, yk: YKind::Reg, nmin: 260, nmax: 420, pmin: 1, pmax: 3, pow2: false };
const CLS_BIG: ScSpec = ScSpec { xk: XKind::Cont, yk: YKind::Cls { k: 0, plain: false }, nmin: 260, nmax: 420, pmin: 1, pmax: 3, pow2: false };
const UNSUP: ScSpec = ScSpec { xk: XKind::Cont, yk: YKind::None, nmin: 6, nmax: 20, pmin: 1, pmax: 3, pow2: false };

fn linear_t<T: Num>(c: &mut Case, sc: &Scen) {
    let qr = c.rng.bool(0.5);
    sc.describe(c, "LinearRegression", json!({"solver": if qr {"QR"} else {"SVD"}}));
    let q: DM<T> = to_dense(&sc.q);
    let fit = |d: &Ds| {
        let (x, y) = dx::<T>(d);
        let s = if qr { LinearRegressionSolverName::QR } else { LinearRegressionSolverName::SVD };
        LinearRegression::fit(&x, &y, LinearRegressionParameters::default().with_solver(s)).map_err(es)
    };
    let outs = |m: &LinearRegression<T, DM<T>>| {
        let mut o = fv(&m.predict(&q).map_err(es)?);
        o.extend(from_m(m.coefficients()).d);
        o.push(f(m.intercept()));
        Ok(o)
    };
    drive(c, sc, "LinearRegression", &fit, &outs, Some(&|a, b| a == b), true, true);
}

fn ridge_t<T: Num>(c: &mut Case, sc: &Scen) {
    let chol = c.rng.bool(0.5);
    let alpha = c.rng.logu(1e-3, 10.0);
    let normalize = c.rng.bool(0.5);
    sc.describe(c, "RidgeRegression", json!({"solver": if chol {"Cholesky"} else {"SVD"}, "alpha": alpha, "normalize": normalize}));
    let q: DM<T> = to_dense(&sc.q);
    let fit = |d: &Ds| {
        let (x, y) = dx::<T>(d);
        let s = if chol { RidgeRegressionSolverName::Cholesky } else { RidgeRegressionSolverName::SVD };
        RidgeRegression::fit(&x, &y, RidgeRegressionParameters::default().with_solver(s).with_alpha(t(alpha)).with_normalize(normalize)).map_err(es)
    };
    let outs = |m: &RidgeRegression<T, DM<T>>| {
        let mut o = fv(&m.predict(&q).map_err(es)?);
        o.extend(from_m(m.coefficients()).d);
        o.push(f(m.intercept()));
        Ok(o)
    };
    drive(c, sc, "RidgeRegression", &fit, &outs, Some(&|a, b| a == b), true, true);
}

fn lasso_t<T: Num>(c: &mut Case, sc: &Scen) {
    let alpha = c.rng.logu(1e-3, 1.0);
    let normalize = c.rng.bool(0.5);
    let max_iter = *c.rng.pick(&[1usize, 3, 300, 300]);
    sc.describe(c, "Lasso", json!({"alpha": alpha, "normalize": normalize, "max_iter": max_iter}));
    let q: DM<T> = to_dense(&sc.q);
    let fit = |d: &Ds| {
        let (x, y) = dx::<T>(d);
        Lasso::fit(&x, &y, LassoParameters::default().with_alpha(t(alpha)).with_normalize(normalize).with_max_iter(max_iter)).map_err(es)
    };
    let outs = |m: &Lasso<T, DM<T>>| {
        let mut o = fv(&m.predict(&q).map_err(es)?);
        o.extend(from_m(m.coefficients()).d);
        o.push(f(m.intercept()));
        Ok(o)
    };
    drive(c, sc, "Lasso", &fit, &outs, Some(&|a, b| a == b), true, true);
}

fn enet_t<T: Num>(c: &mut Case, sc: &Scen) {
    let alpha = c.rng.logu(1e-3, 1.0);
    let l1 = c.rng.uni(0.1, 0.9);
    let normalize = c.rng.bool(0.5);
    let max_iter = *c.rng.pick(&[1usize, 3, 300, 300]);
    sc.describe(c, "ElasticNet", json!({"alpha": alpha, "l1_ratio": l1, "normalize": normalize, "max_iter": max_iter}));
    let q: DM<T> = to_dense(&sc.q);
    let fit = |d: &Ds| {
        let (x, y) = dx::<T>(d);
        ElasticNet::fit(&x, &y, ElasticNetParameters::default().with_alpha(t(alpha)).with_l1_ratio(t(l1)).with_normalize(normalize).with_max_iter(max_iter)).map_err(es)
    };
    let outs = |m: &ElasticNet<T, DM<T>>| {
        let mut o = fv(&m.predict(&q).map_err(es)?);
        o.extend(from_m(m.coefficients()).d);
        o.push(f(m.intercept()));
        Ok(o)
    };
    drive(c, sc, "ElasticNet", &fit, &outs, Some(&|a, b| a == b), true, true);
}

fn logistic_t<T: Num>(c: &mut Case, sc: &Scen) {
    let alpha = c.rng.logu(1e-2, 1.0);
    sc.describe(c, "LogisticRegression", json!({"alpha": alpha}));
    c.bucket(&format!("classes:{}", sc.labels.len()));
    let q: DM<T> = to_dense(&sc.q);
    let fit = |d: &Ds| {
        let (x, y) = dx::<T>(d);
        LogisticRegression::fit(&x, &y, LogisticRegressionParameters::default().with_alpha(t(alpha))).map_err(es)
    };
    let outs = |m: &LogisticRegression<T, DM<T>>| {
        let mut o = fv(&m.predict(&q).map_err(es)?);
        o.extend(from_m(m.coefficients()).d);
        o.extend(from_m(m.intercept()).d);
        Ok(o)
    };
    drive(c, sc, "LogisticRegression", &fit, &outs, Some(&|a, b| a == b), true, false);
}

// ------------------------------------------------------------------------------------------------
// k-NN estimators (both search algorithms, several distances)
// ------------------------------------------------------------------------------------------------
fn algo(c: &mut Case) -> (KNNAlgorithmName, &'static str) {
    if c.index % 2 == 0 {
        c.bucket("search:LinearSearch");
        (KNNAlgorithmName::LinearSearch, "LinearSearch")
    } else {
        c.bucket("search:CoverTree");
        (KNNAlgorithmName::CoverTree, "CoverTree")
    }
}

fn knn_cls_d<T: Num, D: Distance<Vec<T>, T> + Serialize + DeserializeOwned>(c: &mut Case, sc: &Scen, d: D, dname: &str) {
    let (al, aname) = algo(c);
    let k = c.rng.us(2, 4.min(sc.n));
    let wd = c.rng.bool(0.5);
    sc.describe(c, "KNNClassifier", json!({"algorithm": aname, "distance": dname, "k": k, "weight": if wd {"Distance"} else {"Uniform"}}));
    let q: DM<T> = to_dense(&sc.q);
    let fit = |ds: &Ds| {
        let (x, y) = dx::<T>(ds);
        let w = if wd { KNNWeightFunction::Distance } else { KNNWeightFunction::Uniform };
        KNNClassifier::fit(&x, &y, KNNClassifierParameters::default().with_k(k).with_algorithm(al.clone()).with_weight(w).with_distance(d.clone())).map_err(es)
    };
    let outs = |m: &KNNClassifier<T, D>| Ok(fv(&m.predict(&q).map_err(es)?));
    drive(c, sc, "KNNClassifier", &fit, &outs, Some(&|a, b| a == b), true, false);
}

fn knn_reg_d<T: Num, D: Distance<Vec<T>, T> + Serialize + DeserializeOwned>(c: &mut Case, sc: &Scen, d: D, dname: &str) {
    let (al, aname) = algo(c);
    let k = c.rng.us(1, 4.min(sc.n));
    let wd = c.rng.bool(0.5);
    sc.describe(c, "KNNRegressor", json!({"algorithm": aname, "distance": dname, "k": k, "weight": if wd {"Distance"} else {"Uniform"}}));
    let q: DM<T> = to_dense(&sc.q);
    let fit = |ds: &Ds| {
        let (x, y) = dx::<T>(ds);
        let w = if wd { KNNWeightFunction::Distance } else { KNNWeightFunction::Uniform };
        KNNRegressor::fit(&x, &y, KNNRegressorParameters::default().with_k(k).with_algorithm(al.clone()).with_weight(w).with_distance(d.clone())).map_err(es)
    };
    let outs = |m: &KNNRegressor<T, D>| Ok(fv(&m.predict(&q).map_err(es)?));
    drive(c, sc, "KNNRegressor", &fit, &outs, Some(&|a, b| a == b), true, false);
}

fn knn_cls_t<T: Num>(c: &mut Case, sc: &Scen) {
    match c.rng.below(3) {
        0 => knn_cls_d::<T, _>(c, sc, Euclidian {}, "Euclidian"),
        1 => knn_cls_d::<T, _>(c, sc, Manhattan {}, "Manhattan"),
        _ => knn_cls_d::<T, _>(c, sc, Minkowski { p: 3 }, "Minkowski(3)"),
    }
}

fn knn_reg_t<T: Num>(c: &mut Case, sc: &Scen) {
    match c.rng.below(3) {
        0 => knn_reg_d::<T, _>(c, sc, Euclidian {}, "Euclidian"),
        1 => knn_reg_d::<T, _>(c, sc, Manhattan {}, "Manhattan"),
        _ => knn_reg_d::<T, _>(c, sc, Minkowski { p: 3 }, "Minkowski(3)"),
    }
}

// ------------------------------------------------------------------------------------------------
// trees and forests
// ------------------------------------------------------------------------------------------------
fn criterion(i: usize) -> (SplitCriterion, &'static str) {
    match i % 3 {
        0 => (SplitCriterion::Gini, "Gini"),
        1 => (SplitCriterion::Entropy, "Entropy"),
        _ => (SplitCriterion::ClassificationError, "ClassificationError"),
    }
}

fn tree_cls_t<T: Num>(c: &mut Case, sc: &Scen) {
    let ci = c.rng.below(3);
    let md = if c.rng.bool(0.5) { Some(c.rng.us(1, 4) as u16) } else { None };
    let msl = c.rng.us(1, 3);
    let mss = c.rng.us(2, 4);
    sc.describe(c, "DecisionTreeClassifier", json!({"criterion": criterion(ci).1, "max_depth": md, "min_samples_leaf": msl, "min_samples_split": mss}));
    let q: DM<T> = to_dense(&sc.q);
    let fit = |d: &Ds| {
        let (x, y) = dx::<T>(d);
        let p = DecisionTreeClassifierParameters { criterion: criterion(ci).0, max_depth: md, min_samples_leaf: msl, min_samples_split: mss };
        DecisionTreeClassifier::fit(&x, &y, p).map_err(es)
    };
    let outs = |m: &DecisionTreeClassifier<T>| Ok(fv(&m.predict(&q).map_err(es)?));
    drive(c, sc, "DecisionTreeClassifier", &fit, &outs, Some(&|a, b| a == b), true, false);
}

fn tree_reg_t<T: Num>(c: &mut Case, sc: &Scen) {
    let md = if c.rng.bool(0.5) { Some(c.rng.us(1, 4) as u16) } else { None };
    let msl = c.rng.us(1, 3);
    let mss = c.rng.us(2, 4);
    sc.describe(c, "DecisionTreeRegressor", json!({"max_depth": md, "min_samples_leaf": msl, "min_samples_split": mss}));
    let q: DM<T> = to_dense(&sc.q);
    let fit = |d: &Ds| {
        let (x, y) = dx::<T>(d);
        let p = DecisionTreeRegressorParameters { max_depth: md, min_samples_leaf: msl, min_samples_split: mss };
        DecisionTreeRegressor::fit(&x, &y, p).map_err(es)
    };
    let outs = |m: &DecisionTreeRegressor<T>| Ok(fv(&m.predict(&q).map_err(es)?));
    drive(c, sc, "DecisionTreeRegressor", &fit, &outs, Some(&|a, b| a == b), true, false);
}

fn forest_cls_t<T: Num>(c: &mut Case, sc: &Scen) {
    let ci = c.rng.below(3);
    let md = if c.rng.bool(0.5) { Some(c.rng.us(1, 4) as u16) } else { None };
    let nt = c.rng.us(1, 6) as u16;
    let mtry = if c.rng.bool(0.5) { Some(c.rng.us(1, sc.p)) } else { None };
    let keep = c.rng.bool(0.5);
    let seed = c.rng.next_u64() % 1000;
    sc.describe(c, "RandomForestClassifier", json!({"criterion": criterion(ci).1, "max_depth": md, "n_trees": nt, "m": mtry, "keep_samples": keep, "seed": seed}));
    c.bucket_if(keep, "forest:keep_samples");
    let q: DM<T> = to_dense(&sc.q);
    let xa: DM<T> = to_dense(&sc.a.x);
    let fit = |d: &Ds| {
        let (x, y) = dx::<T>(d);
        let p = RandomForestClassifierParameters {
            criterion: criterion(ci).0,
            max_depth: md,
            min_samples_leaf: 1,
            min_samples_split: 2,
            n_trees: nt,
            m: mtry,
            keep_samples: keep,
            seed,
        };
        RandomForestClassifier::fit(&x, &y, p).map_err(es)
    };
    let outs = |m: &RandomForestClassifier<T>| {
        let mut o = fv(&m.predict(&q).map_err(es)?);
        if keep {
            o.extend(fv(&m.predict_oob(&xa).map_err(es)?));
        }
        Ok(o)
    };
    drive(c, sc, "RandomForestClassifier", &fit, &outs, Some(&|a, b| a == b), true, false);
}

fn forest_reg_t<T: Num>(c: &mut Case, sc: &Scen) {
    let md = if c.rng.bool(0.5) { Some(c.rng.us(1, 4) as u16) } else { None };
    let nt = c.rng.us(1, 6);
    let mtry = if c.rng.bool(0.5) { Some(c.rng.us(1, sc.p)) } else { None };
    let keep = c.rng.bool(0.5);
    let seed = c.rng.next_u64() % 1000;
    sc.describe(c, "RandomForestRegressor", json!({"max_depth": md, "n_trees": nt, "m": mtry, "keep_samples": keep, "seed": seed}));
    c.bucket_if(keep, "forest:keep_samples");
    let q: DM<T> = to_dense(&sc.q);
    let xa: DM<T> = to_dense(&sc.a.x);
    let fit = |d: &Ds| {
        let (x, y) = dx::<T>(d);
        let p = RandomForestRegressorParameters { max_depth: md, min_samples_leaf: 1, min_samples_split: 2, n_trees: nt, m: mtry, keep_samples: keep, seed };
        RandomForestRegressor::fit(&x, &y, p).map_err(es)
    };
    let outs = |m: &RandomForestRegressor<T>| {
        let mut o = fv(&m.predict(&q).map_err(es)?);
        if keep {
            o.extend(fv(&m.predict_oob(&xa).map_err(es)?));
        }
        Ok(o)
    };
    drive(c, sc, "RandomForestRegressor", &fit, &outs, Some(&|a, b| a == b), true, false);
}

// ------------------------------------------------------------------------------------------------
// naive Bayes
// ------------------------------------------------------------------------------------------------
const NB_BIN: ScSpec = ScSpec { xk: XKind::Binary, yk: YKind::Cls { k: 0, plain: false }, nmin: 8, nmax: 20, pmin: 1, pmax: 5, pow2: false };
const NB_CNT: ScSpec = ScSpec { xk: XKind::Counts, yk: YKind::Cls { k: 0, plain: false }, nmin: 8, nmax: 20, pmin: 1, pmax: 5, pow2: false };
const NB_CAT: ScSpec = ScSpec { xk: XKind::Categ, yk: YKind::Cls { k: 0, plain: true }, nmin: 8, nmax: 20, pmin: 1, pmax: 4, pow2: false };
const NB_GAUSS: ScSpec = ScSpec { xk: XKind::Cont, yk: YKind::Cls { k: 0, plain: false }, nmin: 10, nmax: 24, pmin: 1, pmax: 4, pow2: false };

/// smoothing parameter: usually positive; alpha = 0 is accepted by the library and kept as its own class
fn draw_alpha(c: &mut Case) -> f64 {
    if c.rng.bool(0.06) {
        c.bucket("nb:alpha=0");
        0.0
    } else {
        c.rng.logu(0.05, 5.0)
    }
}

fn draw_priors(c: &mut Case, k: usize) -> Option<Vec<f64>> {
    if c.rng.bool(0.3) {
        let w: Vec<f64> = (0..k).map(|_| c.rng.uni(0.2, 1.0)).collect();
        let s: f64 = w.iter().sum();
        Some(w.iter().map(|v| v / s).collect())
    } else {
        None
    }
}

fn nb_gauss_t<T: Num>(c: &mut Case, sc: &Scen) {
    let priors = draw_priors(c, sc.labels.len());
    sc.describe(c, "GaussianNB", json!({"priors": priors}));
    let q: DM<T> = to_dense(&sc.q);
    let fit = |d: &Ds| {
        let (x, y) = dx::<T>(d);
        let p = GaussianNBParameters::<T> { priors: priors.as_ref().map(|pr| tv::<T>(pr)) };
        GaussianNB::fit(&x, &y, p).map_err(es)
    };
    let outs = |m: &GaussianNB<T, DM<T>>| Ok(fv(&m.predict(&q).map_err(es)?));
    drive(c, sc, "GaussianNB", &fit, &outs, Some(&|a, b| a == b), true, false);
}

fn nb_bern_t<T: Num>(c: &mut Case, sc: &Scen) {
    let alpha = draw_alpha(c);
    let priors = draw_priors(c, sc.labels.len());
    let binarize = if c.rng.bool(0.5) { Some(c.rng.uni(0.1, 0.9)) } else { None };
    sc.describe(c, "BernoulliNB", json!({"alpha": alpha, "priors": priors, "binarize": binarize}));
    let q: DM<T> = to_dense(&sc.q);
    let fit = |d: &Ds| {
        let (x, y) = dx::<T>(d);
        let p = BernoulliNBParameters { alpha: t::<T>(alpha), priors: priors.as_ref().map(|p| tv::<T>(p)), binarize: binarize.map(t::<T>) };
        BernoulliNB::fit(&x, &y, p).map_err(es)
    };
    let outs = |m: &BernoulliNB<T, DM<T>>| Ok(fv(&m.predict(&q).map_err(es)?));
    drive(c, sc, "BernoulliNB", &fit, &outs, Some(&|a, b| a == b), true, false);
}

fn nb_multi_t<T: Num>(c: &mut Case, sc: &Scen) {
    let alpha = draw_alpha(c);
    let priors = draw_priors(c, sc.labels.len());
    sc.describe(c, "MultinomialNB", json!({"alpha": alpha, "priors": priors}));
    let q: DM<T> = to_dense(&sc.q);
    let fit = |d: &Ds| {
        let (x, y) = dx::<T>(d);
        let p = MultinomialNBParameters { alpha: t::<T>(alpha), priors: priors.as_ref().map(|p| tv::<T>(p)) };
        MultinomialNB::fit(&x, &y, p).map_err(es)
    };
    let outs = |m: &MultinomialNB<T, DM<T>>| Ok(fv(&m.predict(&q).map_err(es)?));
    drive(c, sc, "MultinomialNB", &fit, &outs, Some(&|a, b| a == b), true, false);
}

fn nb_cat_t<T: Num>(c: &mut Case, sc: &Scen) {
    let alpha = draw_alpha(c);
    sc.describe(c, "CategoricalNB", json!({"alpha": alpha}));
    let q: DM<T> = to_dense(&sc.q);
    let fit = |d: &Ds| {
        let (x, y) = dx::<T>(d);
        CategoricalNB::fit(&x, &y, CategoricalNBParameters { alpha: t::<T>(alpha) }).map_err(es)
    };
    let outs = |m: &CategoricalNB<T, DM<T>>| Ok(fv(&m.predict(&q).map_err(es)?));
    drive(c, sc, "CategoricalNB", &fit, &outs, Some(&|a, b| a == b), true, false);
}

// ------------------------------------------------------------------------------------------------
// support vector machines, each kernel
// ------------------------------------------------------------------------------------------------
fn svc_k<T: Num, K: Kernel<T, Vec<T>> + Serialize + DeserializeOwned + Clone>(c: &mut Case, sc: &Scen, kernel: K, kname: &'static str, kj: Value) {
    let cc = c.rng.logu(0.1, 10.0);
    let epoch = c.rng.us(1, 3);
    sc.describe(c, "SVC", json!({"kernel": kname, "kernel_parameters": kj, "c": cc, "epoch": epoch, "tol": 1e-3}));
    c.bucket(&format!("kernel:{}", kname));
    let q: DM<T> = to_dense(&sc.q);
    let fit = |d: &Ds| {
        let (x, y) = dx::<T>(d);
        let p = SVCParameters::<T, DM<T>, LinearKernel>::default().with_c(t(cc)).with_epoch(epoch).with_kernel(kernel.clone());
        SVC::fit(&x, &y, p).map_err(es)
    };
    let outs = |m: &SVC<T, DM<T>, K>| {
        let mut o = fv(&m.decision_function(&q).map_err(es)?);
        o.extend(fv(&m.predict(&q).map_err(es)?));
        Ok(o)
    };
    // the SVC trainer visits the rows in a random order: no refit clause
    drive(c, sc, "SVC", &fit, &outs, Some(&|a, b| a == b), false, false);
}

fn svr_k<T: Num, K: Kernel<T, Vec<T>> + Serialize + DeserializeOwned + Clone>(c: &mut Case, sc: &Scen, kernel: K, kname: &'static str, kj: Value) {
    let cc = c.rng.logu(0.1, 10.0);
    let eps = c.rng.logu(0.01, 0.5);
    sc.describe(c, "SVR", json!({"kernel": kname, "kernel_parameters": kj, "c": cc, "eps": eps, "tol": 1e-3}));
    c.bucket(&format!("kernel:{}", kname));
    let q: DM<T> = to_dense(&sc.q);
    let fit = |d: &Ds| {
        let (x, y) = dx::<T>(d);
        let p = SVRParameters::<T, DM<T>, LinearKernel>::default().with_c(t(cc)).with_eps(t(eps)).with_kernel(kernel.clone());
        SVR::fit(&x, &y, p).map_err(es)
    };
    let outs = |m: &SVR<T, DM<T>, K>| Ok(fv(&m.predict(&q).map_err(es)?));
    drive(c, sc, "SVR", &fit, &outs, Some(&|a, b| a == b), true, false);
}

macro_rules! per_kernel {
    ($name:ident, $inner:ident) => {
        fn $name<T: Num>(c: &mut Case, sc: &Scen) {
            match c.index % 4 {
                0 => $inner::<T, _>(c, sc, Kernels::linear(), "Linear", json!({})),
                1 => {
                    let g = c.rng.logu(0.05, 1.0);
                    $inner::<T, _>(c, sc, Kernels::rbf(t::<T>(g)), "RBF", json!({ "gamma": g }))
                }
                2 => {
                    let deg = c.rng.us(2, 3) as f64;
                    let g = c.rng.logu(0.05, 0.5);
                    let c0 = c.rng.uni(0.0, 1.0);
                    $inner::<T, _>(c, sc, Kernels::polynomial(t::<T>(deg), t::<T>(g), t::<T>(c0)), "Polynomial", json!({"degree": deg, "gamma": g, "coef0": c0}))
                }
                _ => {
                    let g = c.rng.logu(0.01, 0.3);
                    let c0 = c.rng.uni(-0.5, 0.5);
                    $inner::<T, _>(c, sc, Kernels::sigmoid(t::<T>(g), t::<T>(c0)), "Sigmoid", json!({"gamma": g, "coef0": c0}))
                }
            }
        }
    };
}
per_kernel!(svc_t, svc_k);
per_kernel!(svr_t, svr_k);

// ------------------------------------------------------------------------------------------------
// clustering and decomposition
// ------------------------------------------------------------------------------------------------
fn kmeans_t<T: Num>(c: &mut Case, sc: &Scen) {
    // usually 2..3 clusters; sometimes as many clusters as rows (the rows of these scenarios are pairwise distinct)
    let k = if c.rng.bool(0.12) { sc.n } else { c.rng.us(2, 3.min(sc.n / 2).max(2)) };
    c.bucket_if(k == sc.n, "kmeans:k=n");
    // iteration limits down to a single pass (and passes that cannot converge) are ordinary settings
    let max_iter = *c.rng.pick(&[1usize, 1, 2, 3, 100]);
    c.bucket(&format!("kmeans:max_iter={}", max_iter));
    sc.describe(c, "KMeans", json!({ "k": k, "max_iter": max_iter }));
    let q: DM<T> = to_dense(&sc.q);
    let fit = |d: &Ds| {
        let (x, _) = dx::<T>(d);
        KMeans::fit(&x, KMeansParameters::default().with_k(k).with_max_iter(max_iter)).map_err(es)
    };
    let outs = |m: &KMeans<T>| Ok(fv(&m.predict(&q).map_err(es)?));
    // random initialisation: no refit clause
    drive(c, sc, "KMeans", &fit, &outs, Some(&|a, b| a == b), false, false);
    // the seeding is random: one fit is one schedule. A small data set with a tight group, a straggler, a lone point and
    // a pair (clusters can run empty during the iteration) is fitted repeatedly; every fitted model has to come back
    // from JSON and label fresh rows like the original
    let dim = c.rng.us(1, 2);
    let centre = c.rng.uni(-8.0, 8.0);
    let mut rows: Vec<Vec<f64>> = Vec::new();
    let mut put = |base: f64, spread: f64, m: usize, rng: &mut Rng| {
        for _ in 0..m {
            rows.push((0..dim).map(|_| r32(sc.f32, base + spread * rng.normal())).collect());
        }
    };
    put(centre, 0.3, 3, &mut c.rng);
    put(centre - 5.0, 0.1, 1, &mut c.rng);
    put(centre + 5.5, 0.1, 1, &mut c.rng);
    put(centre + 7.7, 0.1, 2, &mut c.rng);
    let xs = Mat::from_rows(&rows);
    let xd: DM<T> = to_dense(&xs);
    let qd: DM<T> = to_dense(&Mat::from_fn(6, dim, |i, _| centre - 12.0 + 4.5 * i as f64));
    let sg = format!("KMeans/repeated-fits/{}", width::<T>());
    for _ in 0..20 {
        let m = match c.must("KMeans::fit(repeated)", || KMeans::<T>::fit(&xd, KMeansParameters::default().with_k(3))) {
            Some(Ok(m)) => m,
            _ => break,
        };
        let js = match serde_json::to_string(&m) {
            Ok(s) => s,
            Err(e) => {
                c.check("json.serialize-ok", false, &sg, || format!("{}", e));
                break;
            }
        };
        let back: Result<KMeans<T>, _> = serde_json::from_str(&js);
        let ok = match &back {
            Ok(m2) => match (m.predict(&qd), m2.predict(&qd)) {
                (Ok(a), Ok(b)) => fv(&a) == fv(&b),
                _ => false,
            },
            Err(_) => false,
        };
        if !c.check("json.restorable(repeated fits)", ok, &sg, || format!("rows {:?}: the fitted model serialises to {} and {}", rows_json(&xs), trunc(&js, 300), match &back { Ok(_) => "its restored copy labels fresh rows differently".to_string(), Err(e) => format!("cannot be restored: {}", e) })) {
            break;
        }
    }
}

fn rows_json(m: &Mat) -> Vec<Vec<f64>> {
    (0..m.r).map(|i| m.row(i)).collect()
}

fn dbscan_d<T: Num, D: Distance<Vec<T>, T> + Serialize + DeserializeOwned>(c: &mut Case, sc: &Scen, d: D, dname: &str) {
    let (al, aname) = algo(c);
    let eps = if sc.grid { c.rng.int(4, 16) as f64 / 8.0 } else { c.rng.uni(0.5, 2.0) };
    let ms = c.rng.us(1, 4);
    sc.describe(c, "DBSCAN", json!({"algorithm": aname, "distance": dname, "eps": eps, "min_samples": ms}));
    let q: DM<T> = to_dense(&sc.q);
    let fit = |ds: &Ds| {
        let (x, _) = dx::<T>(ds);
        DBSCAN::fit(&x, DBSCANParameters::default().with_eps(t::<T>(eps)).with_min_samples(ms).with_algorithm(al.clone()).with_distance(d.clone())).map_err(es)
    };
    let outs = |m: &DBSCAN<T, D>| Ok(fv(&m.predict(&q).map_err(es)?));
    drive(c, sc, "DBSCAN", &fit, &outs, Some(&|a, b| a == b), true, false);
}

fn dbscan_t<T: Num>(c: &mut Case, sc: &Scen) {
    match c.rng.below(3) {
        0 => dbscan_d::<T, _>(c, sc, Euclidian {}, "Euclidian"),
        1 => dbscan_d::<T, _>(c, sc, Manhattan {}, "Manhattan"),
        _ => dbscan_d::<T, _>(c, sc, Minkowski { p: 3 }, "Minkowski(3)"),
    }
}

const PCA_SPEC: ScSpec = ScSpec { xk: XKind::Cont, yk: YKind::None, nmin: 4, nmax: 20, pmin: 1, pmax: 4, pow2: true };
const SVD_SPEC: ScSpec = ScSpec { xk: XKind::Cont, yk: YKind::None, nmin: 6, nmax: 20, pmin: 2, pmax: 4, pow2: false };

fn pca_t<T: Num>(c: &mut Case, sc: &Scen) {
    let k = c.rng.us(1, sc.p);
    let corr = c.rng.bool(0.3);
    sc.describe(c, "PCA", json!({"n_components": k, "use_correlation_matrix": corr}));
    c.bucket(if corr || sc.n <= sc.p { "pca:covariance/correlation-path" } else { "pca:svd-path" });
    let q: DM<T> = to_dense(&sc.q);
    let fit = |d: &Ds| {
        let (x, _) = dx::<T>(d);
        PCA::fit(&x, PCAParameters::default().with_n_components(k).with_use_correlation_matrix(corr)).map_err(es)
    };
    let outs = |m: &PCA<T, DM<T>>| {
        let mut o = from_m(&m.transform(&q).map_err(es)?).d;
        o.extend(from_m(m.components()).d);
        Ok(o)
    };
    drive(c, sc, "PCA", &fit, &outs, Some(&|a, b| a == b), true, true);
}

fn tsvd_t<T: Num>(c: &mut Case, sc: &Scen) {
    let k = c.rng.us(1, sc.p - 1);
    sc.describe(c, "SVD", json!({ "n_components": k }));
    let q: DM<T> = to_dense(&sc.q);
    let fit = |d: &Ds| {
        let (x, _) = dx::<T>(d);
        SVD::fit(&x, SVDParameters::default().with_n_components(k)).map_err(es)
    };
    let outs = |m: &SVD<T, DM<T>>| {
        let mut o = from_m(&m.transform(&q).map_err(es)?).d;
        o.extend(from_m(m.components()).d);
        Ok(o)
    };
    drive(c, sc, "SVD", &fit, &outs, Some(&|a, b| a == b), true, true);
}

// ------------------------------------------------------------------------------------------------
// neighbour-search structures
// ------------------------------------------------------------------------------------------------
fn rows_t<T: Num>(m: &Mat) -> Vec<Vec<T>> {
    m.rows().iter().map(|r| tv::<T>(r)).collect()
}

fn push_found<T: Num>(o: &mut Vec<f64>, r: Vec<(usize, T, &Vec<T>)>) {
    o.push(r.len() as f64);
    for (i, d, _) in r {
        o.push(i as f64);
        o.push(f(d));
    }
}

fn cover_d<T: Num, D: Distance<Vec<T>, T> + Serialize + DeserializeOwned>(c: &mut Case, sc: &Scen, d: D, dname: &str) {
    let k = c.rng.us(1, 4.min(sc.n));
    let radius = c.rng.uni(0.5, 3.0);
    sc.describe(c, "CoverTree", json!({"distance": dname, "k": k, "radius": radius}));
    let q = rows_t::<T>(&sc.q);
    let fit = |ds: &Ds| CoverTree::new(rows_t::<T>(&ds.x), d.clone()).map_err(es);
    let outs = |m: &CoverTree<Vec<T>, T, D>| {
        let mut o = Vec::new();
        for qi in &q {
            push_found(&mut o, m.find(qi, k).map_err(es)?);
            push_found(&mut o, m.find_radius(qi, t::<T>(radius)).map_err(es)?);
        }
        Ok(o)
    };
    drive(c, sc, "CoverTree", &fit, &outs, Some(&|a, b| a == b), true, false);
}

fn linear_d<T: Num, D: Distance<Vec<T>, T> + Serialize + DeserializeOwned>(c: &mut Case, sc: &Scen, mk: &dyn Fn(&Ds) -> D, dname: &str) {
    let k = c.rng.us(1, 4.min(sc.n));
    let radius = c.rng.uni(0.5, 3.0);
    sc.describe(c, "LinearKNNSearch", json!({"distance": dname, "k": k, "radius": radius}));
    c.bucket(&format!("distance:{}", dname));
    let q = rows_t::<T>(&sc.q);
    let fit = |ds: &Ds| LinearKNNSearch::new(rows_t::<T>(&ds.x), mk(ds)).map_err(es);
    let outs = |m: &LinearKNNSearch<Vec<T>, T, D>| {
        let mut o = Vec::new();
        for qi in &q {
            push_found(&mut o, m.find(qi, k).map_err(es)?);
            push_found(&mut o, m.find_radius(qi, t::<T>(radius)).map_err(es)?);
        }
        Ok(o)
    };
    // LinearKNNSearch has no PartialEq: the equality clauses cannot be observed
    drive(c, sc, "LinearKNNSearch", &fit, &outs, None, true, false);
}

fn cover_t<T: Num>(c: &mut Case, sc: &Scen) {
    match c.rng.below(3) {
        0 => cover_d::<T, _>(c, sc, Euclidian {}, "Euclidian"),
        1 => cover_d::<T, _>(c, sc, Manhattan {}, "Manhattan"),
        _ => cover_d::<T, _>(c, sc, Minkowski { p: 3 }, "Minkowski(3)"),
    }
}

/// Cover trees over data whose pairwise distances span many decades (one level per factor 1.3): the serialised tree is
/// as deeply nested as the tree itself. Rows: one feature, log-uniform over `decades` decades, optionally a second
/// feature of ordinary scale·1e-12. The nesting depth of the JSON document is recorded (serde_json reads at most 128
/// levels by default); both formats have to bring the tree back, and queries have to give the same neighbours.
fn cover_deep(c: &mut Case) {
    let n = c.rng.us(60, 260);
    let decades = c.rng.uni(3.0, 8.5);
    let rows: Vec<Vec<f64>> = (0..n).map(|_| vec![10f64.powf(c.rng.uni(-decades / 2.0, decades / 2.0)) * if c.rng.bool(0.5) { 1.0 } else { -1.0 }]).collect();
    c.describe(json!({"type": "CoverTree", "rows(1-D, log-uniform)": rows.len(), "decades": decades, "first_rows": rows.iter().take(12).collect::<Vec<_>>()}));
    for r in &rows {
        c.hash_f64s(r);
    }
    c.nontrivial();
    let tree = match c.must("CoverTree::new", || CoverTree::new(rows.clone(), Euclidian {})) {
        Some(Ok(t)) => t,
        Some(Err(e)) => {
            c.check("fit.ok", false, "CoverTree/deep", || format!("CoverTree::new returned Err({})", e));
            return;
        }
        None => return,
    };
    let js = match serde_json::to_string(&tree) {
        Ok(s) => s,
        Err(e) => {
            c.check("json.serialize-ok", false, "CoverTree/deep", || format!("{}", e));
            return;
        }
    };
    let (mut depth, mut maxd) = (0usize, 0usize);
    for b in js.bytes() {
        match b {
            b'{' | b'[' => {
                depth += 1;
                maxd = maxd.max(depth);
            }
            b'}' | b']' => depth = depth.saturating_sub(1),
            _ => {}
        }
    }
    c.bucket(&format!("cover-tree-json-nesting:{}", match maxd { 0..=32 => "<=32", 33..=64 => "33..64", 65..=96 => "65..96", 97..=127 => "97..127", _ => ">=128" }));
    let queries: Vec<Vec<f64>> = (0..6).map(|_| vec![10f64.powf(c.rng.uni(-decades / 2.0, decades / 2.0))]).collect();
    let outs = |t: &CoverTree<Vec<f64>, f64, Euclidian>| -> Vec<f64> { queries.iter().flat_map(|q| t.find(q, 3.min(n)).map(|v| v.iter().map(|e| e.1).collect::<Vec<f64>>()).unwrap_or_default()).collect() };
    let o0 = outs(&tree);
    let sg = format!("CoverTree/deep/nesting{}", if maxd >= 128 { ">=128" } else { "<128" });
    match serde_json::from_str::<CoverTree<Vec<f64>, f64, Euclidian>>(&js) {
        Ok(t2) => {
            c.check("json.deserialize-ok", true, &sg, String::new);
            // JSON text does not reproduce every float exactly (up to 1 ulp per coordinate): distances within 8 ulps
            let o2 = outs(&t2);
            // (a distance |q − x| inherits the absolute error of the coordinates, i.e. ulps of the largest coordinate)
            let big = rows.iter().map(|r| r[0].abs()).fold(0.0f64, f64::max);
            let same = o2.len() == o0.len() && o2.iter().zip(o0.iter()).all(|(a, b)| a == b || (a - b).abs() <= 8.0 * f64::EPSILON * (big + a.abs().max(b.abs())));
            c.check("json.outputs", same, &sg, || format!("restored tree returns other neighbour distances: {:?} vs {:?}", o2, o0));
        }
        Err(e) => {
            c.check("json.deserialize-ok", false, &sg, || format!("a cover tree over {} rows spanning {:.1} decades serialises to a document nested {} levels deep that cannot be read back: {}", n, decades, maxd, e));
        }
    }
    match bincode::serialize(&tree).map_err(|e| e.to_string()).and_then(|b| bincode::deserialize::<CoverTree<Vec<f64>, f64, Euclidian>>(&b).map_err(|e| e.to_string())) {
        Ok(t2) => {
            c.check("bincode.outputs-bit-identical", outs(&t2) == o0, &sg, || "restored tree returns other neighbour distances".to_string());
        }
        Err(e) => {
            c.check("bincode.roundtrip-ok", false, &sg, || e.clone());
        }
    }
}

fn linear_search_t<T: Num>(c: &mut Case, sc: &Scen) {
    match c.index % 5 {
        0 => linear_d::<T, _>(c, sc, &|_| Euclidian {}, "Euclidian"),
        1 => linear_d::<T, _>(c, sc, &|_| Manhattan {}, "Manhattan"),
        2 => linear_d::<T, _>(c, sc, &|_| Minkowski { p: 3 }, "Minkowski(3)"),
        3 => linear_d::<T, _>(c, sc, &|_| Hamming {}, "Hamming"),
        _ => linear_d::<T, Mahalanobis<T, DM<T>>>(c, sc, &|ds| Mahalanobis::new(&to_dense::<T>(&ds.x)), "Mahalanobis"),
    }
}

// ------------------------------------------------------------------------------------------------
// distances and kernels (no PartialEq: only the round-trip clauses are observable)
// ------------------------------------------------------------------------------------------------
fn pair_outs<T: Num>(q: &[Vec<T>], g: impl Fn(&Vec<T>, &Vec<T>) -> T) -> Vec<f64> {
    let mut o = Vec::new();
    for i in 0..q.len() {
        for j in 0..q.len() {
            o.push(f(g(&q[i], &q[j])));
        }
    }
    o
}

fn dist_d<T: Num, D: Distance<Vec<T>, T> + Serialize + DeserializeOwned>(c: &mut Case, sc: &Scen, ty: &'static str, mk: &dyn Fn(&Ds) -> D, hyper: Value) {
    sc.describe(c, ty, hyper);
    let q = rows_t::<T>(&sc.q);
    let fit = |ds: &Ds| Ok(mk(ds));
    let outs = |m: &D| Ok(pair_outs(&q, |a, b| m.distance(a, b)));
    drive(c, sc, ty, &fit, &outs, None, true, false);
}

fn distances_t<T: Num>(c: &mut Case, sc: &Scen) {
    match c.index % 6 {
        0 => dist_d::<T, _>(c, sc, "Euclidian", &|_| Euclidian {}, json!({})),
        1 => dist_d::<T, _>(c, sc, "Manhattan", &|_| Manhattan {}, json!({})),
        2 => dist_d::<T, _>(c, sc, "Hamming", &|_| Hamming {}, json!({})),
        3 => {
            let p = c.rng.us(1, 5) as u16;
            dist_d::<T, _>(c, sc, "Minkowski", &|_| Minkowski { p }, json!({ "p": p }))
        }
        4 => dist_d::<T, Mahalanobis<T, DM<T>>>(c, sc, "Mahalanobis", &|ds| Mahalanobis::new(&to_dense::<T>(&ds.x)), json!({"from": "data A"})),
        _ => {
            // covariance given directly: S = G·Gᵀ/p + I
            let p = sc.p;
            let g = Mat::randn(&mut c.rng, p, p);
            let mut s = g.mul(&g.t()).scale(1.0 / p as f64).add(&Mat::eye(p));
            if sc.f32 {
                s = s.round_f32();
            }
            dist_d::<T, Mahalanobis<T, DM<T>>>(c, sc, "Mahalanobis", &|_| Mahalanobis::new_from_covariance(&to_dense::<T>(&s)), json!({"from": "covariance", "sigma": mat_json(&s)}))
        }
    }
}

fn kern_k<T: Num, K: Kernel<T, Vec<T>> + Serialize + DeserializeOwned + Clone>(c: &mut Case, sc: &Scen, ty: &'static str, k: K, hyper: Value) {
    sc.describe(c, ty, hyper);
    let q = rows_t::<T>(&sc.q);
    let fit = |_: &Ds| Ok(k.clone());
    let outs = |m: &K| Ok(pair_outs(&q, |a, b| m.apply(a, b)));
    drive(c, sc, ty, &fit, &outs, None, true, false);
}

fn kernels_t<T: Num>(c: &mut Case, sc: &Scen) {
    match c.index % 4 {
        0 => kern_k::<T, LinearKernel>(c, sc, "LinearKernel", Kernels::linear(), json!({})),
        1 => {
            let g = c.rng.logu(0.01, 2.0);
            kern_k::<T, RBFKernel<T>>(c, sc, "RBFKernel", Kernels::rbf(t::<T>(g)), json!({ "gamma": g }))
        }
        2 => {
            let deg = c.rng.us(1, 4) as f64;
            let g = c.rng.logu(0.01, 1.0);
            let c0 = c.rng.uni(-1.0, 1.0);
            kern_k::<T, PolynomialKernel<T>>(c, sc, "PolynomialKernel", Kernels::polynomial(t::<T>(deg), t::<T>(g), t::<T>(c0)), json!({"degree": deg, "gamma": g, "coef0": c0}))
        }
        _ => {
            let g = c.rng.logu(0.01, 1.0);
            let c0 = c.rng.uni(-1.0, 1.0);
            kern_k::<T, SigmoidKernel<T>>(c, sc, "SigmoidKernel", Kernels::sigmoid(t::<T>(g), t::<T>(c0)), json!({"gamma": g, "coef0": c0}))
        }
    }
}

// ------------------------------------------------------------------------------------------------
// parameter structs, metric structs (serialisable configuration objects; no outputs, no PartialEq) and the error value
// ------------------------------------------------------------------------------------------------
fn params_one<P: Serialize + DeserializeOwned>(c: &mut Case, width: &'static str, ty: &'static str, p: P) {
    let outs = |_: &P| Ok(Vec::new());
    let cx = Ctx { ty, width, outs: &outs, eq: None, smooth: false, variant: "" };
    c.bucket(&format!("type:{}", ty));
    roundtrip(c, &cx, &p, &[]);
}

/// the crate's serialisable error value (has PartialEq)
fn failed_one(c: &mut Case, width: &'static str, v: Failed, other: Failed) {
    let outs = |m: &Failed| Ok(m.to_string().bytes().map(|b| b as f64).collect());
    let eq = |a: &Failed, b: &Failed| a == b;
    let cx = Ctx { ty: "Failed", width, outs: &outs, eq: Some(&eq), smooth: false, variant: "" };
    c.bucket("type:Failed");
    let o0 = match run_outs(c, &cx, &v) {
        Ok(o) => o,
        Err(_) => return,
    };
    roundtrip(c, &cx, &v, &o0);
    #[allow(clippy::eq_op)]
    c.check("eq.reflexive", v == v, "eq/Failed", || "v == v is false".to_string());
    c.check("eq.different", v != other && other != v, "eq/Failed", || format!("'{}' == '{}'", v, other));
}

fn params_t<T: Num>(c: &mut Case, _sc: &Scen) {
    let w = width::<T>();
    let a = c.rng.logu(1e-3, 10.0);
    let b = c.rng.uni(0.05, 0.95);
    let k = c.rng.us(1, 9);
    let md = if c.rng.bool(0.5) { Some(c.rng.us(1, 9) as u16) } else { None };
    let mt = if c.rng.bool(0.5) { Some(c.rng.us(1, 5)) } else { None };
    let flag = c.rng.bool(0.5);
    let pri = if flag { Some(vec![b, 1.0 - b]) } else { None };
    c.describe(json!({"type": "parameter structs", "width": w, "a": a, "b": b, "k": k, "max_depth": md, "m": mt, "flag": flag}));
    c.nontrivial();
    let (at, bt) = (t::<T>(a), t::<T>(b));
    params_one(c, w, "LinearRegressionParameters", LinearRegressionParameters::default().with_solver(if flag { LinearRegressionSolverName::SVD } else { LinearRegressionSolverName::QR }));
    params_one(c, w, "RidgeRegressionParameters", RidgeRegressionParameters::<T>::default().with_alpha(at).with_normalize(flag));
    params_one(c, w, "LassoParameters", LassoParameters::<T>::default().with_alpha(at).with_tol(bt).with_max_iter(k));
    params_one(c, w, "ElasticNetParameters", ElasticNetParameters::<T>::default().with_alpha(at).with_l1_ratio(bt).with_max_iter(k));
    params_one(c, w, "LogisticRegressionParameters", LogisticRegressionParameters::<T>::default().with_alpha(at));
    let wf = if flag { KNNWeightFunction::Distance } else { KNNWeightFunction::Uniform };
    let al = if flag { KNNAlgorithmName::LinearSearch } else { KNNAlgorithmName::CoverTree };
    params_one(c, w, "KNNClassifierParameters", KNNClassifierParameters::<T, Euclidian>::default().with_k(k).with_weight(wf.clone()).with_algorithm(al.clone()).with_distance(Minkowski { p: k as u16 }));
    params_one(c, w, "KNNRegressorParameters", KNNRegressorParameters::<T, Euclidian>::default().with_k(k).with_weight(wf).with_algorithm(al));
    params_one(c, w, "DecisionTreeClassifierParameters", DecisionTreeClassifierParameters { criterion: criterion(k).0, max_depth: md, min_samples_leaf: k, min_samples_split: k + 1 });
    params_one(c, w, "DecisionTreeRegressorParameters", DecisionTreeRegressorParameters { max_depth: md, min_samples_leaf: k, min_samples_split: k + 1 });
    params_one(
        c,
        w,
        "RandomForestClassifierParameters",
        RandomForestClassifierParameters { criterion: criterion(k + 1).0, max_depth: md, min_samples_leaf: k, min_samples_split: k + 1, n_trees: k as u16, m: mt, keep_samples: flag, seed: k as u64 * 77 },
    );
    params_one(c, w, "RandomForestRegressorParameters", RandomForestRegressorParameters { max_depth: md, min_samples_leaf: k, min_samples_split: k + 1, n_trees: k, m: mt, keep_samples: flag, seed: k as u64 * 77 });
    params_one(c, w, "GaussianNBParameters", GaussianNBParameters::<T> { priors: pri.as_ref().map(|p| tv::<T>(p)) });
    params_one(c, w, "BernoulliNBParameters", BernoulliNBParameters::<T> { alpha: at, priors: pri.as_ref().map(|p| tv::<T>(p)), binarize: if flag { None } else { Some(bt) } });
    params_one(c, w, "MultinomialNBParameters", MultinomialNBParameters::<T> { alpha: at, priors: pri.as_ref().map(|p| tv::<T>(p)) });
    params_one(c, w, "CategoricalNBParameters", CategoricalNBParameters::<T> { alpha: at });
    params_one(c, w, "SVCParameters", SVCParameters::<T, DM<T>, LinearKernel>::default().with_c(at).with_tol(bt).with_epoch(k).with_kernel(Kernels::rbf(bt)));
    params_one(c, w, "Accuracy", Accuracy {});
    params_one(c, w, "AUC", AUC {});
    params_one(c, w, "HCVScore", HCVScore {});
    params_one(c, w, "F1", F1::<T> { beta: bt });
    params_one(c, w, "MeanAbsoluteError", MeanAbsoluteError {});
    params_one(c, w, "MeanSquareError", MeanSquareError {});
    params_one(c, w, "Precision", Precision {});
    params_one(c, w, "R2", R2 {});
    params_one(c, w, "Recall", Recall {});
    let msg = format!("k=[{}], alpha=[{}] \"quoted\" \u{e9}\n", k, a);
    let (v, o) = match k % 3 {
        0 => (Failed::fit(&msg), Failed::predict(&msg)),
        1 => (Failed::transform(&msg), Failed::transform("other message")),
        _ => (Failed::because(FailedError::SolutionFailed, &msg), Failed::because(FailedError::DecompositionFailed, &msg)),
    };
    failed_one(c, w, v, o);
    params_one(c, w, "SVRParameters", SVRParameters::<T, DM<T>, LinearKernel>::default().with_c(at).with_eps(bt).with_kernel(Kernels::polynomial(t::<T>(2.0), bt, at)));
}

// ------------------------------------------------------------------------------------------------
// DenseMatrix round trips (plain function, reusable by a sanitizer shard)
// ------------------------------------------------------------------------------------------------
const DENSE_ORACLES: [&str; 16] = [
    "dense.eq-reflexive",
    "dense.bincode.serialize-ok",
    "dense.bincode.deserialize-ok",
    "dense.bincode.restored-bit-identical",
    "dense.bincode.eq-restored",
    "dense.bincode.reserialize-identical",
    "dense.bincode.handbuilt-bytes",
    "dense.json.serialize-ok",
    "dense.json.no-null-number",
    "dense.json.deserialize-ok",
    "dense.json.restored",
    "dense.json-value.restored-bit-identical",
    "dense.json.map-form-permuted-fields",
    "dense.json.seq-form",
    "dense.eq-different-shape",
    "dense.eq-different-values",
];

/// `Err("<oracle id>: <detail>")` for the first clause that fails
fn dense_rt<T: Num>(rows: usize, cols: usize, vals: &[f64]) -> Result<(), String> {
    let w = width::<T>();
    if vals.len() != rows * cols {
        return Err(format!("harness: {} values for a {}x{} matrix", vals.len(), rows, cols));
    }
    let v: Vec<T> = match vals.iter().map(|x| T::from_f64(*x).filter(|y| y.is_finite())).collect::<Option<Vec<T>>>() {
        Some(v) => v,
        None => return Ok(()), // not representable as finite values of this width: outside the quantifier
    };
    let m = DM::<T>::from_array(rows, cols, &v);
    let bits = |x: T| f(x).to_bits();
    // restored object has the same shape and the same entry at every (i, j), bit for bit / within tol
    let same = |r: &DM<T>, tol: f64| -> Result<(), String> {
        if r.shape() != (rows, cols) {
            return Err(format!("shape {:?}, expected ({}, {})", r.shape(), rows, cols));
        }
        for i in 0..rows {
            for j in 0..cols {
                let (a, b) = (v[i * cols + j], r.get(i, j));
                let ok = if tol == 0.0 { bits(a) == bits(b) } else { bits(a) == bits(b) || (f(a) - f(b)).abs() <= tol * f(a).abs() };
                if !ok {
                    return Err(format!("entry ({}, {}) of the {}x{} {} matrix: original {:e}, restored {:e}", i, j, rows, cols, w, f(a), f(b)));
                }
            }
        }
        Ok(())
    };
    let tag = |o: &str, r: Result<(), String>| r.map_err(|e| format!("{}: {}", o, e));
    let ck = |o: &str, ok: bool, d: &str| if ok { Ok(()) } else { Err(format!("{}: {} ({}x{} {})", o, d, rows, cols, w)) };
    same(&m, 0.0).map_err(|e| format!("harness: from_array does not reproduce its input: {}", e))?;
    #[allow(clippy::eq_op)]
    ck("dense.eq-reflexive", m == m, "m == m is false")?;

    // ---- bincode
    let bytes = bincode::serialize(&m).map_err(|e| format!("dense.bincode.serialize-ok: {}", e))?;
    let r: DM<T> = bincode::deserialize(&bytes).map_err(|e| format!("dense.bincode.deserialize-ok: {}", e))?;
    tag("dense.bincode.restored-bit-identical", same(&r, 0.0))?;
    ck("dense.bincode.eq-restored", r == m && m == r, "restored != original")?;
    let b2 = bincode::serialize(&r).map_err(|e| format!("dense.bincode.reserialize-identical: {}", e))?;
    ck("dense.bincode.reserialize-identical", b2 == bytes, "re-serialised bytes differ")?;
    // bytes written by hand in the order the sequence form of the deserialiser reads them:
    // nrows, ncols, values (length-prefixed, column-major), fixed-width little endian
    let mut hb: Vec<u8> = Vec::new();
    hb.extend_from_slice(&(rows as u64).to_le_bytes());
    hb.extend_from_slice(&(cols as u64).to_le_bytes());
    hb.extend_from_slice(&((rows * cols) as u64).to_le_bytes());
    for j in 0..cols {
        for i in 0..rows {
            hb.extend(bincode::serialize(&v[i * cols + j]).map_err(|e| format!("harness: {}", e))?);
        }
    }
    let rh: DM<T> = bincode::deserialize(&hb).map_err(|e| format!("dense.bincode.handbuilt-bytes: {}", e))?;
    tag("dense.bincode.handbuilt-bytes", same(&rh, 0.0))?;

    // ---- JSON text; `exact` = every entry survives its own decimal round trip
    let mut txt: Vec<String> = Vec::with_capacity(v.len());
    let mut exact = true;
    for x in &v {
        let s = serde_json::to_string(x).map_err(|e| format!("harness: {}", e))?;
        match serde_json::from_str::<T>(&s) {
            Ok(y) if bits(y) == bits(*x) => {}
            _ => exact = false,
        }
        txt.push(s);
    }
    let tol = if exact { 0.0 } else { json_tol(w) };
    let s = serde_json::to_string(&m).map_err(|e| format!("dense.json.serialize-ok: {}", e))?;
    ck("dense.json.no-null-number", !s.contains("null"), "JSON of a finite matrix contains null")?;
    let r2: DM<T> = serde_json::from_str(&s).map_err(|e| format!("dense.json.deserialize-ok: {}; json = {}", e, trunc(&s, 300)))?;
    tag("dense.json.restored", same(&r2, tol))?;
    if exact {
        ck("dense.json.restored", r2 == m && m == r2, "restored != original although every entry survives the decimal round trip")?;
    }
    let val = serde_json::to_value(&m).map_err(|e| format!("dense.json.serialize-ok: to_value: {}", e))?;
    let r3: DM<T> = serde_json::from_value(val).map_err(|e| format!("dense.json-value.restored-bit-identical: {}", e))?;
    tag("dense.json-value.restored-bit-identical", same(&r3, 0.0))?;
    // hand-written documents: object with the three fields in every order, and the sequence form
    let mut cm: Vec<&str> = Vec::with_capacity(v.len());
    for j in 0..cols {
        for i in 0..rows {
            cm.push(&txt[i * cols + j]);
        }
    }
    let fields = [format!("\"nrows\":{}", rows), format!("\"ncols\":{}", cols), format!("\"values\":[{}]", cm.join(","))];
    for perm in [[0usize, 1, 2], [0, 2, 1], [1, 0, 2], [1, 2, 0], [2, 0, 1], [2, 1, 0]].iter() {
        let doc = format!("{{{},{},{}}}", fields[perm[0]], fields[perm[1]], fields[perm[2]]);
        let r: DM<T> = serde_json::from_str(&doc).map_err(|e| format!("dense.json.map-form-permuted-fields: {} for {}", e, trunc(&doc, 200)))?;
        tag("dense.json.map-form-permuted-fields", same(&r, tol).map_err(|e| format!("{} (field order {:?})", e, perm)))?;
    }
    let doc = format!("[{},{},[{}]]", rows, cols, cm.join(","));
    let r: DM<T> = serde_json::from_str(&doc).map_err(|e| format!("dense.json.seq-form: {} for {}", e, trunc(&doc, 200)))?;
    tag("dense.json.seq-form", same(&r, tol))?;

    // ---- inequality: other shape, clearly other values
    if v.is_empty() {
        return Ok(()); // an empty matrix has no entry to perturb; its equality with other empty shapes is left open
    }
    if rows != cols {
        let o = DM::<T>::from_array(cols, rows, &v);
        ck("dense.eq-different-shape", m != o && o != m, "a matrix equals one of the transposed shape")?;
    }
    let mut v2 = v.clone();
    let k = (rows * cols) / 2;
    let d = T::from_f64(1e-3 * f(v2[k]).abs().max(1.0)).unwrap_or_else(T::one);
    v2[k] += d;
    if v2[k].is_finite() && v2[k] != v[k] {
        let o = DM::<T>::from_array(rows, cols, &v2);
        ck("dense.eq-different-values", m != o && o != m, "matrices with a clearly different entry compare equal")?;
    }
    Ok(())
}

/// One DenseMatrix round-trip case (`vals` row-major, `rows*cols` finite values): bincode and JSON
/// (text, value, hand-written map form in all field orders, sequence form), equality clauses; run for
/// f64 and, when every value is finite in single precision, for f32.
pub fn dense_roundtrip_case(rows: usize, cols: usize, vals: &[f64]) -> Result<(), String> {
    dense_rt::<f64>(rows, cols, vals)?;
    dense_rt::<f32>(rows, cols, vals)
}

fn dense_vals(c: &mut Case, n: usize) -> (Vec<f64>, &'static str) {
    let kind = c.rng.below(5);
    let rng = &mut c.rng;
    match kind {
        0 => ((0..n).map(|_| rng.normal()).collect(), "normal"),
        1 => ((0..n).map(|_| rng.int(-9, 9) as f64).collect(), "small-integers"),
        2 => {
            // wide dynamic range inside the normal range of both widths, with signed zeros
            ((0..n).map(|_| if rng.bool(0.15) { if rng.bool(0.5) { 0.0 } else { -0.0 } } else { rng.normal() * 10f64.powi(rng.int(-30, 30) as i32) }).collect(), "wide-range+signed-zeros")
        }
        3 => ((0..n).map(|_| rng.normal() * 10f64.powi(rng.int(-290, 290) as i32)).collect(), "f64-only-range"),
        _ => {
            let special = [1.0 / 3.0, 0.1, 2.0f64.powi(-20), 1e15 + 0.5, f64::EPSILON, 1.0 + f64::EPSILON, 123456.789e3, -1e-7, 16777217.0, 0.30000000000000004];
            ((0..n).map(|_| *rng.pick(&special) * if rng.bool(0.3) { -1.0 } else { 1.0 }).collect(), "awkward-decimals")
        }
    }
}

fn dense_case(c: &mut Case, rows: usize, cols: usize) {
    let (vals, kind) = dense_vals(c, rows * cols);
    c.describe(json!({"type": "DenseMatrix", "rows": rows, "cols": cols, "values": kind, "row_major": vals}));
    c.bucket(&format!("dense:values:{}", kind));
    c.bucket(if rows == cols { "dense:square" } else if rows > cols { "dense:tall" } else { "dense:wide" });
    c.bucket_if(rows * cols == 0, "dense:empty(zero rows or columns)");
    if rows * cols >= 2 || rows * cols == 0 {
        c.nontrivial();
    }
    let sg = format!("DenseMatrix/{}", if rows == cols { "square" } else { "non-square" });
    if let Some(r) = c.must("dense_roundtrip_case", || dense_roundtrip_case(rows, cols, &vals)) {
        match r {
            Ok(()) => {
                for o in DENSE_ORACLES.iter() {
                    c.count(o);
                }
            }
            Err(e) => {
                if e.starts_with("harness:") {
                    c.inconclusive(&trunc(&e, 160));
                } else {
                    let (o, d) = match e.find(": ") {
                        Some(p) => (e[..p].to_string(), e[p + 2..].to_string()),
                        None => ("dense.roundtrip".to_string(), e.clone()),
                    };
                    c.check(&o, false, &sg, || d);
                }
            }
        }
    }
}

/// every shape 0..8 × 0..8 (index enumerates the 81 shapes, empty ones included; the values are drawn per case)
fn dense_shapes(c: &mut Case) {
    let s = (c.index % 81) as usize;
    dense_case(c, s / 9, s % 9);
}

fn dense_random(c: &mut Case) {
    let rows = if c.rng.bool(0.03) { 0 } else { c.rng.us(1, 14) };
    let cols = if c.rng.bool(0.03) { 0 } else { c.rng.us(1, 14) };
    dense_case(c, rows, cols);
}

// ------------------------------------------------------------------------------------------------
macro_rules! fam {
    ($name:ident, $spec:expr, $g:ident) => {
        fn $name(c: &mut Case) {
            let sc = Scen::draw(c, &$spec);
            if sc.f32 {
                $g::<f32>(c, &sc)
            } else {
                $g::<f64>(c, &sc)
            }
        }
    };
}
fam!(linear, REG, linear_t);
fam!(ridge, REG, ridge_t);
fam!(lasso, REG, lasso_t);
fam!(elastic_net, REG, enet_t);
fam!(logistic, CLS, logistic_t);
fam!(knn_classifier, CLS, knn_cls_t);
fam!(knn_regressor, REG, knn_reg_t);
fam!(tree_classifier, CLS, tree_cls_t);
fam!(tree_regressor, REG, tree_reg_t);
fam!(forest_classifier, CLS, forest_cls_t);
fam!(forest_regressor, REG, forest_reg_t);
fam!(knn_classifier_big, CLS_BIG, knn_cls_t);
fam!(knn_regressor_big, REG_BIG, knn_reg_t);
fam!(tree_classifier_big, CLS_BIG, tree_cls_t);
fam!(tree_regressor_big, REG_BIG, tree_reg_t);
fam!(forest_classifier_big, CLS_BIG, forest_cls_t);
fam!(forest_regressor_big, REG_BIG, forest_reg_t);
fam!(nb_gaussian, NB_GAUSS, nb_gauss_t);
fam!(nb_bernoulli, NB_BIN, nb_bern_t);
fam!(nb_multinomial, NB_CNT, nb_multi_t);
fam!(nb_categorical, NB_CAT, nb_cat_t);
fam!(svc, CLS2, svc_t);
fam!(svr, REG, svr_t);
fam!(kmeans, UNSUP, kmeans_t);
fam!(dbscan, UNSUP, dbscan_t);
fam!(pca, PCA_SPEC, pca_t);
fam!(truncated_svd, SVD_SPEC, tsvd_t);
fam!(cover_tree, UNSUP, cover_t);
fam!(linear_search, UNSUP, linear_search_t);
fam!(distances, UNSUP, distances_t);
fam!(kernels, UNSUP, kernels_t);
fam!(params, UNSUP, params_t);

/// DBSCAN models with 260..400 clusters (pairs of points on a line), queried between neighbouring clusters where
/// the votes of the two clusters tie, and at random places: the restored model must answer like the original, and
/// the original like itself on a second call
fn dbscan_many_clusters(c: &mut Case) {
    let k = c.rng.us(260, 400);
    let gap = *c.rng.pick(&[1.5, 1.625, 1.75]);
    let mut rows: Vec<Vec<f64>> = Vec::new();
    for i in 0..k {
        rows.push(vec![gap * i as f64 - 0.125]);
        rows.push(vec![gap * i as f64 + 0.125]);
    }
    let perm = c.rng.perm(rows.len());
    let rows: Vec<Vec<f64>> = perm.iter().map(|&i| rows[i].clone()).collect();
    let mut qs: Vec<Vec<f64>> = (0..150).map(|_| vec![gap * c.rng.below(k - 1) as f64 + gap / 2.0]).collect();
    qs.extend((0..50).map(|_| vec![c.rng.uni(-1.0, gap * k as f64)]));
    c.describe(json!({"type": "DBSCAN", "clusters": k, "gap": gap, "eps": 1.0, "min_samples": 2, "rows": rows.len(), "queries": qs.len()}));
    c.hash_f64s(&[k as f64, gap]);
    c.hash_f64s(&qs.iter().map(|q| q[0]).collect::<Vec<f64>>());
    c.nontrivial();
    let x = DenseMatrix::from_2d_vec(&rows);
    let q = DenseMatrix::from_2d_vec(&qs);
    let algo = if c.rng.bool(0.5) { KNNAlgorithmName::LinearSearch } else { KNNAlgorithmName::CoverTree };
    let model = match c.must("DBSCAN::fit", || DBSCAN::fit(&x, DBSCANParameters::default().with_eps(1.0).with_min_samples(2).with_algorithm(algo))) {
        Some(Ok(m)) => m,
        Some(Err(e)) => {
            c.check("fit.ok", false, "DBSCAN/many-clusters", || format!("fit returned Err({})", e));
            return;
        }
        None => return,
    };
    let sg = "DBSCAN/many-clusters";
    let p0 = match c.must("DBSCAN::predict", || model.predict(&q)) {
        Some(Ok(v)) => v,
        _ => return,
    };
    let distinct = { let mut d: Vec<i64> = p0.iter().map(|v| *v as i64).collect(); d.sort(); d.dedup(); d.len() };
    c.bucket(if distinct > 100 { "predicted-labels:>100-distinct" } else { "predicted-labels:<=100-distinct" });
    if let Some(Ok(p1)) = c.must("DBSCAN::predict(again)", || model.predict(&q)) {
        c.check("predict.repeatable", p1 == p0, sg, || format!("two predict calls on one model differ on {} of {} rows", p1.iter().zip(p0.iter()).filter(|(a, b)| a != b).count(), p0.len()));
    }
    for json in [false, true] {
        let fmt = if json { "json" } else { "bincode" };
        match scverif::restored(&model, json) {
            Ok(m2) => {
                if let Some(Ok(p2)) = c.must("DBSCAN::predict(restored)", || m2.predict(&q)) {
                    c.check(&format!("{}.outputs", fmt), p2 == p0, sg, || format!("restored model predicts differently on {} of {} rows", p2.iter().zip(p0.iter()).filter(|(a, b)| a != b).count(), p0.len()));
                }
                c.check(&format!("{}.equal", fmt), m2 == model, sg, || "restored model != original".to_string());
            }
            Err(e) => {
                c.check(&format!("{}.roundtrip-ok", fmt), false, sg, || e.clone());
            }
        }
    }
}

fn main() {
    runner::main(Spec {
        property: "C19",
        rule: "one family per serialisable public type; a case draws width (f32/f64), a data set A (4..24 rows, 1..5 columns; continuous columns either generic reals or a dyadic grid k/8, binary / count / categorical columns for the discrete naive Bayes variants), targets, hyper-parameters, a second data set B with other rows and other targets (independent draw, or A translated by non-zero integers with shifted / rotated targets) and 7..11 probe queries (fresh points, neighbours of A rows, neighbours of B rows, one training row); the object fitted on A is round-tripped through bincode, JSON text and serde_json::Value; a case is non-trivial when the fit succeeded and the outputs of the original on the probes are not all the same value (DenseMatrix: at least 2 entries; parameter structs: always); distinct = distinct hash of the case description (type, width, hyper-parameters, A, B, Q); *_big families (k-NN, trees, forests): 260..420 rows, half of them lattice-valued (columns full of ties); DenseMatrix shapes 0..8 x 0..8 incl. empty ones; k-means with max_iter in {1,2,3,100} and k = n in 12 % of the fits; Lasso / elastic net with max_iter in {1,3,300}; dbscan_many_clusters: 260..400 two-point clusters on a line, 200 queries (150 of them midway between neighbouring clusters, votes tied): predict twice, restore from bincode and JSON, predict again",
        assumptions: vec![
            "JSON: when re-serialising the restored object reproduces the JSON text exactly, every float survived the decimal round trip and outputs must be bit-identical and restored == original; otherwise (serde_json's default float parser may be 1 ulp off) outputs must agree to 1e-12 (f64) / 1e-6 (f32) relative to 1 + max|output| and no equality verdict is taken",
            "serde_json::Value round trip carries floats in binary: outputs must be bit-identical",
            "inequality clause is behavioural: B has other rows and other targets by construction, and a verdict m != other is demanded only when some output on the probes differs by more than 1e-3·(1+|output|)",
            "fit failures / panics of the freshly fitted model on the generated data are counted as skipped (other properties own them)",
            "SVC and KMeans are randomised: no refit clause; LinearKNNSearch, distances, kernels and parameter structs have no PartialEq: no equality clauses",
            "a JSON null is accepted only under keys that are Option or PhantomData fields of the crate's structs",
        ],
        families: vec![
            Family::new("dense_shapes", 640, 32000, dense_shapes).exhaustive(true, true),
            Family::new("dense_random", 600, 30000, dense_random),
            Family::new("linear", 480, 24000, linear),
            Family::new("ridge", 480, 24000, ridge),
            Family::new("lasso", 480, 24000, lasso),
            Family::new("elastic_net", 480, 24000, elastic_net),
            Family::new("logistic", 480, 24000, logistic),
            Family::new("knn_classifier", 640, 32000, knn_classifier),
            Family::new("knn_regressor", 640, 32000, knn_regressor),
            Family::new("tree_classifier", 600, 30000, tree_classifier),
            Family::new("tree_regressor", 600, 30000, tree_regressor),
            Family::new("forest_classifier", 600, 30000, forest_classifier),
            Family::new("forest_regressor", 600, 30000, forest_regressor),
            Family::new("knn_classifier_big", 30, 1200, knn_classifier_big),
            Family::new("knn_regressor_big", 30, 1200, knn_regressor_big),
            Family::new("tree_classifier_big", 40, 1600, tree_classifier_big),
            Family::new("tree_regressor_big", 40, 1600, tree_regressor_big),
            Family::new("forest_classifier_big", 30, 1200, forest_classifier_big),
            Family::new("forest_regressor_big", 30, 1200, forest_regressor_big),
            Family::new("nb_gaussian", 480, 24000, nb_gaussian),
            Family::new("nb_bernoulli", 600, 30000, nb_bernoulli),
            Family::new("nb_multinomial", 600, 30000, nb_multinomial),
            Family::new("nb_categorical", 600, 30000, nb_categorical),
            Family::new("svc", 960, 48000, svc),
            Family::new("svr", 960, 48000, svr),
            Family::new("kmeans", 480, 24000, kmeans),
            Family::new("dbscan", 800, 40000, dbscan),
            Family::new("dbscan_many_clusters", 24, 480, dbscan_many_clusters),
            Family::new("pca", 800, 40000, pca),
            Family::new("truncated_svd", 480, 24000, truncated_svd),
            Family::new("cover_tree", 640, 32000, cover_tree),
            Family::new("cover_deep", 60, 1500, cover_deep),
            Family::new("linear_search", 800, 40000, linear_search),
            Family::new("distances", 720, 36000, distances),
            Family::new("kernels", 480, 24000, kernels),
            Family::new("params", 240, 12000, params),
        ],
        min_nontrivial: 2500,
        case_timeout_s: 120,
    });
}
