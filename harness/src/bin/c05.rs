//! C05 — a fitted decision tree is a consistent, greedy-optimal partition within its limits.
//!
//! The tree is observed through `serde_json::to_value(&tree)` (`nodes[]` with `split_feature`,
//! `split_value`, `true_child`, `false_child`, `output`; `classes`) and through `predict`. The harness
//! walks the node array itself, routes every training row, and recomputes per node the best admissible
//! single-feature split from the rows at that node (reference in f64, gains in the cancellation-free
//! form a·b/n·(mean_l − mean_r)² for the regressor, impurity differences from class counts for the
//! classifier).
//!
//! Clauses checked unconditionally (both models): structure / routing, predict == walk, leaf output is
//! the mean / a majority class of exactly the rows routed to the leaf, leaf sizes, depth limit,
//! determinism, invariance under multiplication of the features by 2^j. Regressor additionally, always:
//! greedy optimality of every chosen threshold and (without depth limit) completeness. Classifier greedy
//! optimality / completeness / exact reproduction only in the domain the statement names
//! (min_samples_leaf = 1 and pairwise distinct values within every feature).
//!
//! Things the statement leaves open and the monitor therefore accepts: which of several equal-gain
//! splits, which of several majority classes, where between two consecutive distinct values the
//! threshold lies, on which side a row goes whose feature value EQUALS the threshold (pinned only
//! when a training row sits on a threshold: then the convention `predict` uses on the training rows
//! is taken), whether a node holding exactly min_samples_split rows is split, anything about the
//! `depth` field, leftover split fields of leaves.
use scverif::*;
use smartcore::linalg::naive::dense_matrix::DenseMatrix;
use smartcore::tree::decision_tree_classifier::{DecisionTreeClassifier, DecisionTreeClassifierParameters, SplitCriterion};
use smartcore::tree::decision_tree_regressor::{DecisionTreeRegressor, DecisionTreeRegressorParameters};

// ------------------------------------------------------------------------------------------------
// model access

#[derive(Clone, Copy, Debug, PartialEq)]
enum Kind {
    Reg,
    Gini,
    Entropy,
    ClsError,
}

impl Kind {
    fn is_cls(self) -> bool {
        self != Kind::Reg
    }
    fn name(self) -> &'static str {
        match self {
            Kind::Reg => "reg",
            Kind::Gini => "cls-gini",
            Kind::Entropy => "cls-entropy",
            Kind::ClsError => "cls-error",
        }
    }
    fn code(self) -> f64 {
        match self {
            Kind::Reg => 0.0,
            Kind::Gini => 1.0,
            Kind::Entropy => 2.0,
            Kind::ClsError => 3.0,
        }
    }
}

#[derive(Clone, Debug)]
struct Params {
    max_depth: Option<u16>,
    msl: usize,
    mss: usize,
}

trait Model {
    fn m_json(&self) -> Result<Value, String>;
    fn m_predict(&self, x: &DenseMatrix<f64>) -> Result<Vec<f64>, String>;
    fn m_sequences(&self, c: &mut Case, name: &str, sg: &str, x: &DenseMatrix<f64>, pred: &[f64]);
}

impl Model for DecisionTreeRegressor<f64> {
    fn m_json(&self) -> Result<Value, String> {
        serde_json::to_value(self).map_err(|e| e.to_string())
    }
    fn m_predict(&self, x: &DenseMatrix<f64>) -> Result<Vec<f64>, String> {
        DecisionTreeRegressor::predict(self, x).map_err(|e| e.to_string())
    }
    fn m_sequences(&self, c: &mut Case, name: &str, sg: &str, x: &DenseMatrix<f64>, pred: &[f64]) {
        sequence_checks(c, name, sg, self, x, pred, |m, q| m.predict(q));
    }
}

impl Model for DecisionTreeClassifier<f64> {
    fn m_json(&self) -> Result<Value, String> {
        serde_json::to_value(self).map_err(|e| e.to_string())
    }
    fn m_predict(&self, x: &DenseMatrix<f64>) -> Result<Vec<f64>, String> {
        DecisionTreeClassifier::predict(self, x).map_err(|e| e.to_string())
    }
    fn m_sequences(&self, c: &mut Case, name: &str, sg: &str, x: &DenseMatrix<f64>, pred: &[f64]) {
        sequence_checks(c, name, sg, self, x, pred, |m, q| m.predict(q));
    }
}

fn fit_model(kind: Kind, x: &DenseMatrix<f64>, y: &Vec<f64>, prm: &Params) -> Result<Box<dyn Model>, String> {
    match kind {
        Kind::Reg => DecisionTreeRegressor::fit(
            x,
            y,
            DecisionTreeRegressorParameters { max_depth: prm.max_depth, min_samples_leaf: prm.msl, min_samples_split: prm.mss },
        )
        .map(|m| Box::new(m) as Box<dyn Model>)
        .map_err(|e| e.to_string()),
        k => DecisionTreeClassifier::fit(
            x,
            y,
            DecisionTreeClassifierParameters {
                criterion: match k {
                    Kind::Gini => SplitCriterion::Gini,
                    Kind::Entropy => SplitCriterion::Entropy,
                    _ => SplitCriterion::ClassificationError,
                },
                max_depth: prm.max_depth,
                min_samples_leaf: prm.msl,
                min_samples_split: prm.mss,
            },
        )
        .map(|m| Box::new(m) as Box<dyn Model>)
        .map_err(|e| e.to_string()),
    }
}

// ------------------------------------------------------------------------------------------------
// the tree as read from its serialisation

#[derive(Clone, Debug, PartialEq)]
struct PNode {
    feat: usize,
    thr: Option<f64>,
    t: Option<usize>,
    f: Option<usize>,
    /// regressor: the mean; classifier: class index
    out: f64,
}

impl PNode {
    fn internal(&self) -> bool {
        self.t.is_some() || self.f.is_some()
    }
}

#[derive(Clone, Debug)]
struct PTree {
    nodes: Vec<PNode>,
    classes: Vec<f64>,
}

fn opt_num(v: &Value) -> Option<Option<f64>> {
    match v {
        Value::Null => Some(None),
        x => x.as_f64().map(Some),
    }
}

fn opt_idx(v: &Value) -> Option<Option<usize>> {
    match v {
        Value::Null => Some(None),
        x => x.as_u64().map(|u| Some(u as usize)),
    }
}

/// None = the serialisation does not have the documented fields (harness cannot observe the tree)
fn parse_tree(v: &Value, cls: bool) -> Option<PTree> {
    let arr = v.get("nodes")?.as_array()?;
    let mut nodes = Vec::with_capacity(arr.len());
    for nd in arr {
        let out = match nd.get("output")? {
            Value::Null => f64::NAN, // serde_json writes a non-finite float as null
            x => x.as_f64()?,
        };
        nodes.push(PNode {
            feat: nd.get("split_feature")?.as_u64()? as usize,
            thr: opt_num(nd.get("split_value")?)?,
            t: opt_idx(nd.get("true_child")?)?,
            f: opt_idx(nd.get("false_child")?)?,
            out,
        });
    }
    let classes = if cls {
        let a = v.get("classes")?.as_array()?;
        let mut cl = Vec::new();
        for x in a {
            cl.push(match x {
                Value::Null => f64::NAN,
                y => y.as_f64()?,
            });
        }
        cl
    } else {
        Vec::new()
    };
    Some(PTree { nodes, classes })
}

/// Structural well-formedness needed for a walk to be defined. Err(reason) otherwise.
fn structure(tree: &PTree, p: usize, cls: bool) -> Result<(), String> {
    let nn = tree.nodes.len();
    if nn == 0 {
        return Err("empty node array".into());
    }
    let mut seen = vec![false; nn];
    let mut stack = vec![0usize];
    while let Some(i) = stack.pop() {
        if seen[i] {
            return Err(format!("node {} is reachable along two paths (not a tree)", i));
        }
        seen[i] = true;
        let nd = &tree.nodes[i];
        if nd.t.is_some() != nd.f.is_some() {
            return Err(format!("node {} has exactly one child", i));
        }
        if let (Some(a), Some(b)) = (nd.t, nd.f) {
            if a >= nn || b >= nn {
                return Err(format!("node {} has a child index out of range ({}, {}; {} nodes)", i, a, b, nn));
            }
            if a == b {
                return Err(format!("node {} has the same node as both children", i));
            }
            match nd.thr {
                Some(t) if t.is_finite() => {}
                other => return Err(format!("internal node {} has no finite threshold ({:?})", i, other)),
            }
            if nd.feat >= p {
                return Err(format!("internal node {} splits on feature {} of {}", i, nd.feat, p));
            }
            stack.push(a);
            stack.push(b);
        } else if cls {
            let o = nd.out;
            if !(o >= 0.0 && o.fract() == 0.0 && (o as usize) < tree.classes.len()) {
                return Err(format!("leaf {} has class index {} but there are {} classes", i, o, tree.classes.len()));
            }
        }
    }
    Ok(())
}

fn goes_true(v: f64, thr: f64, strict: bool) -> bool {
    if strict {
        v < thr
    } else {
        v <= thr
    }
}

/// leaf reached by `row` under the given equality convention
fn walk(tree: &PTree, row: &[f64], strict: bool) -> usize {
    let mut i = 0usize;
    loop {
        let nd = &tree.nodes[i];
        match (nd.t, nd.f) {
            (Some(a), Some(b)) => {
                i = if goes_true(row[nd.feat], nd.thr.unwrap_or(f64::NAN), strict) { a } else { b };
            }
            _ => return i,
        }
    }
}

/// all leaves `row` can reach when a value EQUAL to a threshold may go to either side
fn walk_any(tree: &PTree, row: &[f64]) -> (Vec<usize>, bool) {
    let mut leaves = Vec::new();
    let mut on_thr = false;
    let mut stack = vec![0usize];
    while let Some(i) = stack.pop() {
        let nd = &tree.nodes[i];
        match (nd.t, nd.f) {
            (Some(a), Some(b)) => {
                let thr = nd.thr.unwrap_or(f64::NAN);
                let v = row[nd.feat];
                if v == thr {
                    on_thr = true;
                    stack.push(a);
                    stack.push(b);
                } else if v < thr {
                    stack.push(a);
                } else {
                    stack.push(b);
                }
            }
            _ => leaves.push(i),
        }
    }
    (leaves, on_thr)
}

fn leaf_value(tree: &PTree, leaf: usize, cls: bool) -> f64 {
    let o = tree.nodes[leaf].out;
    if cls {
        tree.classes[o as usize]
    } else {
        o
    }
}

fn same(a: f64, b: f64) -> bool {
    a == b || (a.is_nan() && b.is_nan())
}

// ------------------------------------------------------------------------------------------------
// reference split search

fn mean_of(y: &[f64], rows: &[usize]) -> f64 {
    refla::csum(rows.iter().map(|&i| y[i])) / rows.len() as f64
}

/// SSE reduction of the partition (l, r) of a node: |l||r|/n · (mean_l − mean_r)²
fn gain_reg(y: &[f64], l: &[usize], r: &[usize]) -> f64 {
    let (a, b) = (l.len() as f64, r.len() as f64);
    let all: Vec<usize> = l.iter().chain(r.iter()).cloned().collect();
    let m = mean_of(y, &all);
    let ml = refla::csum(l.iter().map(|&i| y[i] - m)) / a;
    let mr = refla::csum(r.iter().map(|&i| y[i] - m)) / b;
    a * b / (a + b) * (ml - mr) * (ml - mr)
}

struct Best {
    gain: f64,
    feat: usize,
    lo: f64,
    hi: f64,
    left: usize,
    candidates: usize,
}

/// best SSE reduction over all admissible single-feature thresholds of the rows of a node
/// (a threshold between two consecutive distinct values with >= msl rows on both sides)
fn best_reg(x: &Mat, y: &[f64], rows: &[usize], msl: usize) -> Option<Best> {
    let n = rows.len();
    if n < 2 {
        return None;
    }
    let m = mean_of(y, rows);
    let mut best: Option<Best> = None;
    let mut cand = 0usize;
    for j in 0..x.c {
        let mut ord: Vec<usize> = rows.to_vec();
        ord.sort_by(|&a, &b| x.at(a, j).partial_cmp(&x.at(b, j)).unwrap());
        let yc: Vec<f64> = ord.iter().map(|&i| y[i] - m).collect();
        let tot = refla::csum(yc.iter().cloned());
        let mut pre = 0.0f64;
        let mut comp = 0.0f64; // Neumaier running sum
        for k in 0..n - 1 {
            let v = yc[k];
            let t = pre + v;
            if pre.abs() >= v.abs() {
                comp += (pre - t) + v;
            } else {
                comp += (v - t) + pre;
            }
            pre = t;
            let (lo, hi) = (x.at(ord[k], j), x.at(ord[k + 1], j));
            if lo == hi {
                continue;
            }
            let a = k + 1;
            let b = n - a;
            if a < msl || b < msl {
                continue;
            }
            cand += 1;
            let s = pre + comp;
            let ml = s / a as f64;
            let mr = (tot - s) / b as f64;
            let g = (a as f64) * (b as f64) / (n as f64) * (ml - mr) * (ml - mr);
            if best.as_ref().map(|bb| g > bb.gain).unwrap_or(true) {
                best = Some(Best { gain: g, feat: j, lo, hi, left: a, candidates: 0 });
            }
        }
    }
    best.map(|mut b| {
        b.candidates = cand;
        b
    })
}

fn impurity(kind: Kind, counts: &[usize], n: usize) -> f64 {
    let nf = n as f64;
    match kind {
        Kind::Gini => 1.0 - counts.iter().filter(|&&c| c > 0).map(|&c| (c as f64 / nf) * (c as f64 / nf)).sum::<f64>(),
        Kind::Entropy => -counts.iter().filter(|&&c| c > 0).map(|&c| (c as f64 / nf) * (c as f64 / nf).log2()).sum::<f64>(),
        _ => 1.0 - counts.iter().map(|&c| c as f64 / nf).fold(0.0f64, f64::max),
    }
}

fn counts_of(yi: &[usize], k: usize, rows: &[usize]) -> Vec<usize> {
    let mut c = vec![0usize; k];
    for &i in rows {
        c[yi[i]] += 1;
    }
    c
}

fn gain_cls(kind: Kind, yi: &[usize], k: usize, l: &[usize], r: &[usize]) -> f64 {
    let n = l.len() + r.len();
    let (cl, cr) = (counts_of(yi, k, l), counts_of(yi, k, r));
    let call: Vec<usize> = (0..k).map(|q| cl[q] + cr[q]).collect();
    impurity(kind, &call, n) - l.len() as f64 / n as f64 * impurity(kind, &cl, l.len()) - r.len() as f64 / n as f64 * impurity(kind, &cr, r.len())
}

/// best impurity decrease over ALL admissible thresholds (not only class boundaries)
fn best_cls(kind: Kind, x: &Mat, yi: &[usize], k: usize, rows: &[usize], msl: usize) -> Option<Best> {
    let n = rows.len();
    if n < 2 {
        return None;
    }
    let call = counts_of(yi, k, rows);
    let pimp = impurity(kind, &call, n);
    let mut best: Option<Best> = None;
    let mut cand = 0usize;
    for j in 0..x.c {
        let mut ord: Vec<usize> = rows.to_vec();
        ord.sort_by(|&a, &b| x.at(a, j).partial_cmp(&x.at(b, j)).unwrap());
        let mut cl = vec![0usize; k];
        for q in 0..n - 1 {
            cl[yi[ord[q]]] += 1;
            let (lo, hi) = (x.at(ord[q], j), x.at(ord[q + 1], j));
            if lo == hi {
                continue;
            }
            let a = q + 1;
            let b = n - a;
            if a < msl || b < msl {
                continue;
            }
            cand += 1;
            let cr: Vec<usize> = (0..k).map(|z| call[z] - cl[z]).collect();
            let g = pimp - a as f64 / n as f64 * impurity(kind, &cl, a) - b as f64 / n as f64 * impurity(kind, &cr, b);
            if best.as_ref().map(|bb| g > bb.gain).unwrap_or(true) {
                best = Some(Best { gain: g, feat: j, lo, hi, left: a, candidates: 0 });
            }
        }
    }
    best.map(|mut b| {
        b.candidates = cand;
        b
    })
}

// ------------------------------------------------------------------------------------------------
// the monitor proper

fn cols_distinct(x: &Mat) -> bool {
    for j in 0..x.c {
        let mut col = x.col(j);
        col.sort_by(|a, b| a.partial_cmp(b).unwrap());
        if col.windows(2).any(|w| w[0] == w[1]) {
            return false;
        }
    }
    true
}

fn next_up(x: f64) -> f64 {
    if x == 0.0 {
        f64::from_bits(1)
    } else if x > 0.0 {
        f64::from_bits(x.to_bits() + 1)
    } else {
        f64::from_bits(x.to_bits() - 1)
    }
}

fn next_down(x: f64) -> f64 {
    -next_up(-x)
}

fn fresh_rows(c: &mut Case, x: &Mat, tree: &PTree) -> Mat {
    let (n, p) = (x.r, x.c);
    let m = c.rng.us(4, 14);
    let internals: Vec<usize> = (0..tree.nodes.len()).filter(|&i| tree.nodes[i].t.is_some() && tree.nodes[i].f.is_some()).collect();
    let mut out = Mat::zeros(m, p);
    for i in 0..m {
        let base = c.rng.below(n);
        for j in 0..p {
            let v = match c.rng.below(4) {
                0 => x.at(base, j),
                1 => x.at(c.rng.below(n), j),
                2 => x.at(c.rng.below(n), j) + c.rng.normal() * 0.3,
                _ => 0.5 * (x.at(c.rng.below(n), j) + x.at(c.rng.below(n), j)),
            };
            out.set(i, j, v);
        }
        if !internals.is_empty() && c.rng.bool(0.6) {
            let nd = &tree.nodes[*c.rng.pick(&internals)];
            if let Some(t) = nd.thr {
                if nd.feat < p {
                    let v = match c.rng.below(3) {
                        0 => t,
                        1 => next_up(t),
                        _ => next_down(t),
                    };
                    out.set(i, nd.feat, v);
                }
            }
        }
    }
    out
}

/// Everything the statement says about one fitted tree. `tag` names the data class for signatures.
fn evaluate(c: &mut Case, kind: Kind, x: &Mat, y: &[f64], prm: &Params, tag: &str) {
    let (n, p) = (x.r, x.c);
    let cls = kind.is_cls();
    let distinct = cols_distinct(x);
    let sg = if tag == "adjacent-floats" {
        // one class whatever the model: the cause (midpoint of two adjacent floats) is independent of it
        "adjacent-floats".to_string()
    } else {
        format!(
            "{}/{}/{}/{}",
            kind.name(),
            if distinct { "distinct-values" } else { "repeated-values" },
            if prm.msl == 1 { "msl=1" } else { "msl>1" },
            if prm.max_depth.is_some() { "depth-limit" } else { "no-depth-limit" }
        )
    };
    let pfx = if cls { "cls" } else { "reg" };
    let o = |s: &str| format!("{}.{}", pfx, s);

    // my own class indexing (sorted distinct label values)
    let mut labels: Vec<f64> = y.to_vec();
    labels.sort_by(|a, b| a.partial_cmp(b).unwrap());
    labels.dedup();
    let k = labels.len();
    let yi: Vec<usize> = if cls { y.iter().map(|v| labels.iter().position(|l| l == v).unwrap()).collect() } else { Vec::new() };
    let ymax = y.iter().fold(0.0f64, |m, v| m.max(v.abs()));

    c.bucket(&format!("model:{}", kind.name()));
    c.bucket(&format!("max_depth:{}", prm.max_depth.map(|d| d.to_string()).unwrap_or("none".into())));
    c.bucket(&format!("min_samples_leaf:{}", prm.msl));
    c.bucket(&format!("min_samples_split:{}", prm.mss));
    c.bucket(&format!("features:{}", p));
    c.bucket(if n <= 12 { "rows:2-12" } else if n <= 60 { "rows:13-60" } else { "rows:61-150" });
    c.bucket(if distinct { "data:distinct-values-per-feature" } else { "data:repeated-values" });
    if cls {
        c.bucket(&format!("classes:{}", k));
        c.bucket_if(labels.iter().any(|l| *l < 0.0), "labels:negative");
        c.bucket_if(labels.windows(2).any(|w| w[1] - w[0] != 1.0), "labels:non-contiguous");
    }
    c.bucket_if((0..p).any(|j| (1..n).all(|i| x.at(i, j) == x.at(0, j))), "data:constant-feature");

    let xm: DenseMatrix<f64> = to_dense(x);
    let yv: Vec<f64> = y.to_vec();

    // ---- fit
    let model = match c.must("fit", || fit_model(kind, &xm, &yv, prm)) {
        Some(Ok(m)) => {
            c.check(&o("fit.ok"), true, &sg, String::new);
            m
        }
        Some(Err(e)) => {
            c.check(&o("fit.ok"), false, &sg, || format!("fit returned Err({}) for a valid training set", e));
            return;
        }
        None => return,
    };
    let js = match c.must("serialize", || model.m_json()) {
        Some(Ok(v)) => v,
        Some(Err(e)) => {
            c.inconclusive(&format!("tree could not be serialised: {}", e));
            return;
        }
        None => return,
    };
    let tree = match parse_tree(&js, cls) {
        Some(t) => t,
        None => {
            c.inconclusive("serialised tree does not have the fields nodes[].{split_feature,split_value,true_child,false_child,output} / classes");
            return;
        }
    };

    // ---- structure: single feature, threshold, two children
    let st = structure(&tree, p, cls);
    if !c.check(&o("structure"), st.is_ok(), &sg, || st.clone().err().unwrap_or_default()) {
        return;
    }
    let nn = tree.nodes.len();
    let root_split = tree.nodes[0].internal();
    if root_split {
        c.nontrivial();
    }
    c.bucket(if root_split { "tree:split" } else { "tree:unsplit-root" });

    // ---- predict on the training rows; equality convention
    let rows_x: Vec<Vec<f64>> = (0..n).map(|i| x.row(i)).collect();
    let pred = match c.must("predict(train)", || model.m_predict(&xm)) {
        Some(Ok(v)) => v,
        Some(Err(e)) => {
            c.check(&o("predict.ok"), false, &sg, || format!("predict returned Err({})", e));
            return;
        }
        None => return,
    };
    if !c.check(&o("predict.length"), pred.len() == n, &sg, || format!("{} predictions for {} rows", pred.len(), n)) {
        return;
    }
    model.m_sequences(c, &o("predict"), &sg, &xm, &pred);
    let agrees = |strict: bool| (0..n).all(|i| same(pred[i], leaf_value(&tree, walk(&tree, &rows_x[i], strict), cls)));
    let strict = if agrees(false) {
        false
    } else if agrees(true) {
        c.bucket("routing:strict-less-than");
        true
    } else {
        false
    };
    {
        let bad: Vec<usize> = (0..n).filter(|&i| !same(pred[i], leaf_value(&tree, walk(&tree, &rows_x[i], strict), cls))).collect();
        c.check(&o("predict.train=walk"), bad.is_empty(), &sg, || {
            let i = bad[0];
            format!(
                "{} training rows: predict differs from the output of the leaf reached by comparing one feature with the threshold per node; row {} {:?}: predict {} walk {}",
                bad.len(),
                i,
                rows_x[i],
                pred[i],
                leaf_value(&tree, walk(&tree, &rows_x[i], strict), cls)
            )
        });
    }

    // ---- route the training rows
    let mut rows_at: Vec<Vec<usize>> = vec![Vec::new(); nn];
    let mut depth_of: Vec<usize> = vec![0; nn];
    rows_at[0] = (0..n).collect();
    let mut order: Vec<usize> = Vec::new();
    {
        let mut queue = std::collections::VecDeque::new();
        queue.push_back(0usize);
        while let Some(i) = queue.pop_front() {
            order.push(i);
            let nd = &tree.nodes[i];
            if let (Some(a), Some(b)) = (nd.t, nd.f) {
                let thr = nd.thr.unwrap_or(f64::NAN);
                let (l, r): (Vec<usize>, Vec<usize>) = rows_at[i].iter().partition(|&&q| goes_true(x.at(q, nd.feat), thr, strict));
                rows_at[a] = l;
                rows_at[b] = r;
                depth_of[a] = depth_of[i] + 1;
                depth_of[b] = depth_of[i] + 1;
                queue.push_back(a);
                queue.push_back(b);
            }
        }
    }
    let leaves: Vec<usize> = order.iter().cloned().filter(|&i| !tree.nodes[i].internal()).collect();
    let internals: Vec<usize> = order.iter().cloned().filter(|&i| tree.nodes[i].internal()).collect();
    c.bucket(match leaves.len() {
        1 => "leaves:1",
        2..=4 => "leaves:2-4",
        5..=16 => "leaves:5-16",
        _ => "leaves:>16",
    });

    // ---- leaf outputs, leaf sizes, depth
    for &l in &leaves {
        let rows = &rows_at[l];
        if root_split {
            c.check(&o("leaf.min-size"), rows.len() >= prm.msl, &sg, || {
                format!("leaf {} holds {} training rows, min_samples_leaf = {}", l, rows.len(), prm.msl)
            });
        }
        if let Some(d) = prm.max_depth {
            c.check(&o("depth.limit"), depth_of[l] <= d as usize, &sg, || format!("leaf {} lies below {} splits, max_depth = {}", l, depth_of[l], d));
            c.bucket_if(depth_of[l] == d as usize, "depth:limit-reached");
        }
        if rows.is_empty() {
            continue;
        }
        if cls {
            let cnt = counts_of(&yi, k, rows);
            let mx = *cnt.iter().max().unwrap();
            let lab = leaf_value(&tree, l, true);
            let pos = labels.iter().position(|v| *v == lab);
            c.check(&o("leaf.label-is-original"), pos.is_some(), &sg, || format!("leaf {} predicts {} which is not one of the training labels {:?}", l, lab, labels));
            if let Some(q) = pos {
                c.check(&o("leaf.majority"), cnt[q] == mx, &sg, || {
                    format!("leaf {} predicts label {} held by {} of its {} rows, class counts {:?} over labels {:?}", l, lab, cnt[q], rows.len(), cnt, labels)
                });
            }
            c.bucket_if(cnt.iter().filter(|&&v| v == mx).count() > 1, "leaf:majority-tie");
            c.bucket_if(cnt.iter().filter(|&&v| v > 0).count() > 1, "leaf:impure");
        } else {
            let m = mean_of(y, rows);
            let out = tree.nodes[l].out;
            c.ratio(&o("leaf.mean"), (out - m).abs(), 1e-10 * ymax, &sg, || {
                format!("leaf {} output {} but the mean target of its {} rows {:?} is {}", l, out, rows.len(), &rows[..rows.len().min(12)], m)
            });
        }
    }

    // ---- greedy optimality of every chosen threshold
    let domain = !cls || (prm.msl == 1 && distinct);
    if cls {
        c.bucket(if domain { "cls:greedy-domain" } else { "cls:outside-greedy-domain" });
    }
    if domain {
        for &i in &internals {
            let nd = &tree.nodes[i];
            let (l, r) = (&rows_at[nd.t.unwrap()], &rows_at[nd.f.unwrap()]);
            if l.len() < prm.msl.max(1) || r.len() < prm.msl.max(1) {
                continue; // inadmissible choice: reported by leaf.min-size on the leaves below
            }
            let rows = &rows_at[i];
            let nr = rows.len() as f64;
            let (best, chosen, tol) = if cls {
                (best_cls(kind, x, &yi, k, rows, prm.msl), gain_cls(kind, &yi, k, l, r), 1e-9)
            } else {
                (best_reg(x, y, rows, prm.msl), gain_reg(y, l, r), 1e-9 * nr * ymax * ymax)
            };
            if let Some(b) = best {
                c.bucket_if(b.candidates > 1, "greedy:several-candidates");
                c.bucket_if(b.gain - chosen <= 0.0 && (nd.feat != b.feat || l.len() != b.left), "greedy:equal-gain-alternative");
                c.bucket_if(b.gain <= tol, "greedy:zero-gain-split");
                let short = (b.gain - chosen).max(0.0);
                c.ratio(&o("greedy.best-split"), short, tol, &sg, || {
                    format!(
                        "node {} ({} rows) splits feature {} at {} ({}|{} rows) with gain {:e}, but feature {} between {} and {} ({}|{} rows) gains {:e}",
                        i,
                        rows.len(),
                        nd.feat,
                        nd.thr.unwrap_or(f64::NAN),
                        l.len(),
                        r.len(),
                        chosen,
                        b.feat,
                        b.lo,
                        b.hi,
                        b.left,
                        rows.len() - b.left,
                        b.gain
                    )
                });
            }
        }
    }

    // ---- completeness without depth limit
    if prm.max_depth.is_none() && domain {
        for &l in &leaves {
            let rows = &rows_at[l];
            if rows.len() <= prm.mss {
                c.bucket_if(rows.len() >= 2, "leaf:below-min_samples_split");
                continue;
            }
            let best = if cls { best_cls(kind, x, &yi, k, rows, prm.msl) } else { best_reg(x, y, rows, prm.msl) };
            let pure = cls && counts_of(&yi, k, rows).iter().filter(|&&v| v > 0).count() <= 1;
            c.bucket_if(best.is_none() && rows.len() >= 2 && !pure, "leaf:no-admissible-threshold");
            c.check(&o("complete"), pure || best.is_none(), &sg, || {
                let b = best.as_ref().unwrap();
                format!(
                    "leaf {} holds {} rows (> min_samples_split = {}){} and stays a leaf although feature {} can be cut between {} and {} leaving {}|{} rows (min_samples_leaf = {}); rows {:?}",
                    l,
                    rows.len(),
                    prm.mss,
                    if cls { ", is not pure," } else { "" },
                    b.feat,
                    b.lo,
                    b.hi,
                    b.left,
                    rows.len() - b.left,
                    prm.msl,
                    &rows[..rows.len().min(12)]
                )
            });
        }
    }

    // ---- size limits disabled + distinct values: the training data are reproduced
    if prm.max_depth.is_none() && prm.msl == 1 && prm.mss <= 1 && distinct {
        c.bucket("limits:disabled");
        if cls {
            let bad: Vec<usize> = (0..n).filter(|&i| pred[i] != y[i]).collect();
            c.check(&o("reproduce"), bad.is_empty(), &sg, || {
                format!("{} training rows are not reproduced, e.g. row {}: label {} predicted {}", bad.len(), bad[0], y[bad[0]], pred[bad[0]])
            });
        } else {
            let worst = (0..n).map(|i| (pred[i] - y[i]).abs()).fold(0.0f64, |m, v| if v.is_nan() { f64::NAN } else { m.max(v) });
            c.ratio(&o("reproduce"), worst, 1e-10 * ymax, &sg, || "max |predict(x_i) − y_i| over the training rows".into());
        }
    }

    // ---- fresh rows: predict == walk (either side when a value equals the threshold)
    {
        let fr = fresh_rows(c, x, &tree);
        let fm: DenseMatrix<f64> = to_dense(&fr);
        if let Some(r) = c.must("predict(fresh)", || model.m_predict(&fm)) {
            match r {
                Ok(pf) if pf.len() == fr.r => {
                    for i in 0..fr.r {
                        let row = fr.row(i);
                        let (ls, on) = walk_any(&tree, &row);
                        c.bucket_if(on, "fresh:value-on-threshold");
                        let ok = ls.iter().any(|&l| same(pf[i], leaf_value(&tree, l, cls)));
                        c.check(&o("predict.fresh=walk"), ok, &sg, || {
                            format!("fresh row {:?}: predict {} but the walk reaches leaf/leaves {:?} with output {:?}", row, pf[i], ls, ls.iter().map(|&l| leaf_value(&tree, l, cls)).collect::<Vec<_>>())
                        });
                    }
                }
                Ok(pf) => {
                    c.check(&o("predict.length"), false, &sg, || format!("{} predictions for {} fresh rows", pf.len(), fr.r));
                }
                Err(e) => {
                    c.check(&o("predict.ok"), false, &sg, || format!("predict(fresh) Err({})", e));
                }
            }
        }
    }

    // ---- determinism
    if let Some(Ok(m2)) = c.must("fit(again)", || fit_model(kind, &xm, &yv, prm)) {
        if let Some(Ok(js2)) = c.must("serialize", || m2.m_json()) {
            c.check(&o("deterministic"), js2 == js, &sg, || "two fits on the same rows and parameters serialise differently".into());
        }
    }

    // ---- features multiplied by a power of two
    {
        let mut j = c.rng.int(1, 8);
        if c.rng.bool(0.5) {
            j = -j;
        }
        let s = 2f64.powi(j as i32);
        let xs = x.scale(s);
        // exact scaling of the inputs is a precondition of the oracle (no under/overflow)
        let exact = xs.d.iter().zip(x.d.iter()).all(|(a, b)| a / s == *b && a.is_finite());
        if exact {
            let xsm: DenseMatrix<f64> = to_dense(&xs);
            if let Some(Ok(ms)) = c.must("fit(scaled)", || fit_model(kind, &xsm, &yv, prm)) {
                let ts = c.must("serialize", || ms.m_json()).and_then(|r| r.ok()).and_then(|v| parse_tree(&v, cls));
                if let Some(ts) = ts {
                    let mut diff: Option<String> = None;
                    if ts.nodes.len() != nn {
                        diff = Some(format!("{} nodes instead of {}", ts.nodes.len(), nn));
                    } else if structure(&ts, p, cls).is_err() {
                        diff = Some("malformed tree".into());
                    } else {
                        for &i in &order {
                            let (a, b) = (&tree.nodes[i], &ts.nodes[i]);
                            if a.t != b.t || a.f != b.f {
                                diff = Some(format!("node {}: children {:?}/{:?} instead of {:?}/{:?}", i, b.t, b.f, a.t, a.f));
                            } else if !same(a.out, b.out) {
                                diff = Some(format!("node {}: output {} instead of {}", i, b.out, a.out));
                            } else if a.internal() && (a.feat != b.feat || a.thr.map(|t| t * s) != b.thr) {
                                diff = Some(format!("node {}: split feature {} at {:?} instead of feature {} at {:?}·2^{}", i, b.feat, b.thr, a.feat, a.thr, j));
                            }
                            if diff.is_some() {
                                break;
                            }
                        }
                    }
                    if diff.is_none() {
                        if let Some(Ok(ps)) = c.must("predict(scaled)", || ms.m_predict(&xsm)) {
                            if ps.len() != n || (0..n).any(|i| !same(ps[i], pred[i])) {
                                diff = Some("predictions on the scaled training rows differ".into());
                            }
                        }
                    }
                    c.check(&o("scale.pow2"), diff.is_none(), &sg, || format!("features × 2^{}: {}", j, diff.clone().unwrap_or_default()));
                } else {
                    c.check(&o("scale.pow2"), false, &sg, || format!("features × 2^{}: tree not serialisable / readable", j));
                }
            } else {
                c.check(&o("scale.pow2"), false, &sg, || format!("features × 2^{}: fit failed", j));
            }
        }
    }
}

// ------------------------------------------------------------------------------------------------
// generators

fn draw_n(c: &mut Case) -> usize {
    match c.rng.below(100) {
        0..=34 => c.rng.us(2, 12),
        35..=79 => c.rng.us(13, 60),
        _ => c.rng.us(61, 150),
    }
}

fn gen_col(c: &mut Case, n: usize, kind: &str) -> Vec<f64> {
    match kind {
        // pairwise distinct values in an order that drives the library's argsort into its most lopsided partitions
        "sortkill" => scverif::gen::sort_killer(n, c.rng.bool(0.5)),
        "cont" => {
            let (s, off) = (*c.rng.pick(&[1.0, 1.0, 1.0, 1e-3, 1e3, -1.0]), *c.rng.pick(&[0.0, 0.0, 0.0, 10.0, -100.0]));
            (0..n).map(|_| c.rng.uni(-1.0, 1.0) * s + off).collect()
        }
        "normal" => {
            let s = c.rng.logu(0.01, 100.0);
            (0..n).map(|_| c.rng.normal() * s).collect()
        }
        "dec2" => (0..n).map(|_| (c.rng.uni(-5.0, 5.0) * 100.0).round() / 100.0).collect(),
        "dec1" => (0..n).map(|_| (c.rng.uni(0.0, 3.0) * 10.0).round() / 10.0).collect(),
        "int" => {
            let k = c.rng.int(2, 6);
            (0..n).map(|_| c.rng.int(0, k - 1) as f64).collect()
        }
        "bin" => (0..n).map(|_| c.rng.int(0, 1) as f64).collect(),
        "negint" => (0..n).map(|_| c.rng.int(-3, 3) as f64).collect(),
        "half" => (0..n).map(|_| c.rng.int(-4, 4) as f64 * 0.5).collect(),
        "const" => {
            let v = *c.rng.pick(&[0.0, 1.0, -2.5, 1e3]);
            vec![v; n]
        }
        // distinct by construction: a permutation of an arithmetic grid
        _ => {
            let step = *c.rng.pick(&[1.0, 0.5, 0.1, 3.0, 1e-3]);
            let off = *c.rng.pick(&[0.0, -7.0, 100.0, -0.35]);
            c.rng.perm(n).into_iter().map(|i| off + step * i as f64).collect()
        }
    }
}

fn gen_x(c: &mut Case, n: usize, p: usize, mode: &str) -> (Mat, Vec<String>) {
    let pool: &[&str] = match mode {
        "distinct" => &["cont", "normal", "grid", "sortkill"],
        "int" => &["int", "int", "bin", "negint", "half"],
        _ => &["cont", "normal", "dec2", "dec1", "int", "int", "bin", "negint", "half", "const", "grid", "dup", "sortkill"],
    };
    let mut cols: Vec<Vec<f64>> = Vec::new();
    let mut kinds: Vec<String> = Vec::new();
    for j in 0..p {
        let k = *c.rng.pick(pool);
        if k == "dup" && j > 0 {
            let src = c.rng.below(j);
            cols.push(cols[src].clone());
            kinds.push(format!("dup-of-{}", src));
        } else {
            let k = if k == "dup" { "int" } else { k };
            cols.push(gen_col(c, n, k));
            kinds.push(k.to_string());
        }
    }
    (Mat::from_fn(n, p, |i, j| cols[j][i]), kinds)
}

fn gen_y_reg(c: &mut Case, x: &Mat) -> (Vec<f64>, &'static str) {
    let n = x.r;
    let kind = *c.rng.pick(&["noise", "signal", "signal", "int", "binary", "const", "offset", "scaled", "linear", "few-levels"]);
    let y: Vec<f64> = match kind {
        "noise" => (0..n).map(|_| c.rng.normal()).collect(),
        "signal" => {
            let f = c.rng.below(x.c);
            let (a, b) = (x.at(c.rng.below(n), f), x.at(c.rng.below(n), f));
            let lv = [c.rng.normal() * 3.0, c.rng.normal() * 3.0, c.rng.normal() * 3.0];
            let noise = *c.rng.pick(&[0.0, 0.05, 0.5]);
            (0..n)
                .map(|i| {
                    let v = x.at(i, f);
                    lv[(v > a) as usize + (v > b) as usize] + noise * c.rng.normal()
                })
                .collect()
        }
        "int" => (0..n).map(|_| c.rng.int(-3, 3) as f64).collect(),
        "binary" => (0..n).map(|_| c.rng.int(0, 1) as f64).collect(),
        "const" => {
            let v = *c.rng.pick(&[0.0, 1.0, -2.5, 0.1]);
            vec![v; n]
        }
        "offset" => {
            let off = *c.rng.pick(&[50.0, -20.0, 100.0]);
            (0..n).map(|_| off + c.rng.normal()).collect()
        }
        "scaled" => {
            let s = *c.rng.pick(&[1e-3, 1e3, 1e-6, 1e6]);
            (0..n).map(|_| s * c.rng.normal()).collect()
        }
        "linear" => {
            let w: Vec<f64> = (0..x.c).map(|_| c.rng.normal()).collect();
            (0..n).map(|i| (0..x.c).map(|j| w[j] * x.at(i, j)).sum::<f64>() + 0.1 * c.rng.normal()).collect()
        }
        _ => {
            let lv = [c.rng.normal(), c.rng.normal(), c.rng.normal()];
            (0..n).map(|_| *c.rng.pick(&lv)).collect()
        }
    };
    (y, kind)
}

const LABEL_POOL: [f64; 12] = [-7.0, -3.0, -1.5, -1.0, 0.0, 0.5, 1.0, 2.0, 5.0, 10.0, 100.0, -100.0];

fn gen_y_cls(c: &mut Case, x: &Mat) -> (Vec<f64>, &'static str) {
    let n = x.r;
    let k = c.rng.us(2, 5);
    let labels: Vec<f64> = if c.rng.bool(0.2) {
        (0..k).map(|i| i as f64).collect()
    } else if c.rng.bool(0.2) {
        let (v, name) = scverif::gen::tricky_labels(&mut c.rng, k);
        c.bucket(&format!("labels:{}", name));
        v
    } else {
        let mut pool = LABEL_POOL.to_vec();
        c.rng.shuffle(&mut pool);
        pool[..k].to_vec()
    };
    let kind = *c.rng.pick(&["random", "signal", "signal", "imbalanced", "alternating"]);
    let mut y: Vec<f64> = match kind {
        "random" => (0..n).map(|_| *c.rng.pick(&labels)).collect(),
        "signal" => {
            let f = c.rng.below(x.c);
            let cuts: Vec<f64> = (0..k - 1).map(|_| x.at(c.rng.below(n), f)).collect();
            let flip = *c.rng.pick(&[0.0, 0.1, 0.3]);
            (0..n)
                .map(|i| {
                    if c.rng.bool(flip) {
                        *c.rng.pick(&labels)
                    } else {
                        labels[cuts.iter().filter(|&&t| x.at(i, f) > t).count()]
                    }
                })
                .collect()
        }
        "imbalanced" => (0..n).map(|_| if c.rng.bool(0.85) { labels[0] } else { *c.rng.pick(&labels) }).collect(),
        _ => {
            // classes alternate along the order of feature 0: as many class boundaries as possible
            let mut ord: Vec<usize> = (0..n).collect();
            ord.sort_by(|&a, &b| x.at(a, 0).partial_cmp(&x.at(b, 0)).unwrap());
            let mut y = vec![0.0; n];
            for (r, &i) in ord.iter().enumerate() {
                y[i] = labels[r % k];
            }
            y
        }
    };
    // at least two classes present
    let p = c.rng.perm(n);
    y[p[0]] = labels[0];
    y[p[1]] = labels[1];
    (y, kind)
}

fn draw_params(c: &mut Case, force_msl1: bool) -> Params {
    if c.rng.bool(0.25) {
        Params { max_depth: None, msl: 1, mss: *c.rng.pick(&[0usize, 1, 1, 2]) }
    } else {
        Params {
            max_depth: if c.rng.bool(0.45) { None } else { Some(c.rng.us(1, 8) as u16) },
            msl: if force_msl1 { 1 } else { c.rng.us(1, 5) },
            mss: c.rng.us(0, 8),
        }
    }
}

fn draw_criterion(c: &mut Case) -> Kind {
    *c.rng.pick(&[Kind::Gini, Kind::Entropy, Kind::ClsError])
}

fn describe(c: &mut Case, kind: Kind, x: &Mat, y: &[f64], prm: &Params, xkinds: &[String], ykind: &str) {
    c.describe(json!({
        "model": kind.name(), "max_depth": prm.max_depth, "min_samples_leaf": prm.msl, "min_samples_split": prm.mss,
        "feature_kinds": xkinds, "target_kind": ykind, "X": mat_json(x), "y": y,
    }));
    c.hash_f64s(&x.d);
    c.hash_f64s(y);
    c.hash_f64s(&[kind.code(), x.r as f64, prm.max_depth.map(|d| d as f64).unwrap_or(-1.0), prm.msl as f64, prm.mss as f64]);
}

fn reg_mixed(c: &mut Case) {
    let n = draw_n(c);
    let p = c.rng.us(1, 6);
    let mode = if c.rng.bool(0.3) { "distinct" } else { "mixed" };
    let (x, xk) = gen_x(c, n, p, mode);
    let (y, yk) = gen_y_reg(c, &x);
    let prm = draw_params(c, false);
    describe(c, Kind::Reg, &x, &y, &prm, &xk, yk);
    c.bucket(&format!("target:{}", yk));
    evaluate(c, Kind::Reg, &x, &y, &prm, mode);
}

fn reg_small_int(c: &mut Case) {
    let n = c.rng.us(2, 12);
    let p = c.rng.us(1, 3);
    let (x, xk) = gen_x(c, n, p, "int");
    let (y, yk) = if c.rng.bool(0.6) {
        let k = *c.rng.pick(&["int", "binary"]);
        let y: Vec<f64> = (0..n).map(|_| if k == "int" { c.rng.int(-3, 3) as f64 } else { c.rng.int(0, 1) as f64 }).collect();
        (y, k)
    } else {
        gen_y_reg(c, &x)
    };
    let prm = draw_params(c, false);
    describe(c, Kind::Reg, &x, &y, &prm, &xk, yk);
    c.bucket(&format!("target:{}", yk));
    evaluate(c, Kind::Reg, &x, &y, &prm, "int");
}

fn cls_mixed(c: &mut Case) {
    let n = draw_n(c);
    let p = c.rng.us(1, 6);
    let mode = if c.rng.bool(0.25) { "int" } else { "mixed" };
    let (x, xk) = gen_x(c, n, p, mode);
    let (y, yk) = gen_y_cls(c, &x);
    let prm = draw_params(c, false);
    let kind = draw_criterion(c);
    describe(c, kind, &x, &y, &prm, &xk, yk);
    c.bucket(&format!("labels:{}", yk));
    evaluate(c, kind, &x, &y, &prm, mode);
}

/// the domain in which the statement claims greedy optimality for the classifier
fn cls_distinct(c: &mut Case) {
    let n = draw_n(c);
    let p = c.rng.us(1, 6);
    let (x, xk) = gen_x(c, n, p, "distinct");
    if !cols_distinct(&x) {
        c.skip("continuous draw produced a repeated value");
        return;
    }
    let (y, yk) = gen_y_cls(c, &x);
    let prm = draw_params(c, true);
    let kind = draw_criterion(c);
    describe(c, kind, &x, &y, &prm, &xk, yk);
    c.bucket(&format!("labels:{}", yk));
    evaluate(c, kind, &x, &y, &prm, "distinct");
}

/// small-integer features, identical rows carrying different labels
fn cls_conflict(c: &mut Case) {
    let n = c.rng.us(4, 40);
    let p = c.rng.us(1, 4);
    let (mut x, xk) = gen_x(c, n, p, "int");
    let (mut y, yk) = gen_y_cls(c, &x);
    // copy some rows and give the copy another label
    let mut labels: Vec<f64> = y.clone();
    labels.sort_by(|a, b| a.partial_cmp(b).unwrap());
    labels.dedup();
    let dups = c.rng.us(1, (n / 3).max(1));
    let mut conflict = false;
    for _ in 0..dups {
        let (a, b) = (c.rng.below(n), c.rng.below(n));
        if a == b {
            continue;
        }
        for j in 0..p {
            let v = x.at(a, j);
            x.set(b, j, v);
        }
        let other: Vec<f64> = labels.iter().cloned().filter(|l| *l != y[a]).collect();
        y[b] = *c.rng.pick(&other);
        conflict = true;
    }
    let mut l2 = y.clone();
    l2.sort_by(|a, b| a.partial_cmp(b).unwrap());
    l2.dedup();
    if l2.len() < 2 {
        c.skip("relabelling left a single class");
        return;
    }
    let prm = draw_params(c, false);
    let kind = draw_criterion(c);
    describe(c, kind, &x, &y, &prm, &xk, yk);
    c.bucket_if(conflict, "data:identical-rows-conflicting-labels");
    evaluate(c, kind, &x, &y, &prm, "int");
}

/// feature values that are 1 ulp apart (e.g. 0.3 and 0.1+0.2): the midpoint of two adjacent floats is
/// one of them
fn adjacent_floats(c: &mut Case) {
    let n = c.rng.us(2, 16);
    let p = c.rng.us(1, 3);
    let unique = c.rng.bool(0.5);
    let mut cols: Vec<Vec<f64>> = Vec::new();
    for _ in 0..p {
        let nb = (n + 2) / 3 + c.rng.us(0, 2);
        let mut bases: Vec<f64> = Vec::new();
        while bases.len() < nb {
            let b = if c.rng.bool(0.3) { *c.rng.pick(&[0.3, 0.7, 1.1, 0.1, 2.5, -0.3, 5.0, 1e-3]) } else { c.rng.uni(-2.0, 2.0) };
            if bases.iter().all(|q: &f64| (q - b).abs() > 1e-6) {
                bases.push(b);
            }
        }
        let mut combos: Vec<f64> = Vec::new();
        for b in &bases {
            combos.push(*b);
            combos.push(next_up(*b));
            combos.push(next_up(next_up(*b)));
        }
        c.rng.shuffle(&mut combos);
        let col: Vec<f64> = if unique { combos[..n].to_vec() } else { (0..n).map(|_| *c.rng.pick(&combos)).collect() };
        cols.push(col);
    }
    let x = Mat::from_fn(n, p, |i, j| cols[j][i]);
    let xk: Vec<String> = vec!["adjacent-floats".to_string(); p];
    let reg = c.rng.bool(0.5);
    let prm = draw_params(c, !reg && unique);
    if reg {
        let (y, yk) = gen_y_reg(c, &x);
        describe(c, Kind::Reg, &x, &y, &prm, &xk, yk);
        evaluate(c, Kind::Reg, &x, &y, &prm, "adjacent-floats");
    } else {
        let (y, yk) = gen_y_cls(c, &x);
        let kind = draw_criterion(c);
        describe(c, kind, &x, &y, &prm, &xk, yk);
        evaluate(c, kind, &x, &y, &prm, "adjacent-floats");
    }
}

/// parameter builders keep every configured value whatever the order of the `with_*` steps
fn builders_fam(c: &mut Case) {
    scverif::builders::case(c, "C05")
}

/// the uniform api traits (Predictor / SupervisedEstimator / UnsupervisedEstimator / Transformer) behave
/// exactly like the inherent methods
fn api_paths_fam(c: &mut Case) {
    scverif::apipaths::case(c, "C05")
}

fn main() {
    runner::main(Spec {
        property: "C05",
        rule: "one case = one training set + one parameter setting, fitted three times (fit, refit, features × 2^j); families: reg_mixed (2..150 rows, 1..6 features of mixed kinds: continuous, 1-2 decimals, small integers, constant, duplicated column, distinct grid; ten target kinds), reg_small_int (2..12 rows, small-integer features and targets: many ties), cls_mixed (mixed features, 2..5 classes with non-contiguous/negative labels, three criteria), cls_distinct (pairwise distinct values per feature, min_samples_leaf = 1: the domain of the classifier's greedy clause), cls_conflict (small-integer features with identical rows carrying different labels), adjacent_floats (feature values 1 ulp apart); max_depth None or 1..8, min_samples_leaf 1..5, min_samples_split 0..8, 25 % of the cases with all limits disabled; a case is non-trivial when the fitted tree has at least one split; distinct = distinct hash of (model, criterion, limits, X, y)",
        assumptions: vec![
            "f64 only; oracle arithmetic in f64 with compensated sums, SSE reductions in the cancellation-free form |L||R|/n·(mean_L − mean_R)²",
            "leaf mean tolerance 1e-10·max|y| (the library derives a child's mean from the parent's rounded mean: error <= ~n·depth·eps·max|y|)",
            "greedy tolerance: regressor 1e-9·n_node·max|y|² (the library evaluates n_l·mean_l² + n_r·mean_r² − n·mean² with sums inherited from the ancestors), classifier 1e-9 in impurity units",
            "a feature value equal to a threshold may be routed to either side unless a training row sits on a threshold (then predict's own convention on the training rows is used)",
            "classifier greedy optimality / completeness / reproduction only for min_samples_leaf = 1 and pairwise distinct values in every feature, as the statement says",
            "power-of-two check only when the scaling of the inputs is exact (always, for the generated magnitudes); one common factor 2^j, j in ±1..8",
        ],
        families: vec![
            Family::new("api_paths", 300, 3000, api_paths_fam),
            Family::new("builders", 300, 3000, builders_fam),
            Family::new("reg_mixed", 6000, 90000, reg_mixed),
            Family::new("reg_small_int", 3500, 52000, reg_small_int),
            Family::new("cls_mixed", 5000, 75000, cls_mixed),
            Family::new("cls_distinct", 5000, 75000, cls_distinct),
            Family::new("cls_conflict", 2500, 37000, cls_conflict),
            Family::new("adjacent_floats", 1000, 15000, adjacent_floats),
        ],
        min_nontrivial: 3000,
        case_timeout_s: 120,
    });
}
