//! C10 — SVM: SVC models are dual-feasible, made of training rows, equal their kernel expansion and
//! predict by the sign of the decision value, for every visiting order; SVR models are feasible,
//! terminate and satisfy the epsilon-insensitive KKT conditions within the tolerance; the built-in
//! kernels equal their closed forms, are symmetric, and linear / RBF Gram matrices are PSD.
//!
//! Observation: `SVC::{fit,decision_function,predict}`, `SVR::{fit,predict}`, `Kernel::apply`, the
//! private model state (`instances`, `w`, `b`, `classes`) through serde_json, the visiting orders
//! through `smartcore::verif::{svc_force_orders, svc_take_order_log}` and the loop steps through
//! `set_step_budget` / `steps`.
#![allow(non_snake_case)]
use scverif::refla::*;
use scverif::*;
use smartcore::linalg::naive::dense_matrix::DenseMatrix;
use smartcore::svm::svc::{SVCParameters, SVC};
use smartcore::svm::svr::{SVRParameters, SVR};
use smartcore::svm::{Kernel, Kernels, LinearKernel};
use smartcore::verif::{set_step_budget, steps, svc_force_orders, svc_take_order_log};

type DM = DenseMatrix<f64>;

/// Logical step budgets (one step = one SMO iteration).
/// SVC: the worst of 14 million fits on the unchanged tree used 1506 steps (evidence: `steps/budget:svc`).
const SVC_BUDGET: u64 = 1_000_000;
const ENUM_BUDGET: u64 = 1_000_000;
/// SVR: the number of SMO iterations grows with H = C·max_i K(x_i,x_i)/tol; on 60 000 fits of the
/// unchanged tree the worst observed steps/H was 4.0 (H from 1 to 1e11, every fit terminated, the slowest
/// after 1.7e8 steps; tail of steps/H: 99.9 % below 0.9, 99.99 % below 2.7). The budget of a fit is
/// SVR_HEADROOM·H (at least SVR_MIN_BUDGET); where that exceeds SVR_CAP the fit runs under SVR_CAP and an overrun is *skipped* (slow convergence cannot be
/// told from non-termination within an affordable budget), otherwise an overrun is a violation.
const SVR_HEADROOM: f64 = 200.0;
const SVR_MIN_BUDGET: u64 = 100_000;
const SVR_CAP: u64 = 5_000_000;
const NOT_PSD_SVR_BUDGET: u64 = 200_000;
/// consecutive case indices that share one data set (and differ in the schedule)
const FITS_PER_DATASET: u64 = 20;

// ------------------------------------------------------------------------------------------ kernels

#[derive(Clone, Debug)]
enum KSpec {
    Linear,
    Rbf(f64),
    Poly { d: f64, g: f64, c0: f64 },
    Sigmoid { g: f64, c0: f64 },
}

impl KSpec {
    fn name(&self) -> &'static str {
        match self {
            KSpec::Linear => "linear",
            KSpec::Rbf(_) => "rbf",
            KSpec::Poly { .. } => "poly",
            KSpec::Sigmoid { .. } => "sigmoid",
        }
    }
    fn json(&self) -> Value {
        match self {
            KSpec::Linear => json!({"kernel": "linear"}),
            KSpec::Rbf(g) => json!({"kernel": "rbf", "gamma": g}),
            KSpec::Poly { d, g, c0 } => json!({"kernel": "polynomial", "degree": d, "gamma": g, "coef0": c0}),
            KSpec::Sigmoid { g, c0 } => json!({"kernel": "sigmoid", "gamma": g, "coef0": c0}),
        }
    }
    /// positive semi-definite by construction (the class for which the property demands SVR
    /// optimality and termination)
    fn psd(&self) -> bool {
        match self {
            KSpec::Linear => true,
            KSpec::Rbf(g) => *g > 0.0,
            KSpec::Poly { d, g, c0 } => *d >= 1.0 && d.fract() == 0.0 && *g > 0.0 && *c0 >= 0.0,
            KSpec::Sigmoid { .. } => false,
        }
    }
    /// closed form in f64 with compensated sums, and the magnitude its rounding errors scale with
    /// (first-order error propagation of the inner product through the outer function)
    fn eval(&self, a: &[f64], b: &[f64]) -> (f64, f64) {
        let dt = dotv(a, b);
        let sa = csum(a.iter().zip(b.iter()).map(|(x, y)| (x * y).abs()));
        match self {
            KSpec::Linear => (dt, sa),
            KSpec::Rbf(g) => {
                let d2 = csum(a.iter().zip(b.iter()).map(|(x, y)| (x - y) * (x - y)));
                let k = (-g * d2).exp();
                (k, k * (1.0 + (g * d2).abs()))
            }
            KSpec::Poly { d, g, c0 } => {
                let base = g * dt + c0;
                let k = base.powf(*d);
                (k, k.abs() + d.abs() * (g.abs() * sa + c0.abs()) * base.abs().powf(d - 1.0))
            }
            KSpec::Sigmoid { g, c0 } => {
                let k = (g * dt + c0).tanh();
                (k, k.abs() + g.abs() * sa + c0.abs())
            }
        }
    }
}

trait K64: Kernel<f64, Vec<f64>> + serde::Serialize + serde::de::DeserializeOwned + Clone {}
impl<K: Kernel<f64, Vec<f64>> + serde::Serialize + serde::de::DeserializeOwned + Clone> K64 for K {}

macro_rules! with_kernel {
    ($k:expr, $f:ident ( $($args:expr),* )) => {
        match $k {
            KSpec::Linear => $f(Kernels::linear(), $($args),*),
            KSpec::Rbf(g) => $f(Kernels::rbf(*g), $($args),*),
            KSpec::Poly { d, g, c0 } => $f(Kernels::polynomial(*d, *g, *c0), $($args),*),
            KSpec::Sigmoid { g, c0 } => $f(Kernels::sigmoid(*g, *c0), $($args),*),
        }
    };
}

/// kind: 0 linear, 1 rbf, 2 polynomial (PSD parameters), 3 sigmoid, 4 polynomial with a negative coef0
fn gen_kernel(r: &mut Rng, kind: usize, p: usize) -> KSpec {
    match kind {
        0 => KSpec::Linear,
        1 => KSpec::Rbf(r.logu(0.01, 5.0)),
        2 => {
            let d = r.us(1, 3) as f64;
            let g = if r.bool(0.3) { 1.0 / p as f64 } else { r.logu(0.05, 1.0) / p as f64 };
            let c0 = *r.pick(&[0.0, 1.0, 1.0, -1.0]);
            let c0 = if c0 < 0.0 { r.uni(0.0, 2.0) } else { c0 };
            KSpec::Poly { d, g, c0 }
        }
        3 => KSpec::Sigmoid { g: r.logu(0.01, 1.0), c0: if r.bool(0.3) { 1.0 } else { r.uni(-1.0, 1.0) } },
        _ => KSpec::Poly { d: r.us(2, 4) as f64, g: r.logu(0.05, 1.0) / p as f64, c0: -r.uni(0.1, 1.5) },
    }
}

// ------------------------------------------------------------------------------------ small helpers

fn draw_n(r: &mut Rng) -> usize {
    let u = r.f();
    if u < 0.45 {
        r.us(4, 10)
    } else if u < 0.8 {
        r.us(4, 30)
    } else {
        r.us(4, 80)
    }
}

fn n_class(n: usize) -> &'static str {
    if n <= 6 {
        "n:4-6"
    } else if n <= 20 {
        "n:7-20"
    } else {
        "n:21-80"
    }
}

fn num(v: &Value) -> f64 {
    // serde_json maps non-finite floats to null
    v.as_f64().unwrap_or(f64::NAN)
}

fn nums(v: &Value) -> Option<Vec<f64>> {
    v.as_array().map(|a| a.iter().map(num).collect())
}

fn rows_of(v: &Value) -> Option<Vec<Vec<f64>>> {
    let a = v.as_array()?;
    let mut out = Vec::with_capacity(a.len());
    for r in a {
        out.push(nums(r)?);
    }
    Some(out)
}

fn same_row(a: &[f64], b: &[f64]) -> bool {
    a.len() == b.len() && a.iter().zip(b.iter()).all(|(x, y)| x == y)
}

/// deviation of a library value from the reference in units of `scale` (0 when identical, also for
/// identical non-finite values; infinite when only one of them is non-finite)
fn rel_dev(lib: f64, refv: f64, scale: f64) -> f64 {
    if lib == refv || (lib.is_nan() && refv.is_nan()) {
        0.0
    } else if !lib.is_finite() || !refv.is_finite() || !(scale > 0.0) {
        f64::INFINITY
    } else {
        (lib - refv).abs() / scale
    }
}

fn factorial(n: usize) -> u64 {
    (1..=n as u64).product()
}

/// k-th permutation of 0..n in lexicographic order (factoradic decoding)
fn nth_perm(n: usize, mut k: u64) -> Vec<usize> {
    let mut el: Vec<usize> = (0..n).collect();
    let mut out = Vec::with_capacity(n);
    for i in (1..=n).rev() {
        let f = factorial(i - 1);
        let idx = (k / f) as usize;
        k %= f;
        out.push(el.remove(idx));
    }
    out
}

/// all permutations of 0..n (n <= 6)
fn all_perms(n: usize) -> Vec<Vec<usize>> {
    (0..factorial(n)).map(|k| nth_perm(n, k)).collect()
}

/// reference expansion b + Σ w_i·K(sv_i, x) and the magnitude |b| + Σ |w_i|·scale_i its errors scale with
fn expansion(k: &KSpec, inst: &[Vec<f64>], w: &[f64], b: f64, x: &[f64]) -> (f64, f64) {
    let mut terms = Vec::with_capacity(w.len() + 1);
    let mut sc = b.abs();
    terms.push(b);
    for (sv, wi) in inst.iter().zip(w.iter()) {
        let (kv, ks) = k.eval(sv, x);
        terms.push(wi * kv);
        sc += wi.abs() * ks;
    }
    (csum(terms.into_iter()), sc)
}

// ---------------------------------------------------------------------------------------------- SVC

#[derive(Clone)]
struct SvcCfg {
    x: Mat,
    y: Vec<f64>,
    fresh: Mat,
    lo: f64,
    hi: f64,
    k: KSpec,
    c: f64,
    tol: f64,
    epoch: usize,
    style: &'static str,
    labels: &'static str,
    dup: bool,
}

impl SvcCfg {
    fn json(&self) -> Value {
        json!({"X": mat_json(&self.x), "y": self.y, "fresh": mat_json(&self.fresh), "kernel": self.k.json(),
               "C": self.c, "tol": self.tol, "epoch": self.epoch, "style": self.style})
    }
    fn sig(&self) -> String {
        format!("{}/{}{}", self.k.name(), self.labels, if self.dup { "/dup-rows" } else { "" })
    }
}

fn gen_svc_cfg(r: &mut Rng, n: usize, epoch: usize, kind: usize) -> SvcCfg {
    let p = r.us(1, 5);
    let style = *r.pick(&["separable", "separable", "overlap", "overlap", "random-labels", "lattice", "mirror"]);
    // class sizes: both classes non-empty; 20 % extreme imbalance
    let npos = if r.bool(0.2) {
        if r.bool(0.5) {
            1
        } else {
            n - 1
        }
    } else {
        r.us((n / 4).max(1), (3 * n / 4).min(n - 1).max(1))
    };
    let mut sgn: Vec<f64> = (0..n).map(|i| if i < npos { 1.0 } else { -1.0 }).collect();
    r.shuffle(&mut sgn);
    let mut u: Vec<f64> = r.normal_vec(p);
    let un = norm2v(&u).max(1e-12);
    for v in u.iter_mut() {
        *v /= un;
    }
    let xs = *r.pick(&[1.0, 1.0, 1.0, 0.3, 3.0]);
    let sep = r.uni(1.0, 3.0);
    let ovl = r.uni(0.0, 1.0);
    let row = |r: &mut Rng, s: f64| -> Vec<f64> {
        match style {
            "separable" => {
                // noise orthogonal to u plus a component along u of the class sign with margin
                let z = r.normal_vec(p);
                let along = dotv(&z, &u);
                let m = sep + 0.5 * r.f();
                (0..p).map(|j| xs * (0.7 * (z[j] - along * u[j]) + s * m * u[j])).collect()
            }
            "overlap" => {
                let z = r.normal_vec(p);
                (0..p).map(|j| xs * (z[j] + s * ovl * u[j])).collect()
            }
            "lattice" => (0..p).map(|_| r.int(-2, 2) as f64).collect(),
            _ => r.normal_vec(p).iter().map(|v| xs * v).collect(),
        }
    };
    let mut rows: Vec<Vec<f64>> = (0..n).map(|i| row(r, sgn[i])).collect();
    if style == "lattice" {
        // labels from a linear rule with a few flips; keep both classes (the signs above stay as drawn
        // where the rule is degenerate)
        let wv = r.normal_vec(p);
        let lab: Vec<f64> = rows.iter().map(|x| if dotv(x, &wv) + 0.3 > 0.0 { 1.0 } else { -1.0 }).collect();
        let npl = lab.iter().filter(|v| **v > 0.0).count();
        if npl > 0 && npl < n {
            sgn = lab;
            for s in sgn.iter_mut() {
                if r.bool(0.1) {
                    *s = -*s;
                }
            }
            let np2 = sgn.iter().filter(|v| **v > 0.0).count();
            if np2 == 0 {
                sgn[0] = 1.0;
            } else if np2 == n {
                sgn[0] = -1.0;
            }
        }
    }
    if style == "mirror" {
        // point-symmetric set: row i + n/2 = −row i with the opposite label (small integers or reals);
        // makes exact ties and decision values that are exactly zero reachable
        let integer = r.bool(0.6);
        let h = n / 2;
        for i in 0..h {
            if integer {
                rows[i] = (0..p).map(|_| r.int(-2, 2) as f64).collect();
            }
            rows[i + h] = rows[i].iter().map(|v| -v).collect();
            sgn[i + h] = -sgn[i];
        }
    }
    // exact duplicates of rows (same or conflicting label)
    let mut dup = false;
    if style != "mirror" && r.bool(0.15) {
        for _ in 0..r.us(1, 3) {
            let a = r.below(n);
            let b = r.below(n);
            if a != b {
                rows[b] = rows[a].clone();
            }
        }
    }
    'o: for i in 0..n {
        for j in 0..i {
            if same_row(&rows[i], &rows[j]) {
                dup = true;
                break 'o;
            }
        }
    }
    let (lo, hi, labels): (f64, f64, &'static str) = if r.bool(0.45) {
        (-1.0, 1.0, "pm1")
    } else if r.bool(0.2) {
        let (v, name) = scverif::gen::tricky_labels(r, 2);
        (v[0], v[1], name)
    } else {
        let pairs: [(f64, f64); 8] = [(0.0, 1.0), (1.0, 2.0), (-1.0, 5.0), (1.0, 3.0), (-3.0, -1.0), (-2.5, 7.25), (-1.0, 0.0), (-7.0, 1.0)];
        if r.bool(0.7) {
            let q = *r.pick(&pairs);
            (q.0, q.1, "pair")
        } else {
            let a = (r.uni(-10.0, 10.0) * 8.0).round() / 8.0;
            (a, a + r.us(1, 40) as f64 / 8.0, "pair")
        }
    };
    let y: Vec<f64> = sgn.iter().map(|s| if *s > 0.0 { hi } else { lo }).collect();
    let m = r.us(2, 5);
    let mut fresh_rows: Vec<Vec<f64>> = (0..m).map(|_| { let s = if r.bool(0.5) { 1.0 } else { -1.0 }; row(r, s) }).collect();
    if style == "mirror" || style == "lattice" {
        fresh_rows.push(vec![0.0; p]);
    }
    let k = gen_kernel(r, kind, p);
    SvcCfg {
        x: Mat::from_rows(&rows),
        y,
        fresh: Mat::from_rows(&fresh_rows),
        lo,
        hi,
        k,
        c: if r.bool(0.2) { *r.pick(&[0.1, 1.0, 10.0, 100.0]) } else { r.logu(0.1, 100.0) },
        tol: r.logu(1e-4, 1e-2),
        epoch,
        style,
        labels,
        dup,
    }
}

fn draw_svc_kind(r: &mut Rng) -> usize {
    // linear, rbf, poly(PSD), sigmoid, poly(coef0 < 0)
    *r.pick(&[0, 0, 0, 1, 1, 1, 2, 2, 3, 3, 4])
}

/// Fits (with the forced schedule, if any), observes and checks one classifier. Returns the order log.
fn svc_fit_check<K: K64>(kern: K, c: &mut Case, cfg: &SvcCfg, forced: Option<&Vec<Vec<usize>>>, budget: u64, tag: &str) -> Vec<Vec<usize>> {
    let idx = c.index;
    let sg = format!("{}{}", tag, cfg.sig());
    let n = cfg.x.r;
    let xm: DM = to_dense(&cfg.x);
    let params = SVCParameters::<f64, DM, LinearKernel>::default().with_epoch(cfg.epoch).with_c(cfg.c).with_tol(cfg.tol).with_kernel(kern);
    let _ = svc_take_order_log();
    svc_force_orders(forced.cloned().unwrap_or_default());
    set_step_budget(budget);
    let r = c.must("svc.fit", || SVC::fit(&xm, &cfg.y, scverif::reused(idx, params)));
    let used = steps();
    set_step_budget(u64::MAX);
    svc_force_orders(Vec::new());
    let log = svc_take_order_log();
    let model = match r {
        None => return log,
        Some(Err(e)) => {
            c.check("svc.fit-ok", false, &sg, || format!("fit returned Err({}) for a two-class training set", e));
            return log;
        }
        Some(Ok(m)) => {
            c.check("svc.fit-ok", true, &sg, String::new);
            m
        }
    };
    if let Some(f) = forced {
        if &log != f {
            c.inconclusive("the forced visiting orders were not the ones the trainer used (wrong number or length of permutations queued)");
            return log;
        }
    }
    c.ratio("steps/budget:svc", used as f64, budget as f64, &sg, String::new);
    let js = match serde_json::to_value(&model) {
        Ok(v) => v,
        Err(e) => {
            c.inconclusive(&format!("model not serialisable: {}", e));
            return log;
        }
    };
    let (inst, w, classes) = match (rows_of(&js["instances"]), nums(&js["w"]), nums(&js["classes"])) {
        (Some(a), Some(b), Some(d)) => (a, b, d),
        _ => {
            c.inconclusive("unexpected JSON layout of SVC");
            return log;
        }
    };
    let b = num(&js["b"]);
    if !c.check("svc.model-shape", inst.len() == w.len() && classes.len() == 2, &sg, || format!("{} instances, {} weights, classes {:?}", inst.len(), w.len(), classes)) {
        return log;
    }
    let rows = cfg.x.rows();
    let ys: Vec<f64> = cfg.y.iter().map(|v| if *v == cfg.hi { 1.0 } else { -1.0 }).collect();

    // support vectors are training rows; box constraint in the direction of the class of a matching row
    let mut not_row: Option<usize> = None;
    let mut box_worst = 0.0f64;
    let mut box_at = 0usize;
    for (i, sv) in inst.iter().enumerate() {
        let mut best = f64::INFINITY;
        let mut found = false;
        for rr in 0..n {
            if same_row(sv, &rows[rr]) {
                found = true;
                let a = ys[rr] * w[i];
                let v = if a.is_nan() { f64::INFINITY } else { (a - cfg.c).max(-a).max(0.0) };
                if v < best {
                    best = v;
                }
            }
        }
        if !found {
            if not_row.is_none() {
                not_row = Some(i);
            }
        } else if best > box_worst {
            box_worst = best;
            box_at = i;
        }
    }
    c.check("svc.sv-is-training-row", not_row.is_none(), &sg, || format!("instance {} = {:?} equals no training row", not_row.unwrap_or(0), inst[not_row.unwrap_or(0)]));
    c.ratio("svc.box", box_worst, 1e-12 * cfg.c, &sg, || format!("w[{}] = {:e} is outside [0, C] in the direction of every training row equal to that support vector; C = {:e}", box_at, w[box_at], cfg.c));
    let sum = csum(w.iter().cloned());
    c.ratio("svc.sum-zero", sum.abs(), 1e-9 * cfg.c * n as f64, &sg, || format!("Σw = {:e}, w = {:?}", sum, w));

    // decision function == kernel expansion, predict == sign rule (training rows + fresh rows)
    let ev = cfg.x.vstack(&cfg.fresh);
    let evm: DM = to_dense(&ev);
    let dec = match c.must("svc.decision_function", || model.decision_function(&evm)) {
        Some(Ok(d)) => d,
        Some(Err(e)) => {
            c.check("svc.decision_function-ok", false, &sg, || format!("Err({})", e));
            return log;
        }
        None => return log,
    };
    let pred = match c.must("svc.predict", || model.predict(&evm)) {
        Some(Ok(d)) => d,
        Some(Err(e)) => {
            c.check("svc.predict-ok", false, &sg, || format!("Err({})", e));
            return log;
        }
        None => return log,
    };
    if !c.check("svc.output-length", dec.len() == ev.r && pred.len() == ev.r, &sg, || format!("{} decision values, {} labels for {} rows", dec.len(), pred.len(), ev.r)) {
        return log;
    }
    sequence_checks(c, "svc", &sg, &model, &evm, &pred, |m, q| m.predict(q));
    sequence_checks(c, "svc.decision_function", &sg, &model, &evm, &dec, |m, q| m.decision_function(q));
    let mut worst = 0.0f64;
    let mut at = 0usize;
    let mut refat = 0.0;
    for j in 0..ev.r {
        let (rf, sc) = expansion(&cfg.k, &inst, &w, b, &ev.row(j));
        let d = rel_dev(dec[j], rf, sc);
        if d > worst || (d.is_nan() && !worst.is_nan()) {
            worst = d;
            at = j;
            refat = rf;
        }
    }
    c.ratio("svc.decision=expansion", worst, 1e-9, &sg, || format!("row {}: decision_function = {:e}, Σ w_i·K(sv_i,x) + b = {:e} (b = {:e}, {} support vectors)", at, dec[at], refat, b, w.len()));
    let mut bad: Option<usize> = None;
    for j in 0..ev.r {
        let exp = if dec[j] > 0.0 { cfg.hi } else { cfg.lo };
        if pred[j] != exp && bad.is_none() {
            bad = Some(j);
        }
    }
    c.check("svc.predict=sign", bad.is_none(), &sg, || {
        let j = bad.unwrap_or(0);
        format!("row {}: decision value {:e}, predicted label {} (classes: smaller {}, larger {})", j, dec[j], pred[j], cfg.lo, cfg.hi)
    });

    // coverage
    if w.iter().any(|v| *v != 0.0) {
        c.nontrivial();
    }
    c.bucket_if(w.is_empty(), "svc:no-support-vectors");
    c.bucket_if(w.iter().any(|v| *v == 0.0), "svc:zero-weight-sv-kept");
    c.bucket_if(w.iter().any(|v| v.abs() >= cfg.c * (1.0 - 1e-12)), "svc:sv-at-bound");
    c.bucket_if(w.iter().any(|v| *v != 0.0 && v.abs() < cfg.c * (1.0 - 1e-12)), "svc:free-sv");
    c.bucket_if(b.abs() > 1e300, "svc:bias-is-sentinel");
    c.bucket_if(dec.iter().any(|d| *d == 0.0), "svc:decision-value-exactly-zero");
    c.bucket_if((0..n).any(|j| (dec[j] > 0.0) != (ys[j] > 0.0)), "svc:misclassifies-a-training-row");
    c.bucket_if((0..n).all(|j| (dec[j] > 0.0) == (ys[j] > 0.0)), "svc:fits-training-set");
    c.bucket_if(used > 10 * (cfg.epoch as u64) * n as u64, "svc:many-reprocess-steps");
    log
}

fn svc_buckets(c: &mut Case, cfg: &SvcCfg) {
    c.bucket(&format!("svc:kernel:{}{}", cfg.k.name(), if cfg.k.psd() { "" } else { "(not-psd)" }));
    c.bucket(&format!("svc:labels:{}", cfg.labels));
    c.bucket(&format!("svc:style:{}", cfg.style));
    c.bucket(&format!("svc:epoch:{}", cfg.epoch));
    c.bucket(&format!("svc:{}", n_class(cfg.x.r)));
    c.bucket_if(cfg.dup, "svc:duplicate-rows");
}

/// random data sets (shared by FITS_PER_DATASET consecutive indices), random forced schedules
fn svc(c: &mut Case) {
    let mut dr = Rng::for_case(c.seed, "C10", "svc/data", c.index / FITS_PER_DATASET);
    let n = draw_n(&mut dr);
    let epoch = dr.us(1, 4);
    let kind = draw_svc_kind(&mut dr);
    let cfg = gen_svc_cfg(&mut dr, n, epoch, kind);
    let orders: Vec<Vec<usize>> = (0..epoch + 1).map(|_| c.rng.perm(n)).collect();
    c.describe(json!({"what": "SVC fit with forced visiting orders (initialize, then one per epoch)", "data_set": c.index / FITS_PER_DATASET,
        "config": cfg.json(), "orders": orders}));
    svc_buckets(c, &cfg);
    with_kernel!(&cfg.k, svc_fit_check(c, &cfg, Some(&orders), SVC_BUDGET, ""));
}

/// the trainer's own (unseeded) RNG draws the schedule; it is recorded, not forced
fn svc_unforced(c: &mut Case) {
    let n = draw_n(&mut c.rng);
    let epoch = c.rng.us(1, 4);
    let kind = draw_svc_kind(&mut c.rng);
    let cfg = gen_svc_cfg(&mut c.rng, n, epoch, kind);
    c.describe(json!({"what": "SVC fit, schedule drawn by the library", "config": cfg.json()}));
    svc_buckets(c, &cfg);
    let log = with_kernel!(&cfg.k, svc_fit_check(c, &cfg, None, SVC_BUDGET, ""));
    c.describe(json!({"what": "SVC fit, schedule drawn by the library (recorded; force it through svc_force_orders to reproduce)", "config": cfg.json(), "orders": log}));
    let ok = log.len() == epoch + 1 && log.iter().all(|o| {
        let mut s = o.clone();
        s.sort();
        s == (0..n).collect::<Vec<_>>()
    });
    // harness self-check of the hook (not an oracle of the property)
    if c.violations.is_empty() && c.status == runner::Status::Held && !ok {
        c.inconclusive("the recorded visiting orders are not epoch+1 permutations of 0..n (hook or call sequence changed)");
    }
}

/// exhaustive enumeration of all (n!)^(epoch+1) visiting-order sequences on ENUM_CONFIGS fixed (per seed)
/// data sets of n rows
const ENUM_CONFIGS: usize = 6;

fn svc_enum(c: &mut Case, n: usize, epoch: usize) {
    let nf = factorial(n);
    let full = nf.pow(epoch as u32 + 1);
    let mut dr = Rng::for_case(c.seed, "C10", "svc_enum/data", (n * 10 + epoch) as u64);
    let cfgs: Vec<SvcCfg> = (0..ENUM_CONFIGS).map(|s| gen_svc_cfg(&mut dr, n, epoch, [0, 1, 0, 2, 3, 4][s % 6])).collect();
    // index -> tuple of permutations (mixed radix, base n!); sampled when the run does not cover the space
    let code: Vec<u64> = if c.total == full {
        let mut k = c.index;
        (0..epoch + 1).map(|_| { let d = k % nf; k /= nf; d }).collect()
    } else {
        (0..epoch + 1).map(|_| c.rng.next_u64() % nf).collect()
    };
    let orders: Vec<Vec<usize>> = code.iter().map(|k| nth_perm(n, *k)).collect();
    c.describe(json!({"what": "SVC fits with an enumerated tuple of visiting orders", "n": n, "epoch": epoch, "orders": orders, "order_codes": code,
        "exhaustive": c.total == full, "configs": cfgs.iter().map(|g| g.json()).collect::<Vec<_>>()}));
    c.bucket(&format!("svc-enum:n={},epoch={}", n, epoch));
    let tag = format!("enum-n{}/", n);
    for cfg in &cfgs {
        with_kernel!(&cfg.k, svc_fit_check(c, cfg, Some(&orders), ENUM_BUDGET, &tag));
    }
}

fn svc_enum_n4_e1(c: &mut Case) {
    svc_enum(c, 4, 1)
}
fn svc_enum_n4_e2(c: &mut Case) {
    svc_enum(c, 4, 2)
}
fn svc_enum_n5_e1(c: &mut Case) {
    svc_enum(c, 5, 1)
}
fn svc_enum_n5_e2(c: &mut Case) {
    svc_enum(c, 5, 2)
}
fn svc_enum_n6_e1(c: &mut Case) {
    svc_enum(c, 6, 1)
}

// ---------------------------------------------------------------------------------------------- SVR

struct SvrCfg {
    x: Mat,
    y: Vec<f64>,
    fresh: Mat,
    k: KSpec,
    c: f64,
    tol: f64,
    eps: f64,
    style: &'static str,
    dup: bool,
    /// cap on the SMO steps of one fit (SVR_CAP; the long-fit family allows far more)
    step_cap: u64,
}

impl SvrCfg {
    fn json(&self) -> Value {
        json!({"X": mat_json(&self.x), "y": self.y, "fresh": mat_json(&self.fresh), "kernel": self.k.json(),
               "C": self.c, "tol": self.tol, "eps": self.eps, "style": self.style})
    }
    fn sig(&self) -> String {
        format!("{}{}", self.k.name(), if self.dup { "/dup-rows" } else { "" })
    }
}

fn gen_svr_cfg(r: &mut Rng, kind: usize, force_dup: bool) -> SvrCfg {
    let n = draw_n(r);
    let p = r.us(1, 5);
    let style = *r.pick(&["linear+noise", "linear+noise", "sine", "noise", "lattice", "outliers", "constant"]);
    let xs = *r.pick(&[1.0, 1.0, 1.0, 0.3, 3.0]);
    let ysc = *r.pick(&[1.0, 1.0, 0.1, 10.0]);
    let row = |r: &mut Rng| -> Vec<f64> {
        if style == "lattice" {
            (0..p).map(|_| r.int(-2, 2) as f64).collect()
        } else {
            r.normal_vec(p).iter().map(|v| xs * v).collect()
        }
    };
    let mut rows: Vec<Vec<f64>> = (0..n).map(|_| row(r)).collect();
    let beta = r.normal_vec(p);
    let noise = r.logu(0.01, 1.0);
    let c0 = r.normal();
    let target = |r: &mut Rng, x: &[f64]| -> f64 {
        let lin = dotv(x, &beta) / xs;
        ysc * match style {
            "linear+noise" => c0 + lin + noise * r.normal(),
            "sine" => c0 + (1.5 * lin).sin() + 0.3 * noise * r.normal(),
            "noise" => r.normal(),
            "lattice" => (c0 + lin).round() + if r.bool(0.3) { r.int(-1, 1) as f64 } else { 0.0 },
            "outliers" => c0 + lin + if r.bool(0.15) { 5.0 * r.normal() } else { 0.05 * r.normal() },
            _ => c0,
        }
    };
    let mut y: Vec<f64> = rows.iter().map(|x| target(r, x)).collect();
    if force_dup || r.bool(0.1) {
        for _ in 0..r.us(1, 3) {
            let a = r.below(n);
            let b = r.below(n);
            if a != b {
                rows[b] = rows[a].clone();
                if r.bool(0.4) {
                    // a last-bit near-duplicate (the same point produced by two different computations): the
                    // curvature K11 + K22 - 2 K12 of such a pair is rounding noise of either sign
                    let j = r.below(rows[b].len());
                    let v = rows[b][j];
                    let bumped = f64::from_bits(if v == 0.0 { 1 } else if (v > 0.0) == r.bool(0.5) { v.to_bits() + 1 } else { v.to_bits() - 1 });
                    rows[b][j] = bumped;
                }
                if r.bool(0.5) {
                    y[b] = y[a];
                }
            }
        }
    }
    let mut dup = false;
    'o: for i in 0..n {
        for j in 0..i {
            if same_row(&rows[i], &rows[j]) {
                dup = true;
                break 'o;
            }
        }
    }
    let m = r.us(2, 5);
    let fresh_rows: Vec<Vec<f64>> = (0..m).map(|_| row(r)).collect();
    let k = gen_kernel(r, kind, p);
    let eps = if r.bool(0.15) { 0.0 } else if r.bool(0.15) { 0.5 } else { r.uni(0.0, 0.5) };
    SvrCfg {
        x: Mat::from_rows(&rows),
        y,
        fresh: Mat::from_rows(&fresh_rows),
        k,
        c: if r.bool(0.2) { *r.pick(&[0.1, 1.0, 10.0, 100.0]) } else { r.logu(0.1, 100.0) },
        tol: r.logu(1e-4, 1e-2),
        eps,
        style,
        dup,
        step_cap: SVR_CAP,
    }
}

/// smallest (over the assignments of the weights of a group of identical training rows to these rows)
/// largest KKT violation; returns per category (zero weight, free, at bound) the largest violation
/// of the best assignment and whether the category occurred
fn kkt_violation(w: f64, r: f64, cc: f64, eps: f64) -> (usize, f64) {
    if w == 0.0 {
        (0, (r.abs() - eps).max(0.0))
    } else {
        let s = if w > 0.0 { 1.0 } else { -1.0 };
        if w.abs() < cc * (1.0 - 1e-12) {
            (1, (s * r - eps).abs())
        } else {
            (2, (eps - s * r).max(0.0))
        }
    }
}

fn svr_fit_check<K: K64>(kern: K, c: &mut Case, cfg: &SvrCfg) {
    let idx = c.index;
    let sg = cfg.sig();
    let n = cfg.x.r;
    let psd = cfg.k.psd();
    let xm: DM = to_dense(&cfg.x);
    let params = SVRParameters::<f64, DM, LinearKernel>::default().with_eps(cfg.eps).with_c(cfg.c).with_tol(cfg.tol).with_kernel(kern);
    let kmax = cfg.x.rows().iter().map(|x| cfg.k.eval(x, x).0.abs()).fold(0.0f64, f64::max);
    let hardness = cfg.c * kmax / cfg.tol;
    let wanted = (SVR_HEADROOM * hardness).max(SVR_MIN_BUDGET as f64);
    let decidable = psd && wanted <= cfg.step_cap as f64;
    let budget = if !psd { NOT_PSD_SVR_BUDGET } else if decidable { wanted as u64 } else { cfg.step_cap };
    c.bucket_if(psd && !decidable, "svr:termination-undecidable-zone(200·C·maxK/tol > 5e6)");
    set_step_budget(budget);
    let r = if decidable {
        c.must("svr.fit", || SVR::fit(&xm, &cfg.y, scverif::reused(idx, params)))
    } else {
        // termination is only demanded for positive semi-definite kernels: a budget overrun is counted, not reported
        match guard(|| SVR::fit(&xm, &cfg.y, scverif::reused(idx, params))) {
            Ok(v) => {
                c.count("no-panic:svr.fit");
                Some(v)
            }
            Err(p) => {
                set_step_budget(u64::MAX);
                if p.in_harness() {
                    c.inconclusive(&format!("harness panic: {}", p.short()));
                } else if p.is_budget() && !psd {
                    c.bucket("svr:not-psd-kernel:step-budget-exhausted");
                    c.skip("SVR with a kernel that is not positive semi-definite did not stop within the step budget (termination not demanded)");
                } else if p.is_budget() {
                    c.bucket("svr:slow-convergence:step-cap-exhausted");
                    c.skip("SVR in the slow-convergence zone (200·C·maxK/tol > 5e6) did not stop within the 5e6-step cap; not decidable");
                } else {
                    c.count("no-panic:svr.fit");
                    c.violate("no-panic:svr.fit", &p.loc(), p.short());
                }
                return;
            }
        }
    };
    let used = steps();
    set_step_budget(u64::MAX);
    if std::env::var("C10_DEBUG").is_ok() {
        // recalibration aid for the budget rule: steps, n, kernel, C, tol, eps, max K(x,x)
        eprintln!("DEBUG {} {} {} {:e} {:e} {:e} {:e}", used, n, cfg.k.name(), cfg.c, cfg.tol, cfg.eps, kmax);
    }
    let model = match r {
        None => return,
        Some(Err(e)) => {
            c.check("svr.fit-ok", false, &sg, || format!("fit returned Err({})", e));
            return;
        }
        Some(Ok(m)) => {
            c.check("svr.fit-ok", true, &sg, String::new);
            m
        }
    };
    if decidable {
        c.ratio("steps/budget:svr", used as f64, budget as f64, &sg, String::new);
    }
    let js = match serde_json::to_value(&model) {
        Ok(v) => v,
        Err(e) => {
            c.inconclusive(&format!("model not serialisable: {}", e));
            return;
        }
    };
    let (inst, w) = match (rows_of(&js["instances"]), nums(&js["w"])) {
        (Some(a), Some(b)) => (a, b),
        _ => {
            c.inconclusive("unexpected JSON layout of SVR");
            return;
        }
    };
    let b = num(&js["b"]);
    if !c.check("svr.model-shape", inst.len() == w.len(), &sg, || format!("{} instances, {} weights", inst.len(), w.len())) {
        return;
    }
    // feasibility
    let wmax = w.iter().fold(0.0f64, |m, v| if v.is_nan() { f64::INFINITY } else { m.max(v.abs()) });
    c.ratio("svr.box", (wmax - cfg.c).max(0.0), 1e-12 * cfg.c, &sg, || format!("max |w_i| = {:e} > C = {:e}", wmax, cfg.c));
    let sum = csum(w.iter().cloned());
    c.ratio("svr.sum-zero", sum.abs(), 1e-9 * cfg.c * n as f64, &sg, || format!("Σw = {:e}", sum));

    // prediction == kernel expansion (training + fresh rows)
    let ev = cfg.x.vstack(&cfg.fresh);
    let evm: DM = to_dense(&ev);
    let pred = match c.must("svr.predict", || model.predict(&evm)) {
        Some(Ok(d)) => d,
        Some(Err(e)) => {
            c.check("svr.predict-ok", false, &sg, || format!("Err({})", e));
            return;
        }
        None => return,
    };
    if !c.check("svr.output-length", pred.len() == ev.r, &sg, || format!("{} predictions for {} rows", pred.len(), ev.r)) {
        return;
    }
    sequence_checks(c, "svr", &sg, &model, &evm, &pred, |m, q| m.predict(q));
    let mut fref = vec![0.0; ev.r];
    let mut fscale = 0.0f64;
    let mut worst = 0.0f64;
    let mut at = 0usize;
    for j in 0..ev.r {
        let (rf, sc) = expansion(&cfg.k, &inst, &w, b, &ev.row(j));
        fref[j] = rf;
        if j < n && sc > fscale {
            fscale = sc;
        }
        let d = rel_dev(pred[j], rf, sc);
        if d > worst {
            worst = d;
            at = j;
        }
    }
    c.ratio("svr.predict=expansion", worst, 1e-9, &sg, || format!("row {}: predict = {:e}, Σ w_i·K(sv_i,x) + b = {:e}", at, pred[at], fref[at]));

    // every instance is a training row; group identical training rows
    let rows = cfg.x.rows();
    let mut group_of: Vec<usize> = vec![usize::MAX; n]; // representative (first) row of the group
    for i in 0..n {
        for j in 0..=i {
            if same_row(&rows[i], &rows[j]) {
                group_of[i] = j;
                break;
            }
        }
    }
    let mut wg: Vec<Vec<f64>> = vec![Vec::new(); n]; // weights of the instances equal to group representative j
    let mut unmatched: Option<usize> = None;
    for (i, sv) in inst.iter().enumerate() {
        match (0..n).find(|&j| same_row(sv, &rows[j])) {
            Some(j) => wg[group_of[j]].push(w[i]),
            None => {
                if unmatched.is_none() {
                    unmatched = Some(i);
                }
            }
        }
    }
    let mut too_many: Option<usize> = None;
    for j in 0..n {
        let size = (0..n).filter(|&i| group_of[i] == j).count();
        if wg[j].len() > size && too_many.is_none() {
            too_many = Some(j);
        }
    }
    let matched = c.check("svr.instances-are-training-rows", unmatched.is_none() && too_many.is_none(), &sg, || match unmatched {
        Some(i) => format!("instance {} = {:?} equals no training row", i, inst[i]),
        None => format!("more instances equal training row {} than the training set has copies of it", too_many.unwrap_or(0)),
    });

    let n_inst = w.iter().filter(|v| **v != 0.0).count();
    if n_inst > 0 {
        c.nontrivial();
    }
    c.bucket_if(w.is_empty(), "svr:no-instances(all-in-tube)");
    c.bucket_if(w.iter().any(|v| v.abs() >= cfg.c * (1.0 - 1e-12)), "svr:weight-at-bound");
    c.bucket_if(w.iter().any(|v| *v != 0.0 && v.abs() < cfg.c * (1.0 - 1e-12)), "svr:free-weight");
    c.bucket_if(w.len() < n, "svr:zero-weight-rows");
    c.bucket_if(used == 0, "svr:zero-iterations");
    c.bucket_if(used > 1000, "svr:>1000-iterations");
    c.bucket_if(used > 100_000, "svr:>1e5-iterations");

    // epsilon-insensitive optimality at every training point (PSD kernels only)
    if !psd || !matched {
        return;
    }
    let ymax = cfg.y.iter().fold(0.0f64, |m, v| m.max(v.abs()));
    let delta = 1.0 * cfg.tol + 1e-9 * (ymax + cfg.eps + fscale);
    let res: Vec<f64> = (0..n).map(|j| cfg.y[j] - fref[j]).collect();
    let mut cat_worst = [0.0f64; 3];
    let mut cat_row = [usize::MAX; 3];
    let mut cat_w = [0.0f64; 3];
    for j in 0..n {
        if group_of[j] != j {
            continue;
        }
        let members: Vec<usize> = (0..n).filter(|&i| group_of[i] == j).collect();
        let mut ws = wg[j].clone();
        while ws.len() < members.len() {
            ws.push(0.0);
        }
        let d = members.len();
        if d > 6 {
            c.bucket("svr:kkt-skipped-for-a-group-of->6-identical-rows");
            continue;
        }
        // best assignment of the weights to the identical rows
        let mut best: Option<(f64, Vec<(usize, f64, usize, f64)>)> = None;
        for perm in all_perms(d) {
            let mut mx = 0.0f64;
            let mut items = Vec::with_capacity(d);
            for t in 0..d {
                let (cat, v) = kkt_violation(ws[perm[t]], res[members[t]], cfg.c, cfg.eps);
                let v = if v.is_nan() { f64::INFINITY } else { v };
                mx = mx.max(v);
                items.push((cat, v, members[t], ws[perm[t]]));
            }
            if best.as_ref().map(|b| mx < b.0).unwrap_or(true) {
                best = Some((mx, items));
            }
            if mx == 0.0 {
                break;
            }
        }
        if let Some((_, items)) = best {
            for (cat, v, row, wv) in items {
                if cat_row[cat] == usize::MAX || v > cat_worst[cat] {
                    cat_worst[cat] = v;
                    cat_row[cat] = row;
                    cat_w[cat] = wv;
                }
            }
        }
    }
    let names = ["svr.kkt.zero-weight-inside-tube", "svr.kkt.free-weight-on-boundary", "svr.kkt.bound-weight-on-or-outside"];
    for cat in 0..3 {
        if cat_row[cat] != usize::MAX {
            let j = cat_row[cat];
            c.ratio(names[cat], cat_worst[cat], delta, &sg, || {
                format!("training row {}: w = {:e}, residual y − f(x) = {:e}, eps = {:e}, C = {:e}, tol = {:e} ({} SMO steps)", j, cat_w[cat], res[j], cfg.eps, cfg.c, cfg.tol, used)
            });
        }
    }
}

fn svr_buckets(c: &mut Case, cfg: &SvrCfg) {
    c.bucket(&format!("svr:kernel:{}", cfg.k.name()));
    c.bucket(&format!("svr:style:{}", cfg.style));
    c.bucket(&format!("svr:{}", n_class(cfg.x.r)));
    c.bucket_if(cfg.dup, "svr:duplicate-rows");
    c.bucket_if(cfg.eps == 0.0, "svr:eps=0");
}

fn svr(c: &mut Case) {
    let kind = *c.rng.pick(&[0, 0, 1, 1, 2, 2]);
    let force_dup = c.rng.bool(0.1);
    let cfg = gen_svr_cfg(&mut c.rng, kind, force_dup);
    c.describe(json!({"what": "SVR fit (PSD kernel): feasibility, expansion, KKT, termination", "config": cfg.json()}));
    svr_buckets(c, &cfg);
    with_kernel!(&cfg.k, svr_fit_check(c, &cfg));
}

/// Fits that need tens of millions of SMO steps (minutes in a debug build, ~10 s here): a cubic polynomial kernel on
/// 48..66 rows x 5 features in [-2, 2], C = 100, tol = 1e-4, eps = 0 — slowly converging but perfectly ordinary
/// in-scope problems. They run under a cap of 3e8 steps; a fit that stops has to satisfy the optimality conditions
/// like any other (an internal iteration limit that silently returns the current iterate shows here).
fn svr_long(c: &mut Case) {
    // the cubic feature space of 5 features has 56 dimensions: around n = 56 rows the dual problem is at its hardest
    let n = c.rng.us(48, 66);
    let p = 5;
    let rows: Vec<Vec<f64>> = (0..n).map(|_| (0..p).map(|_| c.rng.uni(-2.0, 2.0)).collect()).collect();
    let y: Vec<f64> = rows.iter().map(|r| r.iter().sum::<f64>() + 0.5 * c.rng.uni(-1.0, 1.0)).collect();
    let fresh: Vec<Vec<f64>> = (0..3).map(|_| (0..p).map(|_| c.rng.uni(-2.0, 2.0)).collect()).collect();
    let cfg = SvrCfg { x: Mat::from_rows(&rows), y, fresh: Mat::from_rows(&fresh), k: KSpec::Poly { d: 3.0, g: 1.0, c0: 1.0 }, c: 100.0, tol: 1e-4, eps: 0.0, style: "long-fit", dup: false, step_cap: 300_000_000 };
    c.describe(json!({"what": "SVR fit needing tens of millions of SMO steps: feasibility, expansion, KKT", "config": cfg.json()}));
    svr_buckets(c, &cfg);
    c.bucket("svr:long-fit(cap 3e8 steps)");
    with_kernel!(&cfg.k, svr_fit_check(c, &cfg));
}

/// SVR on 1100..1600 rows with a noisy target (most rows become support vectors): beyond the ordinary bound of 80 rows
fn svr_large(c: &mut Case) {
    let n = c.rng.us(1100, 1600);
    let p = c.rng.us(1, 3);
    let rows: Vec<Vec<f64>> = (0..n).map(|_| (0..p).map(|_| c.rng.uni(-2.0, 2.0)).collect()).collect();
    let y: Vec<f64> = rows.iter().map(|r| r.iter().map(|v| v.sin()).sum::<f64>() + c.rng.normal()).collect();
    let fresh: Vec<Vec<f64>> = (0..3).map(|_| (0..p).map(|_| c.rng.uni(-2.0, 2.0)).collect()).collect();
    let k = if c.rng.bool(0.5) { KSpec::Rbf(c.rng.logu(0.2, 2.0)) } else { KSpec::Linear };
    let cfg = SvrCfg { x: Mat::from_rows(&rows), y, fresh: Mat::from_rows(&fresh), k, c: c.rng.logu(0.5, 5.0), tol: 1e-3, eps: c.rng.uni(0.05, 0.3), style: "large", dup: false, step_cap: 300_000_000 };
    c.describe(json!({"what": "SVR fit on more than a thousand rows: feasibility, expansion, KKT", "rows": n, "features": p, "kernel": format!("{:?}", cfg.k.json()), "C": cfg.c, "eps": cfg.eps}));
    svr_buckets(c, &cfg);
    c.bucket("svr:large(1100..1600 rows)");
    with_kernel!(&cfg.k, svr_fit_check(c, &cfg));
}

/// linear / polynomial SVR on data with forced (near-)duplicate rows and parameters in the zone where the
/// step budget is assertable (C <= 10, tol >= 1e-3): termination must not depend on the sign of the
/// rounding-noise curvature of a near-duplicate pair
fn svr_near_dup(c: &mut Case) {
    let kind = *c.rng.pick(&[0, 0, 2]);
    let mut cfg = gen_svr_cfg(&mut c.rng, kind, true);
    cfg.c = c.rng.logu(0.1, 10.0);
    cfg.tol = c.rng.logu(1e-3, 1e-2);
    c.describe(json!({"what": "SVR fit with (near-)duplicate rows: termination, feasibility, KKT", "config": cfg.json()}));
    svr_buckets(c, &cfg);
    with_kernel!(&cfg.k, svr_fit_check(c, &cfg));
}

/// kernels that are not PSD (sigmoid, polynomial with negative coef0): feasibility and expansion only,
/// under a step budget whose exhaustion is counted as skipped
fn svr_not_psd(c: &mut Case) {
    let kind = *c.rng.pick(&[3, 3, 4]);
    let cfg = gen_svr_cfg(&mut c.rng, kind, false);
    c.describe(json!({"what": "SVR fit (kernel not PSD): feasibility and expansion only", "config": cfg.json()}));
    svr_buckets(c, &cfg);
    with_kernel!(&cfg.k, svr_fit_check(c, &cfg));
}

// ------------------------------------------------------------------------------------------ kernels

fn apply_k<K: K64>(kern: K, a: &Vec<f64>, b: &Vec<f64>) -> f64 {
    kern.apply(a, b)
}

fn draw_points(r: &mut Rng, n: usize, p: usize) -> Vec<Vec<f64>> {
    let style = r.below(4);
    let s = if r.bool(0.5) { 1.0 } else { r.logu(1e-3, 1e3) };
    let mut pts: Vec<Vec<f64>> = (0..n)
        .map(|_| match style {
            0 => r.normal_vec(p).iter().map(|v| s * v).collect(),
            1 => (0..p).map(|_| r.int(-3, 3) as f64).collect(),
            2 => (0..p).map(|_| s * r.uni(0.0, 1.0)).collect(),
            _ => (0..p).map(|_| if r.bool(0.4) { 0.0 } else { s * r.normal() }).collect(),
        })
        .collect();
    // rows far from the origin relative to their mutual distances (a common large offset per coordinate):
    // kernels must be evaluated from coordinate differences / exact dot products, not from expanded norms
    if r.bool(0.2) {
        let off: Vec<f64> = (0..p).map(|_| r.logu(1e2, 1e7) * if r.bool(0.5) { 1.0 } else { -1.0 }).collect();
        for pt in pts.iter_mut() {
            for j in 0..p {
                pt[j] += off[j];
            }
        }
    }
    // exact and near duplicates
    if n > 1 && r.bool(0.3) {
        let a = r.below(n);
        let b = r.below(n);
        if a != b {
            pts[b] = pts[a].clone();
            if r.bool(0.5) {
                let j = r.below(p);
                pts[b][j] += s * 1e-9;
            }
        }
    }
    pts
}

fn kernels(c: &mut Case) {
    let p = c.rng.us(1, 5);
    let kind = c.rng.below(5);
    let k = match kind {
        0 => KSpec::Linear,
        1 => KSpec::Rbf(c.rng.logu(1e-3, 1e2)),
        2 => KSpec::Poly { d: c.rng.us(1, 5) as f64, g: c.rng.logu(0.01, 10.0), c0: if c.rng.bool(0.3) { 0.0 } else { c.rng.uni(-2.0, 2.0) } },
        3 => KSpec::Poly { d: (c.rng.uni(0.5, 4.0) * 4.0).round() / 4.0, g: c.rng.logu(0.01, 10.0), c0: c.rng.uni(0.0, 3.0) },
        _ => KSpec::Sigmoid { g: c.rng.logu(1e-3, 10.0), c0: c.rng.uni(-2.0, 2.0) },
    };
    let pts = draw_points(&mut c.rng, 4, p);
    c.describe(json!({"what": "Kernel::apply vs closed form, symmetry", "kernel": k.json(), "points": pts}));
    c.nontrivial();
    c.bucket(&format!("kernel:{}", k.name()));
    let sg = k.name().to_string();
    let mut worst = 0.0f64;
    let mut wat = (0usize, 0usize, 0.0, 0.0);
    let mut asym: Option<(usize, usize, f64, f64)> = None;
    for i in 0..pts.len() {
        for j in 0..pts.len() {
            let (a, b) = (&pts[i], &pts[j]);
            let kab = match c.must("kernel.apply", || with_kernel!(&k, apply_k(a, b))) {
                Some(v) => v,
                None => return,
            };
            let kba = match c.must("kernel.apply", || with_kernel!(&k, apply_k(b, a))) {
                Some(v) => v,
                None => return,
            };
            let (rf, sc) = k.eval(a, b);
            if rf.is_nan() {
                // closed form undefined (negative base, fractional degree): nothing to compare
                c.bucket("kernel:closed-form-undefined(NaN)");
            } else {
                let d = rel_dev(kab, rf, sc);
                if d > worst {
                    worst = d;
                    wat = (i, j, kab, rf);
                }
            }
            if !(kab == kba || (kab.is_nan() && kba.is_nan())) && asym.is_none() {
                asym = Some((i, j, kab, kba));
            }
        }
    }
    c.ratio("kernel.closed-form", worst, 1e-12, &sg, || format!("K(p{}, p{}) = {:e}, closed form {:e}", wat.0, wat.1, wat.2, wat.3));
    c.check("kernel.symmetric", asym.is_none(), &sg, || {
        let a = asym.unwrap_or((0, 0, 0.0, 0.0));
        format!("K(p{}, p{}) = {:e} but K(p{}, p{}) = {:e}", a.0, a.1, a.2, a.1, a.0, a.3)
    });
}

fn gram(c: &mut Case) {
    let p = c.rng.us(1, 5);
    let n = c.rng.us(2, if c.tier.thorough() { 40 } else { 25 });
    let k = if c.rng.bool(0.5) { KSpec::Linear } else { KSpec::Rbf(c.rng.logu(1e-3, 1e2)) };
    let pts = draw_points(&mut c.rng, n, p);
    c.describe(json!({"what": "Gram matrix of Kernel::apply is symmetric PSD", "kernel": k.json(), "points": pts}));
    c.nontrivial();
    c.bucket(&format!("gram:{}", k.name()));
    c.bucket_if(n > p, "gram:rank-deficient(n>p)");
    let sg = k.name().to_string();
    let g = match c.must("kernel.apply", || Mat::from_fn(n, n, |i, j| with_kernel!(&k, apply_k(&pts[i], &pts[j])))) {
        Some(g) => g,
        None => return,
    };
    if !c.check("gram.finite", g.all_finite(), &sg, || "non-finite Gram entry".to_string()) {
        return;
    }
    let symm = (0..n).all(|i| (0..i).all(|j| g.at(i, j) == g.at(j, i)));
    c.check("gram.symmetric", symm, &sg, || "Gram matrix not exactly symmetric".to_string());
    let (lam, v) = jacobi_eig(&g);
    // certify the reference: residual of the smallest eigenpair
    let vmin: Vec<f64> = (0..n).map(|i| v.at(i, n - 1)).collect();
    let gv = g.mulv(&vmin);
    let resid = norm2v(&(0..n).map(|i| gv[i] - lam[n - 1] * vmin[i]).collect::<Vec<_>>());
    let tr = csum((0..n).map(|i| g.at(i, i)));
    if !(resid <= 1e-11 * g.fro().max(f64::MIN_POSITIVE)) || !((norm2v(&vmin) - 1.0).abs() < 1e-9) {
        c.inconclusive("reference Jacobi eigen-solver did not certify its smallest eigenpair");
        return;
    }
    c.ratio("gram.psd", (-lam[n - 1]).max(0.0), 1e-10 * tr, &sg, || format!("smallest eigenvalue {:e}, trace {:e}", lam[n - 1], tr));
}

/// parameter builders keep every configured value whatever the order of the `with_*` steps
fn builders_fam(c: &mut Case) {
    scverif::builders::case(c, "C10")
}

/// the uniform api traits (Predictor / SupervisedEstimator / UnsupervisedEstimator / Transformer) behave
/// exactly like the inherent methods
fn api_paths_fam(c: &mut Case) {
    scverif::apipaths::case(c, "C10")
}

fn main() {
    let f4 = factorial(4);
    let f5 = factorial(5);
    let f6 = factorial(6);
    runner::main(Spec {
        property: "C10",
        rule: "svc / svc_unforced: one SVC fit per case (f64, DenseMatrix) on a seeded two-class data set of 4..80 rows, 1..5 features (separable / overlapping blobs, random labels, integer lattice, 15 % with exact duplicate rows incl. conflicting labels, imbalance down to 1 row per class), labels {-1,1} or another pair, C in [0.1,100], epoch 1..4, tol in [1e-4,1e-2], kernel linear / RBF / polynomial (degree 1..4, also coef0 < 0) / sigmoid; in `svc` 20 consecutive indices share the data set and differ in the forced visiting orders (epoch+1 permutations drawn from the case RNG and queued through the hook; the log must equal them), in `svc_unforced` the library's own RNG draws the schedule and the log is recorded; svc_enum_nN_eE: index enumerates all (N!)^(E+1) order tuples (mixed radix, lexicographic permutations) on 6 fixed-per-seed data sets of N rows (exhaustive when the tier runs the whole space, otherwise a seeded sample); an SVC case is non-trivial when the fitted model has a non-zero dual coefficient. svr: one SVR fit with a PSD kernel (linear, RBF, polynomial integer degree 1..3, coef0 >= 0) on 4..80 rows (linear / sine / noise / lattice / outlier / constant targets, scales 0.1..10, duplicates), eps in [0,0.5] incl. 0, non-trivial when at least one weight is non-zero; svr_not_psd: sigmoid / negative-coef0 polynomial, feasibility and expansion only. kernels / gram: always non-trivial. distinct = distinct hash of the description (data, parameters, schedule); svr_large: 1100..1600 rows, 1..3 features, noisy target, linear / RBF; parameter objects are passed to fit as clones in every second case",
        assumptions: vec![
            "f64 and DenseMatrix only (backend equivalence is C20)",
            "SVC schedules are forced through the verif hook (replayable); the unforced path is exercised by svc_unforced whose schedule is recorded but cannot be replayed bit-for-bit",
            "non-termination is restated as a logical step budget. SVC: 1e6 reprocess steps per fit (worst fit on the unchanged tree: 1506). SVR: 200·C·max_i K(x_i,x_i)/tol steps (>= 1e5; worst observed steps/(C·maxK/tol) on 60 000 fits: 4.0); where that exceeds 5e6 the fit runs under a 5e6 cap and an overrun is skipped, not reported (all such fits of the unchanged tree terminate when given up to 1.7e8 steps)",
            "SVR KKT slack = 1.0*tol (theoretical bound of the stopping rule: tol/2) + 1e-9*(max|y| + eps + |b| + max_x Σ|w_i K(sv_i,x)|); weights within 1e-12*C of ±C are treated as 'at bound' (the weaker condition)",
            "SVR optimality and termination are only demanded for PSD kernels; for the others a budget overrun is counted as skipped",
            "support vectors are matched to training rows by exact equality; with duplicate rows any assignment that satisfies the conditions is accepted",
            "kernel closed forms: |K - ref| <= 1e-12 * first-order error scale of the closed form (Σ|a_i b_i| for the inner product propagated through the outer function)",
        ],
        families: vec![
            Family::new("api_paths", 300, 3000, api_paths_fam),
            Family::new("builders", 300, 3000, builders_fam),
            Family::new("svc", 8000, 300000, svc),
            Family::new("svc_unforced", 1000, 30000, svc_unforced),
            Family::new("svc_enum_n4_e1", f4 * f4, f4 * f4, svc_enum_n4_e1).exhaustive(true, true),
            Family::new("svc_enum_n4_e2", f4 * f4 * f4, f4 * f4 * f4, svc_enum_n4_e2).exhaustive(true, true),
            Family::new("svc_enum_n5_e1", f5 * f5, f5 * f5, svc_enum_n5_e1).exhaustive(true, true),
            Family::new("svc_enum_n5_e2", 4000, f5 * f5 * f5, svc_enum_n5_e2).exhaustive(false, true),
            Family::new("svc_enum_n6_e1", 4000, f6 * f6, svc_enum_n6_e1).exhaustive(false, true),
            Family::new("svr", 3000, 150000, svr),
            Family::new("svr_long", 3, 12, svr_long),
            Family::new("svr_large", 32, 480, svr_large),
            Family::new("svr_near_dup", 1500, 40000, svr_near_dup),
            Family::new("svr_not_psd", 400, 10000, svr_not_psd),
            Family::new("kernels", 3000, 80000, kernels),
            Family::new("gram", 1500, 30000, gram),
        ],
        min_nontrivial: 6000,
        case_timeout_s: 120,
    });
}
