//! C08 — Lasso and elastic net terminate near the optimum of their stated objective.
//!
//! Reference: the harness's own cyclic coordinate descent on the *stated* objective
//!   F(w) = ‖y − ȳ − Z·w‖² + n·α·(1−ρ)·‖w‖² + n·α·ρ·‖w‖₁      (ρ = 1 for Lasso)
//! (Z = columns standardised with the population standard deviation when normalisation is on, the raw
//! columns otherwise), polished by an exact solve on the support CD found and certified by a
//! duality gap: F* lies in [G, P] with P − G ≤ 1e-12·P + 1e-13·‖y−ȳ‖². The certificate does not depend
//! on how the point was found. If it cannot be reached the case is inconclusive.
#![allow(non_snake_case)]
use scverif::gen::*;
use scverif::refla::*;
use scverif::*;
use smartcore::linalg::naive::dense_matrix::DenseMatrix;
use smartcore::linear::elastic_net::{ElasticNet, ElasticNetParameters};
use smartcore::linear::lasso::{Lasso, LassoParameters};

const BUDGET: u64 = 5_000_000;
const EPS: f64 = f64::EPSILON;

// ------------------------------------------------------------------------------------------------
// reference problem and solver
// ------------------------------------------------------------------------------------------------

/// The stated objective for one (X, y, normalize, α, ρ).
struct Prob {
    z: Mat,          // n×p, the columns the objective is stated in
    r: Vec<f64>,     // y − ȳ
    ybar: f64,
    means: Vec<f64>, // column means used for standardisation (0 when raw)
    stds: Vec<f64>,  // column population std (1 when raw)
    l1: f64,         // n·α·ρ
    l2: f64,         // n·α·(1−ρ)
    n: usize,
    p: usize,
    rr: f64,         // ‖y − ȳ‖²
    cols: Vec<Vec<f64>>,
    cn: Vec<f64>, // ‖z_j‖²
    smin: f64,    // smallest singular value of Z (reference Jacobi SVD)
    smax: f64,
}

/// dot product with error-free products (fma) accumulated by the compensated sum: as if computed in
/// twice the working precision, so that residuals of ill-scaled raw designs keep their digits
fn dot2(a: &[f64], b: &[f64]) -> f64 {
    csum(a.iter().zip(b.iter()).flat_map(|(x, y)| {
        let p = x * y;
        let e = x.mul_add(*y, -p);
        std::iter::once(p).chain(std::iter::once(e))
    }))
}

fn standardise(x: &Mat, normalize: bool) -> (Mat, Vec<f64>, Vec<f64>) {
    let p = x.c;
    if !normalize {
        return (x.clone(), vec![0.0; p], vec![1.0; p]);
    }
    let means: Vec<f64> = (0..p).map(|j| mean_v(&x.col(j))).collect();
    let stds: Vec<f64> = (0..p).map(|j| var_pop(&x.col(j)).max(0.0).sqrt()).collect();
    let z = Mat::from_fn(x.r, p, |i, j| (x.at(i, j) - means[j]) / stds[j]);
    (z, means, stds)
}

impl Prob {
    fn new(x: &Mat, y: &[f64], normalize: bool, alpha: f64, rho: f64) -> Prob {
        let (n, p) = (x.r, x.c);
        let (z, means, stds) = standardise(x, normalize);
        let ybar = mean_v(y);
        let r: Vec<f64> = y.iter().map(|v| v - ybar).collect();
        let rr = dotv(&r, &r);
        let cols: Vec<Vec<f64>> = (0..p).map(|j| z.col(j)).collect();
        let cn: Vec<f64> = cols.iter().map(|c| dotv(c, c)).collect();
        let nf = n as f64;
        let sv = singular_values(&z);
        let (smax, smin) = (sv[0], sv[p - 1]);
        Prob { z, r, ybar, means, stds, l1: nf * alpha * rho, l2: nf * alpha * (1.0 - rho), n, p, rr, cols, cn, smin, smax }
    }

    /// r − Z·w
    fn resid(&self, w: &[f64]) -> Vec<f64> {
        let nw: Vec<f64> = w.iter().map(|v| -v).collect();
        (0..self.n)
            .map(|i| {
                let row = &self.z.d[i * self.p..(i + 1) * self.p];
                csum(
                    row.iter()
                        .zip(nw.iter())
                        .flat_map(|(x, y)| {
                            let p = x * y;
                            std::iter::once(p).chain(std::iter::once(x.mul_add(*y, -p)))
                        })
                        .chain(std::iter::once(self.r[i])),
                )
            })
            .collect()
    }

    fn primal(&self, w: &[f64]) -> f64 {
        let e = self.resid(w);
        dot2(&e, &e) + self.l2 * dot2(w, w) + self.l1 * csum(w.iter().map(|v| v.abs()))
    }

    /// Dual value of the (augmented) l1-regularised least-squares problem at the dual point obtained
    /// from `w` by scaling ν = 2(Z̃w − r̃) into the feasible set ‖Z̃ᵀν‖∞ ≤ l1:  G = −¼‖ν‖² − νᵀr̃ ≤ F*.
    fn dual(&self, w: &[f64]) -> f64 {
        let e = self.resid(w);
        let g: Vec<f64> = (0..self.p).map(|j| 2.0 * (self.l2 * w[j] - dot2(&self.cols[j], &e))).collect();
        let gmax = g.iter().fold(0.0f64, |m, v| m.max(v.abs()));
        let q = dot2(&e, &e) + self.l2 * dot2(w, w);
        let s = if gmax > self.l1 { self.l1 / gmax } else { 1.0 };
        -s * s * q + 2.0 * s * dot2(&e, &self.r)
    }

    fn cert_tol(&self, pval: f64) -> f64 {
        1e-12 * pval + 1e-13 * self.rr
    }

    /// `sweeps` cyclic coordinate-descent sweeps starting from `w`
    fn cd(&self, w: &mut Vec<f64>, sweeps: usize) {
        let mut e = self.resid(w);
        for _ in 0..sweeps {
            let mut moved = false;
            for j in 0..self.p {
                let zj = &self.cols[j];
                let rho = dotv(zj, &e) + self.cn[j] * w[j];
                let t = self.l1 / 2.0;
                let st = if rho > t {
                    rho - t
                } else if rho < -t {
                    rho + t
                } else {
                    0.0
                };
                let new = st / (self.cn[j] + self.l2);
                if new != w[j] {
                    let d = new - w[j];
                    for i in 0..self.n {
                        e[i] -= d * zj[i];
                    }
                    w[j] = new;
                    moved = true;
                }
            }
            if !moved {
                break;
            }
        }
    }

    /// exact stationary point for a given sign pattern (0 = coordinate fixed at zero)
    fn solve_pattern(&self, sg: &[i8]) -> Option<Vec<f64>> {
        let act: Vec<usize> = (0..self.p).filter(|&j| sg[j] != 0).collect();
        let k = act.len();
        let mut w = vec![0.0; self.p];
        if k == 0 {
            return Some(w);
        }
        let a = Mat::from_fn(k, k, |a, b| dotv(&self.cols[act[a]], &self.cols[act[b]]) + if a == b { self.l2 } else { 0.0 });
        let b = Mat::from_fn(k, 1, |a, _| dotv(&self.cols[act[a]], &self.r) - 0.5 * self.l1 * sg[act[a]] as f64);
        let mut v = solve(&a, &b)?;
        for (a, &j) in act.iter().enumerate() {
            w[j] = v.at(a, 0);
        }
        // iterative refinement with the stationarity residual evaluated from Z itself (not from the
        // rounded Gram matrix) in compensated arithmetic
        for _ in 0..3 {
            let e = self.resid(&w);
            let g = Mat::from_fn(k, 1, |a, _| dot2(&self.cols[act[a]], &e) - self.l2 * w[act[a]] - 0.5 * self.l1 * sg[act[a]] as f64);
            match solve(&a, &g) {
                Some(dv) => {
                    for (a, &j) in act.iter().enumerate() {
                        v.set(a, 0, v.at(a, 0) + dv.at(a, 0));
                        w[j] = v.at(a, 0);
                    }
                }
                None => break,
            }
        }
        if w.iter().all(|x| x.is_finite()) {
            Some(w)
        } else {
            None
        }
    }

    fn gap(&self, w: &[f64]) -> (f64, f64) {
        (self.primal(w), self.dual(w))
    }
}

struct Reference {
    w: Vec<f64>,
    pval: f64, // certified upper bound of F*
    gval: f64, // certified lower bound of F*
    method: &'static str,
}

/// None when the certificate could not be reached
fn reference(pr: &Prob) -> Option<Reference> {
    let mut w = vec![0.0; pr.p];
    let mut best: Option<(Vec<f64>, f64, f64)> = None;
    let consider = |cand: &[f64], best: &mut Option<(Vec<f64>, f64, f64)>| -> bool {
        let (pv, gv) = pr.gap(cand);
        if !(pv.is_finite() && gv.is_finite()) {
            return false;
        }
        let better = match best {
            Some((_, bp, bg)) => pv - gv < *bp - *bg,
            None => true,
        };
        if better {
            *best = Some((cand.to_vec(), pv, gv));
        }
        pv - gv <= pr.cert_tol(pv)
    };
    for round in 0..60 {
        pr.cd(&mut w, if round < 5 { 20 } else { 200 });
        if consider(&w, &mut best) {
            let (w, pval, gval) = best.unwrap();
            return Some(Reference { w, pval, gval, method: "cd" });
        }
        let sg: Vec<i8> = w.iter().map(|v| if *v > 0.0 { 1 } else if *v < 0.0 { -1 } else { 0 }).collect();
        if let Some(wp) = pr.solve_pattern(&sg) {
            if consider(&wp, &mut best) {
                let (w, pval, gval) = best.unwrap();
                return Some(Reference { w, pval, gval, method: "cd+polish" });
            }
        }
    }
    // fall-back: all 3^p sign patterns (p <= 6)
    let total = 3usize.pow(pr.p as u32);
    for code in 0..total {
        let mut k = code;
        let sg: Vec<i8> = (0..pr.p)
            .map(|_| {
                let d = (k % 3) as i8 - 1;
                k /= 3;
                d
            })
            .collect();
        if let Some(wp) = pr.solve_pattern(&sg) {
            if consider(&wp, &mut best) {
                let (w, pval, gval) = best.unwrap();
                return Some(Reference { w, pval, gval, method: "enumeration" });
            }
        }
    }
    // second-level certificate for ill-scaled raw designs, where rounding w to f64 alone moves the
    // scaled dual point by more than 1e-12: still >= 1e4 times tighter than the smallest objective
    // threshold (10·tol·F* with tol >= 1e-6), and the oracle uses the certified *upper* bound of F*
    if let Some((w, pval, gval)) = best {
        if pval - gval <= 1e-9 * pval + 1e-13 * pr.rr {
            return Some(Reference { w, pval, gval, method: "gap<=1e-9" });
        }
    }
    None
}

// ------------------------------------------------------------------------------------------------
// workload
// ------------------------------------------------------------------------------------------------

struct Data {
    x: Mat,
    xp: Mat, // rows predict() is evaluated on: the training rows followed by three unseen rows
    y: Vec<f64>,
    n: usize,
    p: usize,
    spread: f64, // scale of the variation of y
    mean_class: &'static str,
}

fn draw_data(c: &mut Case) -> Option<Data> {
    let p = c.rng.us(1, 6);
    let n = if c.rng.bool(0.2) { c.rng.us(p + 1, p + 3) } else { c.rng.us(p + 1, 60) };
    let maxcond = *c.rng.pick(&[3.0, 30.0, 300.0]);
    let mean_mag = *c.rng.pick(&[0.0, 1.0, 4.0]);
    let x = design(&mut c.rng, n, p, maxcond, 0.1, 100.0, mean_mag);
    // scale-free conditioning of the design (centred, unit-variance columns) is the measured precondition
    let (zs, _, stds) = standardise(&x, true);
    for j in 0..p {
        let cmax = x.col(j).iter().fold(0.0f64, |m, v| m.max(v.abs()));
        if !(stds[j] > 1e-3 * cmax) {
            c.skip("a drawn column is (nearly) constant");
            return None;
        }
    }
    let cz = cond(&zs);
    if !(cz <= 1e3) {
        c.skip("standardised design has condition number above 1e3");
        return None;
    }
    // target: sparse linear signal in the standardised columns + noise, rescaled, shifted
    let beta: Vec<f64> = (0..p).map(|_| if c.rng.bool(0.6) { c.rng.normal() } else { 0.0 }).collect();
    let sig = zs.mulv(&beta);
    let ssd = var_pop(&sig).sqrt();
    let noise = c.rng.logu(0.05, 2.0) * if ssd > 0.0 { ssd } else { 1.0 };
    let scale = c.rng.logu(0.3, 30.0);
    let mut y: Vec<f64> = (0..n).map(|i| scale * (sig[i] + noise * c.rng.normal())).collect();
    // structured targets: values in equal consecutive pairs (paired measurements), a few levels in sorted runs
    // (class-like labels sorted by class), or the generic real-valued target
    match c.rng.below(10) {
        0 => {
            for i in (1..n).step_by(2) {
                y[i] = y[i - 1];
            }
            c.bucket("target:equal-consecutive-pairs");
        }
        1 => {
            let levels = c.rng.us(2, 4);
            let mut sorted = y.clone();
            sorted.sort_by(|a, b| a.partial_cmp(b).unwrap_or(std::cmp::Ordering::Equal));
            let run = (n + levels - 1) / levels;
            let vals: Vec<f64> = (0..levels).map(|l| sorted[(l * run).min(n - 1)]).collect();
            for i in 0..n {
                y[i] = vals[(i / run).min(levels - 1)];
            }
            c.bucket("target:few-levels-in-sorted-runs");
        }
        _ => {}
    }
    let m0 = mean_v(&y);
    let spread = var_pop(&y).sqrt();
    if !(spread > 0.0) {
        c.skip("degenerate target");
        return None;
    }
    let k = c.rng.below(3);
    let (mean_class, mean) = match k {
        0 => ("ymean=0", 0.0),
        1 => ("ymean:moderate", spread * c.rng.uni(0.3, 3.0) * if c.rng.bool(0.5) { -1.0 } else { 1.0 }),
        _ => ("ymean:large", spread * c.rng.logu(1e3, 1e6) * if c.rng.bool(0.5) { -1.0 } else { 1.0 }),
    };
    for v in y.iter_mut() {
        *v = (*v - m0) + mean;
    }
    if k == 0 {
        // remove the rounding residue of the centring so that the mean is zero to working precision
        let m1 = mean_v(&y);
        for v in y.iter_mut() {
            *v -= m1;
        }
    }
    c.bucket(&format!("p:{}", p));
    c.bucket(if n <= p + 3 { "n:p+1..p+3" } else if n <= 20 { "n:<=20" } else { "n:21..60" });
    c.bucket(mean_class);
    c.bucket(if cz > 100.0 { "cond(std design):100..1e3" } else if cz > 10.0 { "cond(std design):10..100" } else { "cond(std design):<=10" });
    let extra = Mat::from_fn(3, p, |_, j| x.at(c.rng.below(n), j) * c.rng.uni(-2.0, 2.0));
    let xp = x.vstack(&extra);
    Some(Data { x, xp, y, n, p, spread, mean_class })
}

#[derive(Clone, Copy)]
struct Cfg {
    alpha: f64,
    rho: f64, // 1 for lasso
    tol: f64,
    normalize: bool,
}

/// α relative to α_max = 2·max|Zᵀ(y−ȳ)|/(n·ρ) (smallest α with the all-zero solution), never below 1e-3
fn draw_cfg(c: &mut Case, d: &Data, rho: f64) -> Cfg {
    let normalize = c.rng.bool(0.5);
    let pr = Prob::new(&d.x, &d.y, normalize, 1.0, 1.0);
    let amax = 2.0 * (0..d.p).map(|j| dotv(&pr.cols[j], &pr.r).abs()).fold(0.0f64, f64::max) / (d.n as f64 * rho);
    let u = c.rng.f();
    let mut alpha = if u < 0.5 {
        amax * c.rng.logu(1e-4, 1.0)
    } else if u < 0.65 {
        // the upper part of the path, where few coefficients are active and shortcuts for "alpha is large" may bite
        amax * c.rng.uni(0.2, 1.0)
    } else if u < 0.8 {
        amax * c.rng.uni(1.0, 3.0)
    } else if u < 0.9 {
        1e-3
    } else {
        c.rng.logu(1e-3, 10.0)
    };
    if !(alpha >= 1e-3) {
        alpha = 1e-3;
    }
    let tol = *c.rng.pick(&[1e-3, 1e-4, 1e-5, 1e-6]);
    c.bucket(if normalize { "normalize:on" } else { "normalize:off" });
    c.bucket(&format!("tol:{:e}", tol));
    let ratio = alpha / amax;
    c.bucket(if ratio >= 1.0 { "alpha:>=alpha_max" } else if ratio >= 1e-2 { "alpha:1e-2..1 alpha_max" } else { "alpha:<1e-2 alpha_max" });
    c.bucket_if(alpha == 1e-3, "alpha:=1e-3");
    Cfg { alpha, rho, tol, normalize }
}

fn norm_name(b: bool) -> &'static str {
    if b {
        "norm"
    } else {
        "raw"
    }
}

fn describe(c: &mut Case, op: &str, d: &Data, cfg: &Cfg, extra: Value) {
    c.describe(json!({"op": op, "X": mat_json(&d.x), "predict_extra_rows": mat_json(&d.xp.slice(d.n, d.xp.r, 0, d.p)), "y": d.y, "alpha": cfg.alpha, "l1_ratio": cfg.rho, "tol": cfg.tol,
        "normalize": cfg.normalize, "max_iter": 1000, "extra": extra}));
}

// ------------------------------------------------------------------------------------------------
// driving the library
// ------------------------------------------------------------------------------------------------

struct Fit {
    w: Vec<f64>, // raw coefficients as returned
    b: f64,
    pred: Vec<f64>, // predict(xp)
}

#[derive(Clone, Copy, PartialEq)]
enum Model {
    Lasso,
    Enet,
}

impl Model {
    fn name(self) -> &'static str {
        match self {
            Model::Lasso => "lasso",
            Model::Enet => "enet",
        }
    }
}

/// `Case::must` with the termination violation keyed by the input class `sig` instead of a fixed string
fn must_sig<T>(c: &mut Case, what: &str, sig: &str, f: impl FnOnce() -> T) -> Option<T> {
    c.count(&format!("no-panic:{}", what));
    c.count(&format!("termination:{}", what));
    match guard(f) {
        Ok(v) => Some(v),
        Err(p) => {
            if p.in_harness() {
                c.inconclusive(&format!("harness panic in {}: {}", what, p.short()));
            } else if p.is_budget() {
                c.violate(&format!("termination:{}", what), sig, format!("more than {} line-search steps in one fit: {}", BUDGET, p.short()));
            } else {
                c.violate(&format!("no-panic:{}", what), &p.loc(), p.short());
            }
            None
        }
    }
}

/// Runs fit + accessors + predict(X) under the step budget. Outer None: panic / budget (already
/// recorded as a violation by `must`); inner Err: the library returned Err.
fn run_fit(c: &mut Case, model: Model, x: &Mat, xp: &Mat, y: &[f64], cfg: &Cfg, max_iter: usize, sg: &str) -> Option<Result<Fit, String>> {
    let xm: DenseMatrix<f64> = to_dense(x);
    let xpm: DenseMatrix<f64> = to_dense(xp);
    let yv: Vec<f64> = y.to_vec();
    let what = match model {
        Model::Lasso => "Lasso::fit",
        Model::Enet => "ElasticNet::fit",
    };
    // call sequence fit → store → restore → use: drawn for a share of the fits
    let restore: Option<bool> = if c.rng.bool(0.12) { Some(c.rng.bool(0.5)) } else { None };
    type Again = Option<Result<(Mat, f64, Vec<f64>), String>>;
    macro_rules! use_model {
        ($m:expr) => {{
            let m = $m;
            let w = from_m(m.coefficients());
            let again: Again = restore.map(|json| {
                let m2 = restored(&m, json)?;
                match guard(|| (from_m(m2.coefficients()), m2.intercept(), m2.predict(&xpm))) {
                    Ok((w2, b2, Ok(p2))) => Ok((w2, b2, p2)),
                    Ok((_, _, Err(e))) => Err(format!("predict of the restored model returned Err({})", e)),
                    Err(p) => Err(format!("the restored model panicked: {}", p.short())),
                }
            });
            (w, m.intercept(), m.predict(&xpm), again)
        }};
    }
    smartcore::verif::set_step_budget(BUDGET);
    let r = must_sig(c, what, sg, || match model {
        Model::Lasso => Lasso::fit(&xm, &yv, LassoParameters { alpha: cfg.alpha, normalize: cfg.normalize, tol: cfg.tol, max_iter }).map(|m| use_model!(m)),
        Model::Enet => ElasticNet::fit(&xm, &yv, ElasticNetParameters { alpha: cfg.alpha, l1_ratio: cfg.rho, normalize: cfg.normalize, tol: cfg.tol, max_iter }).map(|m| use_model!(m)),
    });
    smartcore::verif::set_step_budget(u64::MAX);
    let r = r?;
    Some(match r {
        Err(e) => Err(format!("{}", e)),
        Ok((w, b, pred, again)) => {
            let pred = match pred {
                Ok(p) => p,
                Err(e) => return Some(Err(format!("predict: {}", e))),
            };
            if !(w.r == x.c && w.c == 1) {
                return Some(Err(format!("coefficients() has shape {}x{}, expected {}x1", w.r, w.c, x.c)));
            }
            if let (Some(json), Some(a)) = (restore, again) {
                let fmt = if json { "json" } else { "bincode" };
                let m = model.name();
                c.bucket(&format!("sequence:fit-store-restore-predict/{}", fmt));
                match a {
                    Ok((w2, b2, p2)) => {
                        let near = |x: f64, y: f64| close(x, y, 8.0 * EPS, x.abs().max(y.abs()));
                        let same_w = (w2.r, w2.c) == (w.r, w.c) && w2.d.iter().zip(w.d.iter()).all(|(x, y)| near(*x, *y)) && near(b2, b);
                        if c.check(&format!("{}.restored.coefficients/{}", m, fmt), same_w, sg, || format!("restored coefficients {}x{} {:?} / {:e}, fitted {}x{} {:?} / {:e}", w2.r, w2.c, w2.d, b2, w.r, w.c, w.d, b)) {
                            let scale = pred.iter().fold(0.0f64, |q, v| q.max(v.abs()));
                            let same_p = p2.len() == pred.len() && p2.iter().zip(pred.iter()).all(|(x, y)| close(*x, *y, 64.0 * EPS, scale));
                            c.check(&format!("{}.restored.predict/{}", m, fmt), same_p, sg, || format!("restored model predicts {:?}, fitted model {:?}", p2, pred));
                        }
                    }
                    Err(msg) => {
                        c.check(&format!("{}.restored.usable/{}", m, fmt), false, sg, || msg.clone());
                    }
                }
            }
            Ok(Fit { w: w.d.clone(), b, pred })
        }
    })
}

/// fit that the property requires to succeed
fn fit_ok(c: &mut Case, model: Model, d: &Data, y: &[f64], cfg: &Cfg, sg: &str) -> Option<Fit> {
    match run_fit(c, model, &d.x, &d.xp, y, cfg, 1000, sg)? {
        Ok(f) => {
            c.check(&format!("{}.fit-ok", model.name()), true, sg, String::new);
            let fin = f.w.iter().all(|v| v.is_finite()) && f.b.is_finite() && f.pred.iter().all(|v| v.is_finite());
            if !c.check(&format!("{}.finite", model.name()), fin, sg, || format!("non-finite coefficient / intercept / prediction: w = {:?}, b = {}", f.w, f.b)) {
                return None;
            }
            Some(f)
        }
        Err(e) => {
            c.check(&format!("{}.fit-ok", model.name()), false, sg, || format!("valid settings, fit returned Err({})", e));
            None
        }
    }
}

/// rounding slack of the objective comparison: the target mean is computed by the library with a plain
/// sum (error ≤ n·ε·max|y|); a shift δ of the centred target changes F by at most 4·|δ|·√n·‖y−ȳ‖ + n·δ²
fn rounding_slack(pr: &Prob, y: &[f64]) -> f64 {
    let ymax = y.iter().fold(0.0f64, |m, v| m.max(v.abs()));
    let delta = 2.0 * pr.n as f64 * EPS * ymax;
    let sn = (pr.n as f64).sqrt();
    4.0 * delta * sn * pr.rr.sqrt() + pr.n as f64 * delta * delta
}

fn excess_threshold(pr: &Prob, rf: &Reference, y: &[f64], tol: f64) -> f64 {
    10.0 * tol * rf.pval + 1e-10 * pr.rr + rounding_slack(pr, y)
}

/// coefficients in the units of the stated objective
fn wz(pr: &Prob, w: &[f64]) -> Vec<f64> {
    (0..pr.p).map(|j| w[j] * pr.stds[j]).collect()
}

/// near-optimality, intercept mapping, predict — everything the statement says about one fit
/// Signature refinement for a violated objective oracle: on designs whose columns, as seen by the optimiser
/// (raw columns when normalisation is off), differ in norm by more than a factor 30 the interior-point
/// iteration is known to stall or to run into max_iter; such violations are filed under
/// "<sig>/column-norm-ratio>30". The class is derived from the input only and chooses the signature, never
/// the verdict.
fn cap_sig(c: &mut Case, _model: Model, _d: &Data, pr: &Prob, _rf: &Reference, _cfg: &Cfg, sg: &str, excess: f64, thr: f64) -> String {
    if !(excess > thr) {
        return sg.to_string();
    }
    // ratio of the largest to the smallest column norm of the matrix the optimiser works on
    let cmax = pr.cn.iter().cloned().fold(0.0f64, f64::max).sqrt();
    let cmin = pr.cn.iter().cloned().fold(f64::INFINITY, f64::min).sqrt();
    if cmin > 0.0 && cmax / cmin > 30.0 {
        c.bucket("diagnosis:objective-violation-on-ill-scaled-columns");
        format!("{}/column-norm-ratio>30", sg)
    } else {
        sg.to_string()
    }
}

fn check_fit(c: &mut Case, model: Model, d: &Data, pr: &Prob, rf: &Reference, cfg: &Cfg, f: &Fit, sg: &str) {
    let m = model.name();
    let w_z = wz(pr, &f.w);
    let fval = pr.primal(&w_z);
    if fval < rf.gval - 1e-9 * pr.rr.max(rf.pval) {
        c.inconclusive("implementation objective below the certified lower bound: reference inconsistent");
        return;
    }
    let thr_obj = excess_threshold(pr, rf, &d.y, cfg.tol);
    let sg_obj = cap_sig(c, model, d, pr, rf, cfg, sg, fval - rf.pval, thr_obj);
    c.ratio(&format!("{}.objective", m), fval - rf.pval, thr_obj, &sg_obj, || {
        format!("F(w_impl) = {:e}, certified F* in [{:e}, {:e}] ({}), tol = {:e}, relative excess {:e}; w_impl(z-units) = {:?}, w_ref = {:?}",
            fval, rf.gval, rf.pval, rf.method, cfg.tol, (fval - rf.pval) / rf.pval, w_z, rf.w)
    });
    // intercept mapping: raw b = ȳ; normalised b = ȳ − Σ w_j·mean_j
    let ymax = d.y.iter().fold(0.0f64, |m, v| m.max(v.abs()));
    let terms: Vec<f64> = (0..pr.p).map(|j| f.w[j] * pr.means[j]).collect();
    let bexp = pr.ybar - csum(terms.iter().cloned());
    let bscale = ymax + csum(terms.iter().map(|t| t.abs()));
    c.ratio(&format!("{}.intercept-mapping", m), (f.b - bexp).abs(), 1e-10 * bscale, sg, || format!("intercept {:e}, expected mean(y) - sum w_j*mean_j = {:e}", f.b, bexp));
    // predict(X') = X'·w + b on the training rows and three unseen rows
    let mut worst = 0.0f64;
    let ok_len = f.pred.len() == d.xp.r;
    c.check(&format!("{}.predict-len", m), ok_len, sg, || format!("predict returned {} values for {} rows", f.pred.len(), d.xp.r));
    if ok_len {
        for i in 0..d.xp.r {
            let ts: Vec<f64> = (0..pr.p).map(|j| d.xp.at(i, j) * f.w[j]).collect();
            let e = csum(ts.iter().cloned().chain(std::iter::once(f.b)));
            let sc = csum(ts.iter().map(|t| t.abs())) + f.b.abs();
            let r = if sc > 0.0 { (f.pred[i] - e).abs() / sc } else { (f.pred[i] - e).abs() };
            worst = worst.max(r);
        }
        c.ratio(&format!("{}.predict=Xw+b", m), worst, 1e-10, sg, || "max_i |predict(X')_i − (x'_i·w + b)| / (Σ|x'_ij·w_j| + |b|)".into());
    }
    let nz = rf.w.iter().filter(|v| **v != 0.0).count();
    c.bucket(if nz == 0 { "optimum:all-zero" } else if nz < pr.p { "optimum:sparse" } else { "optimum:dense" });
    c.bucket(&format!("reference:{}", rf.method));
}

fn cond_bucket(c: &mut Case, pr: &Prob) -> f64 {
    let smin = pr.smin;
    let cz = if smin > 0.0 { pr.smax / smin } else { f64::INFINITY };
    c.bucket(if cz > 1e4 { "cond(Z used):>1e4" } else if cz > 1e3 { "cond(Z used):1e3..1e4" } else if cz > 1e2 { "cond(Z used):1e2..1e3" } else { "cond(Z used):<=1e2" });
    smin
}

fn sig_of(model: Model, d: &Data, cfg: &Cfg) -> String {
    format!("{}/{}/{}", model.name(), norm_name(cfg.normalize), if d.mean_class == "ymean=0" { "ymean=0" } else { "ymean!=0" })
}

fn certified(c: &mut Case, pr: &Prob) -> Option<Reference> {
    match reference(pr) {
        Some(r) => Some(r),
        None => {
            c.inconclusive("reference solver did not reach its duality-gap certificate");
            None
        }
    }
}

// ------------------------------------------------------------------------------------------------
// families
// ------------------------------------------------------------------------------------------------

fn one_model(c: &mut Case, model: Model) {
    let d = match draw_data(c) {
        Some(d) => d,
        None => return,
    };
    let rho = match model {
        Model::Lasso => 1.0,
        Model::Enet => {
            let u = c.rng.f();
            if u < 0.7 {
                c.rng.uni(0.05, 0.95)
            } else if u < 0.85 {
                c.rng.logu(1e-3, 0.05)
            } else {
                1.0 - c.rng.logu(1e-3, 0.05)
            }
        }
    };
    let cfg = draw_cfg(c, &d, rho);
    describe(c, model.name(), &d, &cfg, Value::Null);
    let sg = sig_of(model, &d, &cfg);
    let pr = Prob::new(&d.x, &d.y, cfg.normalize, cfg.alpha, cfg.rho);
    cond_bucket(c, &pr);
    let rf = match certified(c, &pr) {
        Some(r) => r,
        None => return,
    };
    if let Some(f) = fit_ok(c, model, &d, &d.y, &cfg, &sg) {
        c.nontrivial();
        check_fit(c, model, &d, &pr, &rf, &cfg, &f, &sg);
    }
}

fn lasso(c: &mut Case) {
    one_model(c, Model::Lasso)
}

fn enet(c: &mut Case) {
    one_model(c, Model::Enet)
}

/// distance two tol-optimal points of the same strongly convex objective may have (z-units):
/// F(w) − F* ≥ μ·‖w − w*‖², μ = σ_min(Z)² + l2
fn coef_slack(pr: &Prob, rf: &Reference, y: &[f64], tol: f64, smin: f64, wnorm: f64) -> f64 {
    let mu = smin * smin + pr.l2;
    1e-6 * wnorm + 2.0 * (excess_threshold(pr, rf, y, tol) / mu).sqrt()
}

/// l1_ratio = 1 reproduces Lasso
fn enet_rho1(c: &mut Case) {
    let d = match draw_data(c) {
        Some(d) => d,
        None => return,
    };
    let cfg = draw_cfg(c, &d, 1.0);
    describe(c, "enet(l1_ratio=1) vs lasso", &d, &cfg, Value::Null);
    let sg = format!("{}/rho=1", sig_of(Model::Enet, &d, &cfg));
    let pr = Prob::new(&d.x, &d.y, cfg.normalize, cfg.alpha, 1.0);
    let smin = cond_bucket(c, &pr);
    let rf = match certified(c, &pr) {
        Some(r) => r,
        None => return,
    };
    let fe = fit_ok(c, Model::Enet, &d, &d.y, &cfg, &sg);
    let fl = fit_ok(c, Model::Lasso, &d, &d.y, &cfg, &sig_of(Model::Lasso, &d, &cfg));
    if let Some(fe) = &fe {
        c.nontrivial();
        // the Lasso objective of the elastic-net fit is within the Lasso tolerance of the Lasso optimum
        let w_z = wz(&pr, &fe.w);
        let fval = pr.primal(&w_z);
        let thr_obj = excess_threshold(&pr, &rf, &d.y, cfg.tol);
        let sg_obj = cap_sig(c, Model::Enet, &d, &pr, &rf, &cfg, &sg, fval - rf.pval, thr_obj);
        c.ratio("enet.rho1.lasso-objective", fval - rf.pval, thr_obj, &sg_obj, || {
            format!("Lasso objective of ElasticNet(l1_ratio=1) = {:e}, certified Lasso optimum in [{:e}, {:e}], tol {:e}; w_enet(z-units) = {:?}, w_ref = {:?}", fval, rf.gval, rf.pval, cfg.tol, w_z, rf.w)
        });
        check_fit(c, Model::Enet, &d, &pr, &rf, &cfg, fe, &sg);
        if sg_obj != sg {
            // the elastic-net fit ran into the iteration cap: the comparisons with the Lasso fit below
            // would only repeat that finding
            return;
        }
    }
    if let (Some(fe), Some(fl)) = (&fe, &fl) {
        {
            // the Lasso fit itself must be near-optimal before the two fits are compared with each other
            let wl0 = wz(&pr, &fl.w);
            let exl = pr.primal(&wl0) - rf.pval;
            let thr_l = excess_threshold(&pr, &rf, &d.y, cfg.tol);
            let sg_l = sig_of(Model::Lasso, &d, &cfg);
            let sg_lo = cap_sig(c, Model::Lasso, &d, &pr, &rf, &cfg, &sg_l, exl, thr_l);
            if !c.ratio("lasso.objective", exl, thr_l, &sg_lo, || format!("F(w_lasso) exceeds the certified optimum {:e} (tol {:e})", rf.pval, cfg.tol)) {
                return;
            }
        }
        let (we, wl) = (wz(&pr, &fe.w), wz(&pr, &fl.w));
        let dw: Vec<f64> = (0..pr.p).map(|j| we[j] - wl[j]).collect();
        let thr = coef_slack(&pr, &rf, &d.y, cfg.tol, smin, norm2v(&wl));
        c.ratio("enet.rho1.coef=lasso", norm2v(&dw), thr, &sg, || format!("‖w_enet − w_lasso‖ (z-units); enet {:?} lasso {:?}", we, wl));
        let msd: Vec<f64> = (0..pr.p).map(|j| pr.means[j] / pr.stds[j]).collect();
        let ymax = d.y.iter().fold(0.0f64, |m, v| m.max(v.abs()));
        c.ratio("enet.rho1.intercept=lasso", (fe.b - fl.b).abs(), 1e-9 * (ymax + fl.b.abs()) + norm2v(&msd) * thr, &sg, || format!("intercepts: enet {:e}, lasso {:e}", fe.b, fl.b));
    }
}

/// adding a constant to every target changes the intercept by that constant and nothing else
fn shift(c: &mut Case, model: Model) {
    let d = match draw_data(c) {
        Some(d) => d,
        None => return,
    };
    let rho = match model {
        Model::Lasso => 1.0,
        Model::Enet => {
            if c.rng.bool(0.15) {
                1.0
            } else {
                c.rng.uni(0.05, 0.95)
            }
        }
    };
    let cfg = draw_cfg(c, &d, rho);
    let (cname, cabs) = *c.rng.pick(&[("1", 1.0), ("1e3", 1e3), ("spread", d.spread), ("1e3*spread", 1e3 * d.spread), ("1e6*spread", 1e6 * d.spread)]);
    let shiftv = if c.rng.bool(0.5) { cabs } else { -cabs };
    let y2: Vec<f64> = d.y.iter().map(|v| v + shiftv).collect();
    describe(c, &format!("{} shift", model.name()), &d, &cfg, json!({"shift": shiftv}));
    c.bucket(&format!("shift:{}", cname));
    let sg = format!("{}/{}/shift", model.name(), norm_name(cfg.normalize));
    let pr = Prob::new(&d.x, &d.y, cfg.normalize, cfg.alpha, cfg.rho);
    let smin = cond_bucket(c, &pr);
    let rf = match certified(c, &pr) {
        Some(r) => r,
        None => return,
    };
    let f1 = fit_ok(c, model, &d, &d.y, &cfg, &sg);
    let f2 = fit_ok(c, model, &d, &y2, &cfg, &sg);
    let (f1, f2) = match (f1, f2) {
        (Some(a), Some(b)) => (a, b),
        _ => return,
    };
    c.nontrivial();
    let (w1, w2) = (wz(&pr, &f1.w), wz(&pr, &f2.w));
    let dw: Vec<f64> = (0..pr.p).map(|j| w2[j] - w1[j]).collect();
    // y + c is rounded entrywise (≤ ε·(max|y|+|c|) each); the optimum is 1/σ_min-Lipschitz in the target
    let ymax = d.y.iter().fold(0.0f64, |m, v| m.max(v.abs()));
    let big = ymax + shiftv.abs();
    let mu = smin * smin + pr.l2;
    let round_w = 4.0 * (pr.n as f64) * EPS * big * (pr.n as f64).sqrt() / mu.sqrt();
    let thr = coef_slack(&pr, &rf, &y2, cfg.tol, smin, norm2v(&w1).max(norm2v(&w2))) + round_w;
    // same input-derived class as for the objective oracle: on raw columns whose norms differ by more than 30x one
    // of the two fits may be a stalled (unconverged) one — open known finding, filed under its own signature
    let sg_w = cap_sig(c, model, &d, &pr, &rf, &cfg, &sg, norm2v(&dw), thr);
    c.ratio(&format!("{}.shift.coefficients", model.name()), norm2v(&dw), thr, &sg_w, || {
        format!("‖w(y+c) − w(y)‖ (z-units), c = {:e}; w(y) = {:?}, w(y+c) = {:?}, reference optimum {:?}", shiftv, w1, w2, rf.w)
    });
    let msd: Vec<f64> = (0..pr.p).map(|j| pr.means[j] / pr.stds[j]).collect();
    let bthr = 1e-9 * (big + f1.b.abs()) + norm2v(&msd) * thr;
    let sg_b = cap_sig(c, model, &d, &pr, &rf, &cfg, &sg, ((f2.b - f1.b) - shiftv).abs(), bthr);
    c.ratio(&format!("{}.shift.intercept", model.name()), ((f2.b - f1.b) - shiftv).abs(), bthr, &sg_b, || {
        format!("intercept(y+c) − intercept(y) = {:e}, c = {:e}", f2.b - f1.b, shiftv)
    });
}

fn lasso_shift(c: &mut Case) {
    shift(c, Model::Lasso)
}

fn enet_shift(c: &mut Case) {
    shift(c, Model::Enet)
}

/// Constant target: y − ȳ = 0, the minimiser is w = 0 and the minimum 0, so the relative tolerance is
/// void. Checked: the fit terminates, does not panic, returns coefficients (Ok), they are finite, and the
/// objective is 0 up to an absolute slack of 1e-10·n·ȳ² (looser than the literal statement).
fn constant_target(c: &mut Case) {
    let mut d = match draw_data(c) {
        Some(d) => d,
        None => return,
    };
    let model = if c.rng.bool(0.6) { Model::Lasso } else { Model::Enet };
    let sgn = if c.rng.bool(0.5) { -1.0 } else { 1.0 };
    let (v, kind): (f64, &str) = match c.rng.below(4) {
        0 => (0.0, "zero"),
        1 => (sgn * c.rng.int(1, 40) as f64 / 4.0, "dyadic"),
        2 => (sgn * c.rng.logu(0.1, 1e3), "non-dyadic"),
        _ => (sgn * (c.rng.int(1, 99) as f64) / 10.0, "decimal"),
    };
    d.y = vec![v; d.n];
    let cfg = Cfg {
        alpha: if c.rng.bool(0.3) { 1e-3 } else { c.rng.logu(1e-3, 10.0) },
        rho: if model == Model::Lasso { 1.0 } else { c.rng.uni(0.05, 1.0) },
        tol: *c.rng.pick(&[1e-3, 1e-4, 1e-5, 1e-6]),
        normalize: c.rng.bool(0.5),
    };
    describe(c, &format!("{} constant target", model.name()), &d, &cfg, json!({"value": v}));
    c.bucket(&format!("constant-target:{}", kind));
    c.bucket(if cfg.normalize { "normalize:on" } else { "normalize:off" });
    c.nontrivial();
    let sg = format!("{}/constant-target", model.name());
    let pr = Prob::new(&d.x, &d.y, cfg.normalize, cfg.alpha, cfg.rho);
    if let Some(f) = fit_ok(c, model, &d, &d.y, &cfg, &sg) {
        let fval = pr.primal(&wz(&pr, &f.w));
        c.ratio(&format!("{}.constant-target.objective", model.name()), fval, 1e-10 * d.n as f64 * v * v, &sg, || {
            format!("objective of the returned coefficients {:?} for the constant target {} (minimum 0 at w = 0)", f.w, v)
        });
    }
}

/// Lasso reports invalid settings as Err (no panic, no endless loop)
fn invalid(c: &mut Case) {
    let p = c.rng.us(1, 5);
    let n = c.rng.us(p + 2, 25);
    let x = design(&mut c.rng, n, p, 30.0, 0.1, 100.0, 1.0);
    // the target is ordinary, constant or zero: an invalid setting is invalid whatever the data look like
    let ykind = *c.rng.pick(&["random", "random", "random", "constant", "zero"]);
    let yconst = c.rng.int(-9, 9) as f64 * 0.5 + 0.25;
    let y: Vec<f64> = (0..n).map(|_| match ykind { "constant" => yconst, "zero" => 0.0, _ => 3.0 * c.rng.normal() + 2.0 }).collect();
    c.bucket(&format!("invalid:target={}", ykind));
    let mut cfg = Cfg { alpha: c.rng.logu(1e-3, 1.0), rho: 1.0, tol: *c.rng.pick(&[1e-3, 1e-4, 1e-6]), normalize: c.rng.bool(0.5) };
    let mut max_iter = 1000usize;
    let (mut xi, mut yi) = (x.clone(), y.clone());
    let kind = (c.index % 6) as usize;
    let sg: String = match kind {
        0 => {
            cfg.alpha = *c.rng.pick(&[-1e-12, -1e-3, -1.0, -1e6, f64::NEG_INFINITY]);
            "alpha<0".into()
        }
        1 => {
            if c.rng.bool(0.5) {
                cfg.tol = if c.rng.bool(0.5) { 0.0 } else { -0.0 };
                "tol=0".into()
            } else {
                cfg.tol = *c.rng.pick(&[-1e-12, -1e-4, -1.0, f64::NEG_INFINITY]);
                "tol<0".into()
            }
        }
        2 => {
            max_iter = 0;
            "max_iter=0".into()
        }
        3 => {
            // n <= p : keep the first n' rows
            let n2 = if c.rng.bool(0.5) { p } else { c.rng.us(1, p) };
            xi = x.slice(0, n2, 0, p);
            yi = y[..n2].to_vec();
            if n2 == p {
                "n=p".into()
            } else {
                "n<p".into()
            }
        }
        4 => {
            let k = c.rng.below(4);
            let (len, name) = match k {
                0 => (n - 1, "len(y)=n-1"),
                1 => (n + 1, "len(y)=n+1"),
                2 => (0, "len(y)=0"),
                _ => (c.rng.us(1, 2 * n), "len(y)!=n"),
            };
            let len = if len == n { n + 2 } else { len };
            yi = (0..len).map(|i| y[i % n] + (i / n) as f64).collect();
            name.into()
        }
        _ => {
            cfg.normalize = true;
            let j = c.rng.below(p);
            // exactly summable values (mean and variance exact) and values whose sums round
            let k = c.rng.below(6);
            let sgn = if c.rng.bool(0.5) { -1.0 } else { 1.0 };
            let (v, name): (f64, &str) = match k {
                0 => (0.0, "zero"),
                1 => (sgn * c.rng.int(1, 9) as f64, "small-integer"),
                2 => (sgn * c.rng.int(1, 63) as f64 / 8.0, "dyadic"),
                3 => (sgn * c.rng.uni(0.1, 0.999), "non-dyadic 0.1<=|v|<1"),
                4 => (sgn * c.rng.logu(1.001, 100.0), "non-dyadic 1<|v|<=100"),
                _ => (sgn * c.rng.logu(100.001, 1e4), "non-dyadic 100<|v|<=1e4"),
            };
            for i in 0..n {
                xi.set(i, j, v);
            }
            format!("constant-column/{}", name)
        }
    };
    c.bucket(&format!("invalid:{}", sg));
    let sg = if ykind == "random" { sg } else { format!("{}/{}-target", sg, ykind) };
    c.bucket(if cfg.normalize { "normalize:on" } else { "normalize:off" });
    c.describe(json!({"op": "lasso invalid setting", "kind": sg, "X": mat_json(&xi), "y": yi, "alpha": cfg.alpha.to_string(), "tol": cfg.tol.to_string(),
        "normalize": cfg.normalize, "max_iter": max_iter}));
    c.nontrivial();
    if let Some(r) = run_fit(c, Model::Lasso, &xi, &xi, &yi, &cfg, max_iter, &sg) {
        c.check("lasso.invalid-setting-is-Err", r.is_err(), &sg, || {
            let f = r.as_ref().ok().unwrap();
            format!("Lasso::fit returned Ok for an invalid setting ({}); coefficients {:?}, intercept {:e}", sg, f.w, f.b)
        });
    }
}

/// parameter builders keep every configured value whatever the order of the `with_*` steps
fn builders_fam(c: &mut Case) {
    scverif::builders::case(c, "C08")
}

/// the uniform api traits (Predictor / SupervisedEstimator / UnsupervisedEstimator / Transformer) behave
/// exactly like the inherent methods
fn api_paths_fam(c: &mut Case) {
    scverif::apipaths::case(c, "C08")
}

fn main() {
    runner::main(Spec {
        property: "C08",
        rule: "per case a design X (1<=p<=6, p<n<=60, random orthogonal factors with graded singular values, column scales 0.1..100, column means 0 / 1 / 4 column scales) whose standardised version has measured cond <= 1e3 and no (nearly) constant column, a noisy sparse-linear target with mean 0 / moderate / 1e3..1e6 spreads, alpha from 1e-3 to 3 alpha_max, tol in {1e-3,1e-4,1e-5,1e-6}, normalisation on/off, l1_ratio in (0,1]; families: lasso, enet (near-optimality against a duality-gap certified reference, intercept mapping, predict on the training rows and three unseen rows), enet_rho1 (elastic net at l1_ratio=1 vs Lasso), lasso_shift / enet_shift (fit(y) vs fit(y+c), c in {1, 1e3, spread, 1e3 spread, 1e6 spread} with either sign), constant_target (y constant: termination, Ok, finite, objective 0), invalid (Lasso must return Err for alpha<0, tol<=0, max_iter=0, n<=p, len(y)!=n, constant column under normalisation; with an ordinary, a constant or a zero target). Every fit runs under a budget of 5e6 line-search steps (exceeding it is a termination violation). A case is non-trivial when the fit returned and the reference certificate was reached (invalid-setting and constant-target cases always are); distinct = hash of the materialised input",
        assumptions: vec![
            "f64 with the DenseMatrix backend only (tol down to 1e-6 is not meaningful in f32; backend equivalence is C20); max_iter = 1000 (library default) for all valid fits",
            "'moderately conditioned' is measured on the standardised design (cond <= 1e3, reference Jacobi SVD); in raw mode the column scales 0.1..100 and the column means add to the condition number of the matrix the optimiser sees (bucketed as cond(Z used))",
            "reference: cyclic coordinate descent on the stated objective, polished by an exact solve on its support (all 3^p sign patterns as fall-back), accepted only with duality gap <= 1e-12·F + 1e-13·‖y−ȳ‖² (second level 1e-9·F for ill-scaled raw designs, bucket reference:gap<=1e-9), otherwise inconclusive; the oracle compares with the certified upper bound of F*",
            "objective threshold: F(w_impl) − F*_upper <= 10·tol·F* + 1e-10·‖y−ȳ‖² + rounding slack of the library's plain-sum target mean (4·δ·√n·‖y−ȳ‖ + n·δ², δ = 2·n·ε·max|y|)",
            "shift / l1_ratio=1 coefficient comparison (in the units of the stated objective) allows 1e-6·‖w‖ + 2·sqrt(objective threshold / (σ_min(Z)² + n·α·(1−ρ))) (strong convexity) + rounding of y+c; intercepts additionally ‖mean/std‖·(coefficient slack) + 1e-9·(|c| + max|y| + |b|)",
            "alpha = 0 is allowed by the statement but excluded by its quantifier (alpha from 1e-3) and is not generated; constant targets (F* = 0, relative tolerance void) are checked only for termination, Ok, finiteness and an absolute objective slack of 1e-10·n·ȳ²",
        ],
        families: vec![
            Family::new("api_paths", 300, 3000, api_paths_fam),
            Family::new("builders", 300, 3000, builders_fam),
            Family::new("lasso", 2000, 30000, lasso),
            Family::new("enet", 2000, 30000, enet),
            Family::new("enet_rho1", 700, 10000, enet_rho1),
            Family::new("lasso_shift", 800, 12000, lasso_shift),
            Family::new("enet_shift", 1200, 18000, enet_shift),
            Family::new("constant_target", 32, 300, constant_target),
            Family::new("invalid", 600, 6000, invalid),
        ],
        min_nontrivial: 1000,
        case_timeout_s: 120,
    });
}
