//! C17 — distance functions equal their closed forms, satisfy the metric axioms up to rounding,
//! coincide where the definitions coincide, and reject vectors of mismatching length.
//!
//! Oracles are evaluated in f64 on the inputs *already rounded* to the tested float width, with
//! compensated sums; the Mahalanobis reference is a Cholesky solve with iterative refinement whose
//! residuals are accumulated in twice the working precision (Dot2) and which certifies itself
//! a posteriori (cases whose certificate is too weak are inconclusive, never violations).
#![allow(non_snake_case)]
use scverif::gen::{size, spd, sym};
use scverif::refla::*;
use scverif::*;
use smartcore::linalg::naive::dense_matrix::DenseMatrix;
use smartcore::linalg::Matrix;
use smartcore::math::distance::mahalanobis::Mahalanobis;
use smartcore::math::distance::{Distance, Distances};
use smartcore::math::num::RealNumber;

// ------------------------------------------------------------------------------------ helpers

fn rt(is32: bool, v: f64) -> f64 {
    if is32 {
        v as f32 as f64
    } else {
        v
    }
}

fn round_vec(is32: bool, v: &[f64]) -> Vec<f64> {
    v.iter().map(|x| rt(is32, *x)).collect()
}

/// smallest positive normal number and largest finite number of the tested width
fn range_of(is32: bool) -> (f64, f64) {
    if is32 {
        (f32::MIN_POSITIVE as f64, f32::MAX as f64)
    } else {
        (f64::MIN_POSITIVE, f64::MAX)
    }
}

fn eps_of(is32: bool) -> f64 {
    if is32 {
        f32::EPSILON as f64
    } else {
        f64::EPSILON
    }
}

/// moves a value of the tested width k representable numbers away from zero
fn nudge(is32: bool, v: f64, k: u32, lo: f64) -> f64 {
    if v == 0.0 {
        return rt(is32, lo);
    }
    if is32 {
        let b = (v as f32).to_bits();
        f32::from_bits(b + k) as f64
    } else {
        f64::from_bits(v.to_bits() + k as u64)
    }
}

fn clamp(v: f64, hi: f64) -> f64 {
    if v > hi {
        hi
    } else if v < -hi {
        -hi
    } else {
        v
    }
}

fn two_sum(a: f64, b: f64) -> (f64, f64) {
    let s = a + b;
    let bb = s - a;
    (s, (a - (s - bb)) + (b - bb))
}

fn two_prod(a: f64, b: f64) -> (f64, f64) {
    let p = a * b;
    (p, a.mul_add(b, -p))
}

/// dot product evaluated as if in twice the working precision (Ogita, Rump, Oishi: Dot2)
fn dot2(it: impl Iterator<Item = (f64, f64)>) -> f64 {
    let (mut p, mut s) = (0.0f64, 0.0f64);
    for (a, b) in it {
        let (h, r) = two_prod(a, b);
        let (q, e) = two_sum(p, h);
        p = q;
        s += e + r;
    }
    p + s
}

fn norm2(v: &[f64]) -> f64 {
    norm2v(v)
}

fn diff(x: &[f64], y: &[f64]) -> Vec<f64> {
    x.iter().zip(y.iter()).map(|(a, b)| a - b).collect()
}

// ------------------------------------------------------------------------------------ vector workloads

const STYLES: [&str; 4] = ["common-scale", "mixed-magnitude", "integer", "extremes"];

fn base_vec(rng: &mut Rng, len: usize, lo: f64, hi: f64, style: usize) -> Vec<f64> {
    match style {
        0 => {
            let s = rng.logu(lo, hi);
            (0..len).map(|_| s * rng.uni(-1.0, 1.0)).collect()
        }
        1 => (0..len).map(|_| rng.logu(lo, hi) * if rng.bool(0.5) { -1.0 } else { 1.0 }).collect(),
        2 => {
            // small integers times a power of two: every difference, square and small sum is exact
            let kmax = (hi / 16.0).log2().floor() as i64;
            let kmin = lo.log2().ceil() as i64;
            let s = 2f64.powi(rng.int(kmin, kmax) as i32);
            (0..len).map(|_| s * rng.int(-9, 9) as f64).collect()
        }
        _ => {
            let opts = [hi, -hi, lo, -lo, 0.0, 0.5 * hi, 1.0, -1.0];
            (0..len).map(|_| *rng.pick(&opts)).collect()
        }
    }
}

struct Triple {
    x: Vec<f64>,
    y: Vec<f64>,
    z: Vec<f64>,
    relation: &'static str,
    style: &'static str,
}

/// three vectors of the same length with all components finite, |component| <= hi, rounded to the tested width
fn draw_triple(rng: &mut Rng, len: usize, is32: bool, lo: f64, hi: f64) -> Triple {
    let style = rng.below(4);
    let x = round_vec(is32, &base_vec(rng, len, lo, hi, style));
    let e = eps_of(is32);
    let (y, z, relation): (Vec<f64>, Vec<f64>, &'static str) = match rng.below(8) {
        0 | 1 => {
            let s2 = if rng.bool(0.7) { style } else { rng.below(4) };
            (base_vec(rng, len, lo, hi, s2), base_vec(rng, len, lo, hi, s2), "independent")
        }
        2 => {
            let z = if rng.bool(0.5) { x.clone() } else { base_vec(rng, len, lo, hi, style) };
            (x.clone(), z, "equal")
        }
        3 => {
            // vectors differing in one coordinate (by a new value or by a few units in the last place)
            let mut y = x.clone();
            let i = rng.below(len);
            y[i] = if rng.bool(0.5) { nudge(is32, x[i], rng.us(1, 4) as u32, lo) } else { base_vec(rng, 1, lo, hi, style.min(1))[0] };
            let mut z = if rng.bool(0.3) { x.clone() } else { y.clone() };
            if rng.bool(0.7) {
                let j = rng.below(len);
                z[j] = if rng.bool(0.5) { nudge(is32, z[j], rng.us(1, 4) as u32, lo) } else { base_vec(rng, 1, lo, hi, style.min(1))[0] };
            }
            (y, z, "one-coordinate")
        }
        4 => {
            // collinear: y on the segment from x to z (equality in the triangle inequality)
            let z = round_vec(is32, &base_vec(rng, len, lo, hi, style));
            let t = *rng.pick(&[0.0, 0.25, 0.5, 1.0, -1.0]);
            let t = if t < 0.0 { rng.f() } else { t };
            let y: Vec<f64> = x.iter().zip(z.iter()).map(|(a, b)| a + t * (b - a)).collect();
            (y, z, "collinear")
        }
        5 => {
            let y: Vec<f64> = x.iter().map(|a| a * (1.0 + rng.int(-3, 3) as f64 * e)).collect();
            let z: Vec<f64> = y.iter().map(|a| a * (1.0 + rng.int(-3, 3) as f64 * e)).collect();
            (y, z, "near-equal")
        }
        6 => {
            // most coordinates shared, a few differ
            let mut y = x.clone();
            let mut z = x.clone();
            let other = base_vec(rng, len, lo, hi, style);
            let other2 = base_vec(rng, len, lo, hi, style);
            for i in 0..len {
                if rng.bool(0.2) {
                    y[i] = other[i];
                }
                if rng.bool(0.2) {
                    z[i] = other2[i];
                }
            }
            (y, z, "sparse-differences")
        }
        _ => {
            let a = rng.uni(-1.0, 1.0);
            let b = rng.uni(-1.0, 1.0);
            (x.iter().map(|v| a * v).collect(), x.iter().map(|v| b * v).collect(), "multiples")
        }
    };
    let fix = |v: Vec<f64>| -> Vec<f64> { v.iter().map(|a| rt(is32, clamp(*a, hi))).collect() };
    Triple { x, y: fix(y), z: fix(z), relation, style: STYLES[style] }
}

// ------------------------------------------------------------------------------------ observation + axioms

/// what the library returned for the pairs of one triple (converted to f64)
#[derive(Clone, Debug)]
struct Obs {
    xy: f64,
    yx: f64,
    yz: f64,
    zy: f64,
    xz: f64,
    zx: f64,
    xx: f64,
    yy: f64,
    zz: f64,
}

fn observe<T: RealNumber, D: Distance<Vec<T>, T>>(c: &mut Case, what: &str, d: &D, x: &Vec<T>, y: &Vec<T>, z: &Vec<T>) -> Option<Obs> {
    c.must(what, || Obs {
        xy: f(d.distance(x, y)),
        yx: f(d.distance(y, x)),
        yz: f(d.distance(y, z)),
        zy: f(d.distance(z, y)),
        xz: f(d.distance(x, z)),
        zx: f(d.distance(z, x)),
        xx: f(d.distance(x, x)),
        yy: f(d.distance(y, y)),
        zz: f(d.distance(z, z)),
    })
}

/// reference value, absolute tolerance on the distance, and whether the closed-form comparison is
/// meaningful for this pair (intermediate quantities inside the normal range of the tested width /
/// error bound not vacuous)
#[derive(Clone, Copy, Debug)]
struct Ref {
    d: f64,
    tol: f64,
    valid: bool,
}

/// the checks shared by all distances. `name` is the oracle prefix, `sg` the signature.
fn axioms(c: &mut Case, name: &str, sg: &str, e: f64, o: &Obs, r: &[Ref; 3]) {
    let all = [o.xy, o.yx, o.yz, o.zy, o.xz, o.zx, o.xx, o.yy, o.zz];
    c.check(&format!("{}.nonneg", name), all.iter().all(|v| *v >= 0.0), sg, || format!("a distance is negative or NaN: {:?}", all));
    c.check(&format!("{}.identity", name), o.xx == 0.0 && o.yy == 0.0 && o.zz == 0.0, sg, || format!("d(v,v) = {:e}, {:e}, {:e} (must be exactly 0)", o.xx, o.yy, o.zz));
    let obs = [(o.xy, o.yx), (o.yz, o.zy), (o.xz, o.zx)];
    let names = ["(x,y)", "(y,z)", "(x,z)"];
    for k in 0..3 {
        let (a, b) = obs[k];
        if r[k].valid {
            c.ratio(&format!("{}.closed-form", name), (a - r[k].d).abs(), r[k].tol, sg, || format!("d{} = {:e}, closed form {:e}", names[k], a, r[k].d));
            c.ratio(&format!("{}.symmetry", name), (a - b).abs(), 4.0 * e * a.abs().max(b.abs()), sg, || format!("d{} = {:e} but reversed arguments give {:e}", names[k], a, b));
        }
    }
    if r.iter().all(|x| x.valid) {
        // true distances satisfy the inequality; every computed one is within its error bound
        let slack = r[0].tol + r[1].tol + r[2].tol;
        let excess = (o.xz - (o.xy + o.yz)).max(0.0);
        let excess = if (o.xz - (o.xy + o.yz)).is_nan() { f64::NAN } else { excess };
        c.ratio(&format!("{}.triangle", name), excess, slack, sg, || format!("d(x,z) = {:e} > d(x,y) + d(y,z) = {:e} + {:e}", o.xz, o.xy, o.yz));
    }
}

/// two library distances that must coincide (both are within their closed-form tolerance of the same value)
fn coincide(c: &mut Case, oracle: &str, sg: &str, a: &Obs, b: &Obs, r: &[Ref; 3], r2: &[Ref; 3]) {
    let pa = [a.xy, a.yz, a.xz];
    let pb = [b.xy, b.yz, b.xz];
    for k in 0..3 {
        if r[k].valid && r2[k].valid {
            c.ratio(oracle, (pa[k] - pb[k]).abs(), r[k].tol + r2[k].tol, sg, || format!("{:e} vs {:e} (closed form {:e})", pa[k], pb[k], r[k].d));
        }
    }
}

// ------------------------------------------------------------------------------------ closed forms of the l_p family

/// sum of |d_i|^p (compensated) and its p-th root with one Newton correction
fn lp_ref(d: &[f64], p: u32) -> (f64, f64) {
    let s = csum(d.iter().map(|v| v.abs().powi(p as i32)));
    if s == 0.0 {
        return (0.0, 0.0);
    }
    let root = match p {
        1 => s,
        2 => s.sqrt(),
        _ => {
            let r = s.powf(1.0 / p as f64);
            let rp = r.powi(p as i32);
            // Newton step for r^p = s
            r - r * (rp - s) / (p as f64 * rp)
        }
    };
    (s, root)
}

/// relative rounding-error bound (with head-room 8) of the coordinate-wise accumulation and root:
/// differences and powers: (p+1)u each, accumulation len·u, root: the sum's error divided by p plus
/// one rounding plus |ln d|·u for the rounded exponent 1/p  ->  <= (len + 4 + |ln d|)·u, u = eps/2
fn lp_tol(len: usize, p: u32, dref: f64, e: f64) -> f64 {
    let l = if p >= 3 && dref > 0.0 { dref.ln().abs() } else { 0.0 };
    4.0 * (len as f64 + 4.0 + l) * e * dref
}

fn lp_refs(is32: bool, len: usize, p: u32, ds: &[Vec<f64>; 3]) -> [Ref; 3] {
    let (minpos, maxv) = range_of(is32);
    let e = eps_of(is32);
    let mut out = [Ref { d: 0.0, tol: 0.0, valid: true }; 3];
    for k in 0..3 {
        let (s, root) = lp_ref(&ds[k], p);
        // the powers are formed in the tested width: the comparison is meaningful when their sum is a
        // normal number there (absolute underflow error len·minpos·eps then stays below eps·sum)
        let valid = p == 1 || s == 0.0 || (s >= 4.0 * len as f64 * minpos && s <= maxv / 4.0);
        out[k] = Ref { d: root, tol: lp_tol(len, p, root, e), valid };
    }
    out
}

fn metric_t<T: RealNumber>(c: &mut Case) {
    let is32 = width::<T>() == "f32";
    let w = width::<T>();
    let e = eps::<T>();
    let len = if scverif::big() == 0 && c.rng.bool(0.15) { c.rng.us(1, 2) } else { size(&mut c.rng, 30) };
    let (lo, hi, band) = if c.rng.bool(0.5) { (1e-3, 1e3, "1e-3..1e3") } else { (1e-6, 1e6, "1e-6..1e6") };
    let tr = draw_triple(&mut c.rng, len, is32, lo, hi);
    c.describe(json!({"width": w, "len": len, "band": band, "relation": tr.relation, "style": tr.style, "x": tr.x, "y": tr.y, "z": tr.z}));
    c.hash_f64s(&tr.x);
    c.hash_f64s(&tr.y);
    c.hash_f64s(&tr.z);
    c.hash_f64s(&[len as f64, if is32 { 1.0 } else { 2.0 }]);
    c.bucket(&format!("width:{}", w));
    c.bucket(&format!("relation:{}", tr.relation));
    c.bucket(&format!("style:{}", tr.style));
    c.bucket(&format!("band:{}", band));
    c.bucket(if len == 1 { "len:1" } else if len <= 6 { "len:2-6" } else if len <= 16 { "len:7-16" } else { "len:17-30" });
    let ds = [diff(&tr.x, &tr.y), diff(&tr.y, &tr.z), diff(&tr.x, &tr.z)];
    if ds.iter().any(|d| d.iter().any(|v| *v != 0.0)) {
        c.nontrivial();
    }
    let (x, y, z): (Vec<T>, Vec<T>, Vec<T>) = (tv(&tr.x), tv(&tr.y), tv(&tr.z));

    // Euclidean
    let r_e = lp_refs(is32, len, 2, &ds);
    let o_e = observe(c, "euclidian.distance", &Distances::euclidian(), &x, &y, &z);
    if let Some(o) = &o_e {
        axioms(c, "euclid", &format!("{}/euclidian", w), e, o, &r_e);
    }
    // Manhattan
    let r_m = lp_refs(is32, len, 1, &ds);
    let o_m = observe(c, "manhattan.distance", &Distances::manhattan(), &x, &y, &z);
    if let Some(o) = &o_m {
        axioms(c, "manhattan", &format!("{}/manhattan", w), e, o, &r_m);
    }
    // Minkowski p = 1..8
    for p in 1..=8u32 {
        let r_p = lp_refs(is32, len, p, &ds);
        if r_p.iter().any(|r| !r.valid) {
            c.bucket(&format!("minkowski:p{}:powers-outside-normal-range(closed form not compared)", p));
        } else {
            c.bucket(&format!("minkowski:p{}:compared", p));
        }
        let sg = format!("{}/minkowski-p{}", w, p);
        if let Some(o) = observe(c, "minkowski.distance", &Distances::minkowski(p as u16), &x, &y, &z) {
            axioms(c, "minkowski", &sg, e, &o, &r_p);
            if p == 1 {
                if let Some(om) = &o_m {
                    coincide(c, "minkowski.p1=manhattan", &sg, &o, om, &r_p, &r_m);
                }
            }
            if p == 2 {
                if let Some(oe) = &o_e {
                    coincide(c, "minkowski.p2=euclidian", &sg, &o, oe, &r_p, &r_e);
                }
            }
        }
    }
}

// ------------------------------------------------------------------------------------ Hamming

fn hamming_refs(len: usize, e: f64, a: &[i64], b: &[i64], cc: &[i64]) -> [Ref; 3] {
    let cnt = |u: &[i64], v: &[i64]| u.iter().zip(v.iter()).filter(|(p, q)| p != q).count() as f64 / len as f64;
    let mk = |d: f64| Ref { d, tol: 2.0 * e * d, valid: true };
    [mk(cnt(a, b)), mk(cnt(b, cc)), mk(cnt(a, cc))]
}

/// F = result type; the symbols are small integers, presented to the library as Vec<F>, Vec<i64> or Vec<u8>
fn hamming_t<F: RealNumber>(c: &mut Case) {
    let w = width::<F>();
    let e = eps::<F>();
    let len = if scverif::big() == 0 && c.rng.bool(0.15) { c.rng.us(1, 2) } else { size(&mut c.rng, 30) };
    let alphabet = *c.rng.pick(&[2i64, 2, 3, 5, 100]);
    let x: Vec<i64> = (0..len).map(|_| c.rng.int(0, alphabet - 1)).collect();
    let relation = c.rng.below(4);
    let (y, z): (Vec<i64>, Vec<i64>) = match relation {
        0 => ((0..len).map(|_| c.rng.int(0, alphabet - 1)).collect(), (0..len).map(|_| c.rng.int(0, alphabet - 1)).collect()),
        1 => (x.clone(), if c.rng.bool(0.5) { x.clone() } else { (0..len).map(|_| c.rng.int(0, alphabet - 1)).collect() }),
        2 => {
            let mut y = x.clone();
            let i = c.rng.below(len);
            y[i] = (y[i] + 1) % alphabet.max(2);
            let mut z = y.clone();
            let j = c.rng.below(len);
            z[j] = (z[j] + 1) % alphabet.max(2);
            (y, z)
        }
        _ => {
            let mut y = x.clone();
            let mut z = x.clone();
            for i in 0..len {
                if c.rng.bool(0.3) {
                    y[i] = c.rng.int(0, alphabet - 1);
                }
                if c.rng.bool(0.3) {
                    z[i] = c.rng.int(0, alphabet - 1);
                }
            }
            (y, z)
        }
    };
    let elem = *c.rng.pick(&["float", "float", "i64", "u8"]);
    // floats: symbol k is presented as the finite value k·step + offset (distinct symbols -> distinct values)
    let step = *c.rng.pick(&[1.0, 0.5, 1e-6, 1e6, 0.1]);
    c.describe(json!({"result_width": w, "len": len, "alphabet": alphabet, "element_type": elem, "step": step, "x": x, "y": y, "z": z}));
    c.bucket(&format!("width:{}", w));
    c.bucket(&format!("element:{}", elem));
    c.bucket(&format!("alphabet:{}", alphabet));
    c.bucket(["relation:independent", "relation:equal", "relation:one-coordinate", "relation:sparse-differences"][relation]);
    let r = hamming_refs(len, e, &x, &y, &z);
    if r.iter().any(|q| q.d > 0.0) {
        c.nontrivial();
    }
    c.bucket_if(r.iter().any(|q| q.d == 1.0), "hamming:all-coordinates-differ");
    let h = Distances::hamming();
    let sg = format!("{}/hamming/{}", w, elem);
    macro_rules! obs {
        ($conv:expr, $ty:ty) => {{
            let (a, b, d): (Vec<$ty>, Vec<$ty>, Vec<$ty>) = (x.iter().map($conv).collect(), y.iter().map($conv).collect(), z.iter().map($conv).collect());
            c.must("hamming.distance", || {
                let dd = |p: &Vec<$ty>, q: &Vec<$ty>| -> f64 { f::<F>(Distance::<Vec<$ty>, F>::distance(&h, p, q)) };
                Obs { xy: dd(&a, &b), yx: dd(&b, &a), yz: dd(&b, &d), zy: dd(&d, &b), xz: dd(&a, &d), zx: dd(&d, &a), xx: dd(&a, &a), yy: dd(&b, &b), zz: dd(&d, &d) }
            })
        }};
    }
    let o = match elem {
        "float" => {
            // distinct symbols must stay distinct after rounding to F
            let vals: Vec<f64> = (0..alphabet).map(|k| f::<F>(t::<F>(k as f64 * step))).collect();
            if (1..vals.len()).any(|k| vals[k] == vals[k - 1]) {
                c.skip("symbols collapse after rounding");
                return;
            }
            obs!(|k: &i64| t::<F>(*k as f64 * step), F)
        }
        "i64" => obs!(|k: &i64| *k - 3, i64),
        _ => obs!(|k: &i64| *k as u8, u8),
    };
    if let Some(o) = o {
        axioms(c, "hamming", &sg, e, &o, &r);
        let all = [o.xy, o.yz, o.xz];
        c.check("hamming.range", all.iter().all(|v| *v <= 1.0), &sg, || format!("a Hamming distance exceeds 1: {:?}", all));
    }
}

// ------------------------------------------------------------------------------------ Mahalanobis

/// reference quadratic form zᵀ Σ⁻¹ z with certificate
struct MahaRef {
    sigma: Mat,
    l: Mat,
    lmin: f64,
    lmax: f64,
    cond: f64,
    evecs: Mat,
}

fn chol_solve(l: &Mat, b: &[f64]) -> Vec<f64> {
    let n = l.r;
    let mut y = vec![0.0; n];
    for i in 0..n {
        let s = dot2((0..i).map(|k| (l.at(i, k), -y[k])).chain(std::iter::once((b[i], 1.0))));
        y[i] = s / l.at(i, i);
    }
    let mut x = vec![0.0; n];
    for i in (0..n).rev() {
        let s = dot2((i + 1..n).map(|k| (l.at(k, i), -x[k])).chain(std::iter::once((y[i], 1.0))));
        x[i] = s / l.at(i, i);
    }
    x
}

impl MahaRef {
    fn new(sigma: &Mat) -> Option<MahaRef> {
        let n = sigma.r;
        for i in 0..n {
            for j in 0..i {
                if sigma.at(i, j) != sigma.at(j, i) {
                    return None;
                }
            }
        }
        let (lam, v) = jacobi_eig(sigma);
        let lmax = lam.iter().cloned().fold(f64::NEG_INFINITY, f64::max);
        let lmin = lam.iter().cloned().fold(f64::INFINITY, f64::min);
        if !(lmin > 0.0) || !lmax.is_finite() {
            return None;
        }
        let l = cholesky(sigma)?;
        Some(MahaRef { sigma: sigma.clone(), l, lmin, lmax, cond: lmax / lmin, evecs: v })
    }

    /// (s = zᵀ Σ⁻¹ z, bound on the error of s, converged). Cholesky solve + refinement with Dot2
    /// residuals; the solution is kept as the unevaluated sum w + dw of the last iterate and its last
    /// correction. Refinement with a working-precision factorisation contracts the error per step by
    /// about n·u·cond (<= 1e-10 here; 1e-6 is assumed below), so after the last correction the
    /// remaining error of the solution is <= 1e-6·‖dw‖; convergence itself is certified a posteriori
    /// by ‖dw‖ <= 1e-10·‖w‖. The other error source is the final rounding of s to f64.
    fn quad(&self, z: &[f64]) -> (f64, f64, bool) {
        let n = z.len();
        if z.iter().all(|v| *v == 0.0) {
            return (0.0, 0.0, true);
        }
        let mut w = chol_solve(&self.l, z);
        let resid = |w: &[f64]| -> Vec<f64> { (0..n).map(|i| dot2((0..n).map(|j| (self.sigma.at(i, j), -w[j])).chain(std::iter::once((z[i], 1.0))))).collect() };
        for _ in 0..3 {
            let r = resid(&w);
            let dw = chol_solve(&self.l, &r);
            for i in 0..n {
                w[i] += dw[i];
            }
        }
        let dw = chol_solve(&self.l, &resid(&w));
        let s = dot2(z.iter().cloned().zip(w.iter().cloned()).chain(z.iter().cloned().zip(dw.iter().cloned())));
        let converged = norm2(&dw) <= 1e-10 * norm2(&w);
        (s, 0.6 * f64::EPSILON * s.abs() + 1e-6 * norm2(z) * norm2(&dw), converged)
    }
}

struct MahaInput {
    n: usize,
    /// the covariance the closed form is defined with: the (rounded) matrix handed to
    /// new_from_covariance, or the exact sample covariance of the (rounded) data handed to new
    mref: MahaRef,
    cov_in: Option<Mat>,
    data: Option<Mat>,
    kind: String,
    /// size factor of the rounding-error bound (see maha_tol)
    nfac: f64,
}

fn cov_ref(data: &Mat) -> (Mat, f64) {
    let (m, n) = (data.r, data.c);
    let cols: Vec<Vec<f64>> = (0..n)
        .map(|j| {
            let col = data.col(j);
            let mu = csum(col.iter().cloned()) / m as f64;
            // second pass removes the rounding error of the mean
            let cen: Vec<f64> = col.iter().map(|v| v - mu).collect();
            let corr = csum(cen.iter().cloned()) / m as f64;
            cen.iter().map(|v| v - corr).collect()
        })
        .collect();
    let mut s = Mat::zeros(n, n);
    for i in 0..n {
        for j in 0..=i {
            let v = dot2(cols[i].iter().cloned().zip(cols[j].iter().cloned())) / (m as f64 - 1.0);
            s.set(i, j, v);
            s.set(j, i, v);
        }
    }
    let mut rho = 0.0f64;
    for j in 0..n {
        let mu = csum(data.col(j).into_iter()) / m as f64;
        let sd = s.at(j, j).sqrt();
        if sd > 0.0 {
            rho = rho.max(mu.abs() / sd);
        }
    }
    (s, rho)
}

fn draw_cov(c: &mut Case, n: usize, is32: bool) -> Option<MahaInput> {
    let kinds = ["identity", "scaled-identity", "diagonal", "spd", "spd", "spd", "equicorrelation", "integer-gram", "sparse-blocks", "tridiagonal"];
    let kind = *c.rng.pick(&kinds);
    let mut a = match kind {
        "identity" => Mat::eye(n),
        "scaled-identity" => Mat::eye(n).scale(c.rng.logu(1e-4, 1e4)),
        "diagonal" => {
            let cnd = c.rng.logu(1.0, 9e3);
            let d: Vec<f64> = (0..n).map(|_| c.rng.logu(1.0 / cnd, 1.0)).collect();
            Mat::diag(&d)
        }
        "equicorrelation" => {
            let r = *c.rng.pick(&[0.1, 0.5, 0.9, 0.99, -0.5]);
            let r = if r < 0.0 { -0.9 / (n.max(2) as f64 - 1.0) } else { r };
            Mat::from_fn(n, n, |i, j| if i == j { 1.0 } else { r })
        }
        "sparse-blocks" => {
            // 1x1 and 2x2 blocks on the diagonal with exact zeros elsewhere; inside a block the off-diagonal entry is
            // negative or positive and larger in magnitude than the smaller diagonal entry (pivot exchanges in a column
            // that ends in zeros); optionally a symmetric permutation
            let mut a = Mat::zeros(n, n);
            let mut i = 0;
            while i < n {
                if i + 1 < n && c.rng.bool(0.7) {
                    let d1 = c.rng.logu(0.5, 2.0);
                    let d2 = c.rng.logu(10.0, 200.0);
                    let off = (d1 * d2).sqrt() * c.rng.uni(0.3, 0.9) * if c.rng.bool(0.7) { -1.0 } else { 1.0 };
                    a.set(i, i, d1);
                    a.set(i + 1, i + 1, d2);
                    a.set(i, i + 1, off);
                    a.set(i + 1, i, off);
                    i += 2;
                } else {
                    a.set(i, i, c.rng.logu(0.5, 50.0));
                    i += 1;
                }
            }
            if c.rng.bool(0.5) {
                let p = c.rng.perm(n);
                Mat::from_fn(n, n, |r, q| a.at(p[r], p[q]))
            } else {
                a
            }
        }
        "tridiagonal" => {
            let d: Vec<f64> = (0..n).map(|_| c.rng.logu(1.0, 100.0)).collect();
            let mut a = Mat::diag(&d);
            for i in 0..n.saturating_sub(1) {
                let off = 0.45 * (d[i] * d[i + 1]).sqrt() * c.rng.uni(0.2, 1.0) * if c.rng.bool(0.6) { -1.0 } else { 1.0 };
                a.set(i, i + 1, off);
                a.set(i + 1, i, off);
            }
            a
        }
        "integer-gram" => {
            let b = Mat::from_fn(n, n + 2, |_, _| c.rng.int(-3, 3) as f64);
            let mut g = b.mul(&b.t());
            for i in 0..n {
                let v = g.at(i, i) + 1.0;
                g.set(i, i, v);
            }
            g
        }
        _ => spd(&mut c.rng, n, 9e3).0,
    };
    if kind != "identity" && kind != "scaled-identity" {
        let s = if c.rng.bool(0.5) { 1.0 } else { c.rng.logu(1e-4, 1e4) };
        a = a.scale(s);
    }
    sym(&mut a);
    if is32 {
        a = a.round_f32();
    }
    let mref = match MahaRef::new(&a) {
        Some(r) => r,
        None => {
            c.skip("drawn covariance not positive definite after rounding");
            return None;
        }
    };
    if !(mref.cond <= 1e4) {
        c.skip("drawn covariance has condition number above 1e4");
        return None;
    }
    Some(MahaInput { n, mref, cov_in: Some(a), data: None, kind: kind.to_string(), nfac: n as f64 + 4.0 })
}

fn draw_data(c: &mut Case, n: usize, is32: bool) -> Option<MahaInput> {
    let e = eps_of(is32);
    let m = n + 1 + if c.rng.bool(0.3) { c.rng.us(0, 3) } else { c.rng.us(0, 40) };
    let kind = *c.rng.pick(&["gaussian-graded", "gaussian-graded", "gaussian", "integer"]);
    let base = match kind {
        "integer" => Mat::from_fn(m, n, |_, _| c.rng.int(-9, 9) as f64),
        "gaussian" => Mat::randn(&mut c.rng, m, n),
        _ => {
            let g = Mat::randn(&mut c.rng, m, n);
            let c0 = c.rng.logu(1.0, 2e3);
            let s = graded(n, c0.sqrt());
            let q = rand_orth(&mut c.rng, n);
            let a = Mat::from_fn(n, n, |i, j| s[i] * q.at(j, i));
            g.mul(&a)
        }
    };
    let scale = if kind == "integer" || c.rng.bool(0.5) { 1.0 } else { c.rng.logu(1e-3, 1e3) };
    let rho_t = *c.rng.pick(&[0.0, 1.0, 1.0, 10.0, 100.0]);
    let mu: Vec<f64> = (0..n).map(|_| if kind == "integer" { (rho_t * c.rng.normal()).round() } else { rho_t * scale * c.rng.normal() }).collect();
    let mut data = Mat::from_fn(m, n, |i, j| base.at(i, j) * scale + mu[j]);
    if is32 {
        data = data.round_f32();
    }
    let (s, rho) = cov_ref(&data);
    let mref = match MahaRef::new(&s) {
        Some(r) => r,
        None => {
            c.skip("sample covariance of the drawn data not positive definite (data not of full rank)");
            return None;
        }
    };
    if !(mref.cond <= 1e4) {
        c.skip("sample covariance of the drawn data has condition number above 1e4");
        return None;
    }
    c.bucket(&format!("data:rows-minus-cols:{}", if m - n <= 3 { "1-3" } else { ">3" }));
    c.bucket(&format!("data:mean/sd<={}", if rho <= 1.0 { "1" } else if rho <= 10.0 { "10" } else if rho <= 100.0 { "100" } else { "inf" }));
    // covariance estimate in the tested width: |δS_ij| <= ((m+3)·u + m²u²(1+ρ)²)·sd_i·sd_j, ‖sd·sdᵀ‖ = trace(S)
    let tr: f64 = (0..n).map(|j| mref.sigma.at(j, j)).sum::<f64>() / mref.lmax;
    let nfac = 4.0 + n as f64 + tr.max(1.0) * (3.0 + m as f64 + (m * m) as f64 * e * (1.0 + rho) * (1.0 + rho));
    Some(MahaInput { n, mref, cov_in: None, data: Some(data), kind: format!("data:{}", kind), nfac })
}

/// Error bound (absolute, on the *squared* distance) of the explicit-inverse evaluation the
/// mechanism names: the LU inverse X satisfies ‖X − Σ⁻¹‖ <= c·n·u·cond·‖Σ⁻¹‖, the double sum adds
/// O(n·u)·‖Σ⁻¹‖‖z‖² and the estimate of Σ from data perturbs Σ relatively by nfac·u:
///   |s_computed − s| <= K · nfac · eps · cond · ‖z‖² / λmin   (+ underflow of the n² products)
const MAHA_K: f64 = 8.0;

fn maha_tol_s(inp: &MahaInput, z: &[f64], is32: bool) -> f64 {
    let (minpos, _) = range_of(is32);
    let zn = norm2(z);
    MAHA_K * inp.nfac * eps_of(is32) * inp.mref.cond * zn * zn / inp.mref.lmin + (inp.n * inp.n) as f64 * minpos
}

fn cond_class(cond: f64) -> &'static str {
    if cond <= 10.0 {
        "cond<=1e1"
    } else if cond <= 100.0 {
        "cond<=1e2"
    } else if cond <= 1000.0 {
        "cond<=1e3"
    } else {
        "cond<=1e4"
    }
}

fn maha_t<T: RealNumber, M: Matrix<T>>(c: &mut Case, from_data: bool, backend: &'static str) {
    let is32 = width::<T>() == "f32";
    let w = width::<T>();
    let e = eps::<T>();
    let n = if scverif::big() == 0 && c.rng.bool(0.15) { c.rng.us(1, 2) } else { size(&mut c.rng, 30) };
    let inp = match if from_data { draw_data(c, n, is32) } else { draw_cov(c, n, is32) } {
        Some(i) => i,
        None => return,
    };
    let (lo, hi, band) = if c.rng.bool(0.5) { (1e-3, 1e3, "1e-3..1e3") } else { (1e-6, 1e6, "1e-6..1e6") };
    let mut tr = draw_triple(&mut c.rng, n, is32, lo, hi);
    if c.rng.bool(0.25) {
        // differences along eigenvectors of the covariance (extreme values of the quadratic form)
        let pickv = |rng: &mut Rng| -> usize {
            match rng.below(3) {
                0 => 0,
                1 => n - 1,
                _ => rng.below(n),
            }
        };
        let (k1, k2) = (pickv(&mut c.rng), pickv(&mut c.rng));
        let a = c.rng.logu(lo, hi / 4.0);
        let b = c.rng.logu(lo, hi / 4.0);
        let x: Vec<f64> = if c.rng.bool(0.5) { vec![0.0; n] } else { tr.x.iter().map(|v| v / 4.0).collect() };
        let y: Vec<f64> = (0..n).map(|i| x[i] + a * inp.mref.evecs.at(i, k1)).collect();
        let z: Vec<f64> = (0..n).map(|i| y[i] + b * inp.mref.evecs.at(i, k2)).collect();
        let fix = |v: Vec<f64>| -> Vec<f64> { v.iter().map(|q| rt(is32, clamp(*q, hi))).collect() };
        tr = Triple { x: fix(x), y: fix(y), z: fix(z), relation: "eigen-directions", style: "eigen" };
    }
    c.describe(json!({"width": w, "backend": backend, "constructor": if from_data { "new(data)" } else { "new_from_covariance" }, "n": n, "kind": inp.kind,
        "cond": inp.mref.cond, "lambda_min": inp.mref.lmin, "lambda_max": inp.mref.lmax, "band": band, "relation": tr.relation,
        "covariance": inp.cov_in.as_ref().map(mat_json), "data": inp.data.as_ref().map(mat_json), "x": tr.x, "y": tr.y, "z": tr.z}));
    c.hash_f64s(&tr.x);
    c.hash_f64s(&tr.y);
    c.hash_f64s(&tr.z);
    c.hash_f64s(&inp.mref.sigma.d);
    c.hash_f64s(&[n as f64, if is32 { 1.0 } else { 2.0 }, if from_data { 1.0 } else { 0.0 }, backend.len() as f64]);
    c.bucket(&format!("width:{}", w));
    c.bucket(&format!("backend:{}", backend));
    c.bucket(&format!("cov-kind:{}", inp.kind));
    c.bucket(&format!("relation:{}", tr.relation));
    c.bucket(&format!("{}:{}", w, cond_class(inp.mref.cond)));
    c.bucket(if n == 1 { "n:1" } else if n <= 6 { "n:2-6" } else if n <= 16 { "n:7-16" } else { "n:17-30" });
    let ctor = if from_data { "data" } else { "cov" };
    let sg = format!("{}/{}/{}/{}", w, ctor, backend, cond_class(inp.mref.cond));

    let (x, y, z): (Vec<T>, Vec<T>, Vec<T>) = (tv(&tr.x), tv(&tr.y), tv(&tr.z));
    let md: Mahalanobis<T, M> = if from_data {
        let dm: M = to_m::<T, M>(inp.data.as_ref().unwrap());
        let via_facade = c.rng.bool(0.5);
        match c.must("mahalanobis.new", || if via_facade { Distances::mahalanobis(&dm) } else { Mahalanobis::new(&dm) }) {
            Some(m) => m,
            None => return,
        }
    } else {
        let cm: M = to_m::<T, M>(inp.cov_in.as_ref().unwrap());
        match c.must("mahalanobis.new_from_covariance", || Mahalanobis::new_from_covariance(&cm)) {
            Some(m) => m,
            None => return,
        }
    };
    let o = match observe(c, "mahalanobis.distance", &md, &x, &y, &z) {
        Some(o) => o,
        None => return,
    };
    // references
    let ds = [diff(&tr.x, &tr.y), diff(&tr.y, &tr.z), diff(&tr.x, &tr.z)];
    if ds.iter().any(|d| d.iter().any(|v| *v != 0.0)) {
        c.nontrivial();
    }
    let mut refs = [Ref { d: 0.0, tol: 0.0, valid: true }; 3];
    let mut weak_certificate = false;
    let mut s_info = Vec::new();
    for k in 0..3 {
        let (s, serr, converged) = inp.mref.quad(&ds[k]);
        let tol_s = maha_tol_s(&inp, &ds[k], is32);
        if s == 0.0 {
            refs[k] = Ref { d: 0.0, tol: 0.0, valid: true };
            continue;
        }
        if !(s > 0.0) || !converged || !(serr <= 0.1 * tol_s) {
            weak_certificate = true;
            continue;
        }
        let d = s.sqrt();
        // |d_c − d| = |s_c − s| / (d_c + d) <= tol_s / d ; meaningful only while the bound is well below s
        let valid = tol_s <= 0.25 * s;
        refs[k] = Ref { d, tol: tol_s / d, valid };
        s_info.push((s, tol_s));
    }
    if weak_certificate {
        c.inconclusive("reference quadratic form could not certify itself (refinement residual too large)");
        return;
    }
    if refs.iter().any(|r| !r.valid) {
        c.bucket(&format!("mahalanobis:{}:error-bound-vacuous(closed form not compared)", w));
    } else {
        c.bucket(&format!("mahalanobis:{}:compared", w));
    }
    axioms(c, if from_data { "mahalanobis-from-data" } else { "mahalanobis" }, &sg, e, &o, &refs);
    // identity covariance coincides with Euclidean
    if inp.kind == "identity" {
        c.bucket("mahalanobis:identity-covariance");
        let r_e = lp_refs(is32, n, 2, &ds);
        if let Some(oe) = observe(c, "euclidian.distance", &Distances::euclidian(), &x, &y, &z) {
            // compare the two library results against each other with the Euclidean tolerance only
            coincide(c, "mahalanobis.identity=euclidian", &sg, &o, &oe, &r_e, &r_e);
        }
    }
}

macro_rules! maha_dispatch {
    ($c:expr, $from_data:expr, $is32:expr, $backend:expr) => {
        match ($is32, $backend) {
            (false, "dense") => maha_t::<f64, DenseMatrix<f64>>($c, $from_data, "dense"),
            (true, "dense") => maha_t::<f32, DenseMatrix<f32>>($c, $from_data, "dense"),
            (false, "ndarray") => maha_t::<f64, ndarray::Array2<f64>>($c, $from_data, "ndarray"),
            (true, "ndarray") => maha_t::<f32, ndarray::Array2<f32>>($c, $from_data, "ndarray"),
            (false, _) => maha_t::<f64, nalgebra::DMatrix<f64>>($c, $from_data, "nalgebra"),
            (true, _) => maha_t::<f32, nalgebra::DMatrix<f32>>($c, $from_data, "nalgebra"),
        }
    };
}

/// Mahalanobis at extreme overall scales: covariance 2^k·A (A well conditioned, entries of order one), points
/// 2^(k/2+j)·u apart. Scaling by powers of two is exact, so the distance has to be 2^j·sqrt(uᵀA⁻¹u) whatever k is —
/// also when the products of two coordinate differences (2^(k+2j)) or of two covariance entries leave the range of
/// the width although every input, every entry of the inverse and the distance itself are comfortably inside it.
fn maha_scale_t<T: RealNumber>(c: &mut Case) {
    let is32 = width::<T>() == "f32";
    let n = c.rng.us(1, 6);
    let a0 = spd(&mut c.rng, n, 50.0).0;
    let mut a = a0.clone();
    sym(&mut a);
    let a = if is32 { a.round_f32() } else { a };
    if !(cond(&a) <= 1e3) {
        c.skip("drawn covariance not well conditioned after rounding");
        return;
    }
    // exponent budget: keep inputs, the inverse and the distance at least 2^20 inside the normal range
    let (kmax, emax) = if is32 { (100i32, 106i32) } else { (900i32, 1000i32) };
    let k = 2 * c.rng.int(-(kmax as i64) / 2, (kmax as i64) / 2) as i32;
    // |j| <= 40 (f32) / 60 (f64): the squared distance 2^(2j)·uᵀA⁻¹u, which the closed form itself contains, stays finite
    let jlim = (emax - k.abs() / 2).min(if is32 { 40 } else { 60 });
    let j = c.rng.int(-(jlim as i64), jlim as i64) as i32;
    let u: Vec<f64> = (0..n).map(|_| if is32 { (c.rng.normal() as f32) as f64 } else { c.rng.normal() }).collect();
    if u.iter().all(|v| *v == 0.0) {
        c.skip("zero direction");
        return;
    }
    let base: Vec<f64> = if c.rng.bool(0.5) { vec![0.0; n] } else { (0..n).map(|_| c.rng.int(-4, 4) as f64).collect() };
    let sc = 2f64.powi(k / 2 + j);
    let xs: Vec<f64> = base.iter().map(|b| b * sc).collect();
    let ys: Vec<f64> = (0..n).map(|i| (base[i] + u[i]) * sc).collect();
    // the difference the library will form, in units of 2^(k/2+j) (exact: power-of-two scaling)
    let w: Vec<f64> = (0..n).map(|i| if is32 { ((ys[i] as f32 - xs[i] as f32) as f64) / sc } else { (ys[i] - xs[i]) / sc }).collect();
    let cov = a.scale(2f64.powi(k));
    let sol = match solve(&a, &Mat::from_fn(n, 1, |i, _| w[i])) {
        Some(v) => v,
        None => {
            c.skip("reference solve failed");
            return;
        }
    };
    let q = csum((0..n).map(|i| w[i] * sol.at(i, 0)));
    if !(q > 0.0) {
        c.skip("degenerate direction");
        return;
    }
    let dref = q.sqrt() * 2f64.powi(j);
    let products_leave_range = {
        let e = (k + 2 * j) as f64;
        let (lo, hi) = if is32 { (-126.0, 127.0) } else { (-1022.0, 1023.0) };
        e < lo + 8.0 || e > hi - 8.0
    };
    c.describe(json!({"width": width::<T>(), "n": n, "covariance = 2^k * A": {"k": k, "A": mat_json(&a)}, "x": xs, "y": ys, "j": j, "closed_form_distance": dref}));
    c.hash_f64s(&xs);
    c.hash_f64s(&ys);
    c.hash_f64s(&cov.d);
    c.nontrivial();
    c.bucket(&format!("width:{}", width::<T>()));
    c.bucket(if k.abs() * 10 >= kmax * 6 { "cov-scale:extreme" } else if k.abs() * 10 >= kmax * 2 { "cov-scale:far-from-1" } else { "cov-scale:moderate" });
    c.bucket_if(products_leave_range, "products-of-two-differences-leave-the-range");
    let sg = format!("{}/cov-scale-2^k/{}", width::<T>(), if products_leave_range { "difference-products-out-of-range" } else { "difference-products-in-range" });
    let cm: DenseMatrix<T> = to_dense(&cov);
    let md = match c.must("mahalanobis.new_from_covariance", || Mahalanobis::new_from_covariance(&cm)) {
        Some(m) => m,
        None => return,
    };
    let (x, y): (Vec<T>, Vec<T>) = (tv(&xs), tv(&ys));
    if let Some((dxy, dyx, dxx)) = c.must("mahalanobis.distance", || (f(md.distance(&x, &y)), f(md.distance(&y, &x)), f(md.distance(&x, &x)))) {
        let tol = 256.0 * (n as f64 + 4.0) * eps::<T>() * cond(&a);
        c.ratio("mahalanobis.closed-form", (dxy - dref).abs() / dref, tol, &sg, || format!("d(x, y) = {:e}, closed form 2^j·sqrt(uᵀA⁻¹u) = {:e}", dxy, dref));
        c.ratio("mahalanobis.symmetric", (dxy - dyx).abs() / dref, tol, &sg, || format!("d(x, y) = {:e}, d(y, x) = {:e}", dxy, dyx));
        c.check("mahalanobis.identical=>0", dxx == 0.0, &sg, || format!("d(x, x) = {:e}", dxx));
    }
}

fn maha_scale(c: &mut Case) {
    if c.rng.bool(0.4) {
        maha_scale_t::<f32>(c)
    } else {
        maha_scale_t::<f64>(c)
    }
}

fn maha_cov(c: &mut Case) {
    let is32 = c.rng.bool(0.5);
    let backend = *c.rng.pick(&["dense", "dense", "dense", "ndarray", "nalgebra"]);
    maha_dispatch!(c, false, is32, backend);
}

fn maha_data(c: &mut Case) {
    // cov() is only implemented for DenseMatrix (the ndarray / nalgebra bindings panic "Not implemented")
    let is32 = c.rng.bool(0.5);
    maha_dispatch!(c, true, is32, "dense");
}

// ------------------------------------------------------------------------------------ length contracts

const REJ_LMAX: usize = 34; // every ordered pair of different lengths 0..=34 (covers block-wise loops of width 4, 8, 16, 32)
const REJ_SIMPLE_KINDS: u64 = 7;
const REJ_SIMPLE: u64 = REJ_SIMPLE_KINDS * 2 * ((REJ_LMAX as u64 + 1) * (REJ_LMAX as u64));
const REJ_MAHA_N: u64 = 4;
const REJ_MAHA_L: u64 = 6; // lengths 0..=5
const REJ_MAHA: u64 = 2 * 2 * REJ_MAHA_N * (REJ_MAHA_L * REJ_MAHA_L - 1);
const REJ_TOTAL: u64 = REJ_SIMPLE + REJ_MAHA;

fn rand_vec<T: RealNumber>(c: &mut Case, len: usize) -> Vec<T> {
    (0..len).map(|_| t::<T>(c.rng.int(-5, 5) as f64 * 0.5)).collect()
}

fn reject_simple<T: RealNumber>(c: &mut Case, kind: u64, lx: usize, ly: usize) {
    let w = width::<T>();
    let x: Vec<T> = rand_vec(c, lx);
    let y: Vec<T> = rand_vec(c, ly);
    let name = ["euclidian", "manhattan", "minkowski-p1", "minkowski-p2", "minkowski-p3", "minkowski-p8", "hamming"][kind as usize];
    c.describe(json!({"distance": name, "width": w, "x": fv(&x), "y": fv(&y)}));
    c.nontrivial();
    c.bucket(&format!("reject:{}", name));
    c.bucket(if lx < ly { "reject:first-shorter" } else { "reject:first-longer" });
    c.bucket_if(lx == 0 || ly == 0, "reject:one-empty");
    let sg = format!("{}/{}/{}", w, name, if lx < ly { "first-shorter" } else { "first-longer" });
    let oracle = "rejects-length-mismatch";
    match kind {
        0 => c.must_panic(oracle, &sg, || -> T { Distances::euclidian().distance(&x, &y) }),
        1 => c.must_panic(oracle, &sg, || -> T { Distances::manhattan().distance(&x, &y) }),
        2 => c.must_panic(oracle, &sg, || -> T { Distances::minkowski(1).distance(&x, &y) }),
        3 => c.must_panic(oracle, &sg, || -> T { Distances::minkowski(2).distance(&x, &y) }),
        4 => c.must_panic(oracle, &sg, || -> T { Distances::minkowski(3).distance(&x, &y) }),
        5 => c.must_panic(oracle, &sg, || -> T { Distances::minkowski(8).distance(&x, &y) }),
        _ => c.must_panic(oracle, &sg, || -> T { Distance::<Vec<T>, T>::distance(&Distances::hamming(), &x, &y) }),
    };
}

fn reject_maha<T: RealNumber>(c: &mut Case, from_data: bool, n: usize, lx: usize, ly: usize) {
    let w = width::<T>();
    let x: Vec<T> = rand_vec(c, lx);
    let y: Vec<T> = rand_vec(c, ly);
    let ctor = if from_data { "data" } else { "cov" };
    let how = if lx == ly {
        "equal-lengths-not-matching-covariance"
    } else if lx == n {
        "second-mismatches"
    } else if ly == n {
        "first-mismatches"
    } else {
        "both-mismatch"
    };
    c.nontrivial();
    c.bucket("reject:mahalanobis");
    c.bucket(&format!("reject:mahalanobis:{}", how));
    let sg = format!("{}/mahalanobis-{}/{}", w, ctor, how);
    let md: Option<Mahalanobis<T, DenseMatrix<T>>> = if from_data {
        let mut d = Mat::from_fn(n + 3, n, |_, _| c.rng.int(-4, 4) as f64);
        for j in 0..n {
            // guarantees full column rank of the centred data
            let v = d.at(j, j) + 10.0;
            d.set(j, j, v);
        }
        c.describe(json!({"distance": "mahalanobis", "constructor": "new(data)", "width": w, "n": n, "data": mat_json(&d), "x": fv(&x), "y": fv(&y)}));
        // the constructor must succeed only for full-rank data: certified by the reference
        match MahaRef::new(&cov_ref(&d).0) {
            Some(r) if r.cond <= 1e4 => {}
            _ => {
                c.skip("drawn data for the length-contract case not of full rank / ill-conditioned");
                return;
            }
        }
        let dm: DenseMatrix<T> = to_dense(&d);
        c.must("mahalanobis.new", || Mahalanobis::new(&dm))
    } else {
        let b = Mat::from_fn(n, n, |_, _| c.rng.int(-2, 2) as f64);
        let mut s = b.mul(&b.t());
        for j in 0..n {
            let v = s.at(j, j) + 1.0;
            s.set(j, j, v);
        }
        c.describe(json!({"distance": "mahalanobis", "constructor": "new_from_covariance", "width": w, "n": n, "covariance": mat_json(&s), "x": fv(&x), "y": fv(&y)}));
        let sm: DenseMatrix<T> = to_dense(&s);
        c.must("mahalanobis.new_from_covariance", || Mahalanobis::new_from_covariance(&sm))
    };
    if let Some(md) = md {
        c.must_panic("rejects-length-mismatch", &sg, || -> T { md.distance(&x, &y) });
    }
}

fn reject(c: &mut Case) {
    let idx = c.index % REJ_TOTAL;
    if idx < REJ_SIMPLE {
        let pairs: Vec<(usize, usize)> = (0..=REJ_LMAX).flat_map(|a| (0..=REJ_LMAX).filter(move |b| *b != a).map(move |b| (a, b))).collect();
        let np = pairs.len() as u64;
        let (lx, ly) = pairs[(idx % np) as usize];
        let rest = idx / np;
        let is32 = rest % 2 == 1;
        let kind = rest / 2;
        if is32 {
            reject_simple::<f32>(c, kind, lx, ly)
        } else {
            reject_simple::<f64>(c, kind, lx, ly)
        }
    } else {
        let idx = idx - REJ_SIMPLE;
        let per_n = REJ_MAHA_L * REJ_MAHA_L - 1;
        let k = idx % per_n;
        let rest = idx / per_n;
        let n = (rest % REJ_MAHA_N) as usize + 1;
        let rest = rest / REJ_MAHA_N;
        let is32 = rest % 2 == 1;
        let from_data = rest / 2 == 1;
        // k-th pair (lx, ly) in 0..=5 x 0..=5 except (n, n)
        let pairs: Vec<(usize, usize)> = (0..REJ_MAHA_L as usize).flat_map(|a| (0..REJ_MAHA_L as usize).map(move |b| (a, b))).filter(|p| *p != (n, n)).collect();
        let (lx, ly) = pairs[k as usize];
        if is32 {
            reject_maha::<f32>(c, from_data, n, lx, ly)
        } else {
            reject_maha::<f64>(c, from_data, n, lx, ly)
        }
    }
}

// ------------------------------------------------------------------------------------ registration

fn metric(c: &mut Case) {
    if c.rng.bool(0.5) {
        metric_t::<f32>(c)
    } else {
        metric_t::<f64>(c)
    }
}

fn hamming(c: &mut Case) {
    if c.rng.bool(0.5) {
        hamming_t::<f32>(c)
    } else {
        hamming_t::<f64>(c)
    }
}

/// the closed forms, the metric laws and the Mahalanobis identities on vectors of 31..105 entries, Hamming on 31..105 (beyond the
/// ordinary bound of 30)
fn large(c: &mut Case) {
    let g = c.index % 3;
    scverif::with_big(1, || match g {
        0 => metric(c),
        1 => hamming(c),
        _ => maha_cov(c),
    })
}

fn main() {
    runner::main(Spec {
        property: "C17",
        rule: "families: metric (one random triple x,y,z of length 1..30 evaluated by Euclidean, Manhattan and Minkowski p=1..8: closed forms, non-negativity, d(v,v)==0, symmetry, triangle inequality, p=1/p=2 coincidences), hamming (symbol vectors presented as floats / i64 / u8, result f32 or f64), maha_cov (Mahalanobis::new_from_covariance on SPD matrices of order 1..30 with measured condition number <= 1e4, DenseMatrix / ndarray / nalgebra; identity covariance vs Euclidean), maha_data (Mahalanobis::new / Distances::mahalanobis on full-rank data whose exact sample covariance has condition number <= 1e4), reject (exhaustive over distance x width x all pairs of different lengths 0..8, and for Mahalanobis over covariance order 1..4 x all length pairs 0..5 other than the matching one; values random). Triples are independent, equal, differing in one coordinate (by a new value or 1..4 ulps), collinear, near-equal, sparse differences, multiples, or (Mahalanobis) differences along eigenvectors of the covariance; components of magnitude 1e-6..1e6 (or the narrower band 1e-3..1e3), common scale / mixed magnitudes / exact integers / extremes; f32 and f64 with equal probability. A case is non-trivial when at least two of its three vectors differ (every reject case is); distinct = distinct hash of (width, length, all vector components, covariance entries).; maha_scale: covariance 2^k·A (A SPD of order 1..6, cond <= 1e3, k even, |k| <= 900 in f64 / 100 in f32) and points 2^(k/2+j)·u apart (|j| <= 60 / 40): closed form 2^j·sqrt(uᵀA⁻¹u), symmetry, d(x,x) = 0; large: closed forms, metric laws, Hamming and Mahalanobis identities on 31..105 entries",
        assumptions: vec![
            "oracle arithmetic is f64 on the inputs already rounded to the tested width: compensated sums for the l_p family, Cholesky solve + 3 refinement steps with Dot2 residuals for Mahalanobis; a Mahalanobis reference that did not converge (last correction > 1e-10 of the solution) or whose error estimate exceeds 10 % of the tolerance makes the case inconclusive",
            "closed-form tolerance of the l_p family: relative 4·(len + 4 + |ln d|)·eps (the |ln d| term only for p >= 3: rounding of the exponent 1/p), i.e. 8x the first-order rounding-error bound of coordinate-wise accumulation and root",
            "the closed form (and symmetry / triangle inequality) of a power-sum distance is only compared when the sum of |x_i - y_i|^p is a normal number of the tested width (>= 4·len·MIN_POSITIVE, <= MAX/4); with components up to 1e6 this excludes e.g. f32 Minkowski p >= 7 at the top of the range and distances between vectors a few ulps apart for p >= 3 (buckets 'powers-outside-normal-range'); non-negativity and d(v,v)==0 are checked regardless",
            "Mahalanobis tolerance (on the squared distance): 8·N·eps·cond(S)·|z|^2/lambda_min(S) with N = n + 4 for a given covariance and N = 4 + n + trace(S)/lambda_max·(3 + m + m^2·eps·(1+max|mean|/sd)^2) for a covariance estimated from m rows — the forward-error bound of an explicitly inverted covariance; where this bound exceeds a quarter of the squared distance the closed form, symmetry and triangle inequality are not compared (bucket 'error-bound-vacuous'), non-negativity / NaN-freeness and d(v,v)==0 still are",
            "triangle-inequality slack = sum of the three closed-form tolerances (true distances satisfy the inequality, each computed one is within its bound)",
            "Mahalanobis::new is exercised with DenseMatrix only: cov() of the ndarray and nalgebra bindings is unimplemented (panics 'Not implemented'), which is outside this property's statement",
            "'rejected' = the call panics (the distances have no Result interface)",
        ],
        families: vec![
            Family::new("metric", 50000, 1000000, metric),
            Family::new("hamming", 10000, 200000, hamming),
            Family::new("maha_cov", 12000, 200000, maha_cov),
            Family::new("maha_data", 8000, 120000, maha_data),
            Family::new("maha_scale", 6000, 100000, maha_scale),
            Family::new("large", 600, 5000, large),
            Family::new("reject", REJ_TOTAL, REJ_TOTAL, reject).exhaustive(true, true),
        ],
        min_nontrivial: 10000,
        case_timeout_s: 120,
    });
}
