//! C01 — LU, QR, Cholesky, SVD: factors multiply back to the input; solves; Cholesky rejects indefinite.
#![allow(non_snake_case)]
use scverif::gen::*;
use scverif::refla::*;
use scverif::*;
use smartcore::linalg::naive::dense_matrix::DenseMatrix;
use smartcore::linalg::cholesky::CholeskyDecomposableMatrix;
use smartcore::linalg::lu::LUDecomposableMatrix;
use smartcore::linalg::qr::QRDecomposableMatrix;
use smartcore::linalg::svd::SVDDecomposableMatrix;
use smartcore::math::num::RealNumber;

/// The quantifier's bound is 1e6 for both widths. The factorisations and the LU / QR / Cholesky solves are judged by
/// backward-error residuals, which do not depend on the condition number, so they get the full range in f32 too
/// (half of the f32 draws stay below 1e3). The SVD family keeps f32 inputs below 1e3: its solver applies a rank
/// tolerance of max(m,n)·eps·s_max, for which an f32 matrix of condition 1e6 is numerically rank-deficient.
fn maxcond<T: RealNumber>(svd: bool) -> f64 {
    if width::<T>() == "f32" && svd {
        1e3
    } else {
        1e6
    }
}

fn tau<T: RealNumber>(m: usize, n: usize) -> f64 {
    100.0 * (m.max(n) as f64) * eps::<T>()
}

struct Input {
    a: Mat, // already rounded to T
    kind: String,
    scale: f64,
    cond: f64,
}

/// full-rank m×n input rounded to T with cond <= maxcond, rescaled; None if the draw was ill-conditioned
fn draw_input<T: RealNumber>(c: &mut Case, m: usize, n: usize, svd: bool) -> Option<Input> {
    let kinds: Vec<&str> = FULLRANK_KINDS.iter().cloned().collect();
    let kind = *c.rng.pick(&kinds);
    let mc = if width::<T>() == "f32" && svd {
        // the SVD solver drops singular values below max(m,n)·eps·s_max: inputs stay a factor 10 clear of that (2e4 for
        // a 40-row f32 matrix, 1e6 for tiny ones), half of the draws below 1e3
        if c.rng.bool(0.5) {
            1e3
        } else {
            (0.1 / (m.max(n) as f64 * eps::<T>())).min(1e6).max(1e3)
        }
    } else if width::<T>() == "f32" && c.rng.bool(0.5) {
        1e3
    } else {
        maxcond::<T>(svd)
    };
    let a0 = fullrank(&mut c.rng, m, n, kind, mc);
    let scale = draw_scale(&mut c.rng);
    let a = if width::<T>() == "f32" { a0.scale(scale).round_f32() } else { a0.scale(scale) };
    let cnd = cond(&a);
    if !(cnd <= mc) {
        c.skip("drawn matrix has condition number above the property's bound");
        return None;
    }
    c.bucket(&format!("kind:{}", kind));
    c.bucket(&format!("scale:{}", scale_class(scale)));
    c.bucket(&format!("width:{}", width::<T>()));
    c.bucket(if m == n { "shape:square" } else if m > n { "shape:tall" } else { "shape:wide" });
    c.bucket_if(m.max(n) > 16, "size:>16");
    c.bucket_if(cnd > 1e3, "cond:>1e3");
    Some(Input { a, kind: kind.to_string(), scale, cond: cnd })
}

fn sig<T: RealNumber>(inp: &Input) -> String {
    let (m, n) = (inp.a.r, inp.a.c);
    format!("{}/{}/{}", width::<T>(), scale_class(inp.scale), if m == n { "square" } else if m > n { "tall" } else { "wide" })
}

fn describe<T: RealNumber>(c: &mut Case, what: &str, inp: &Input, b: Option<&Mat>) {
    c.describe(json!({"op": what, "width": width::<T>(), "kind": inp.kind, "scale": inp.scale, "cond": inp.cond,
        "A": mat_json(&inp.a), "B": b.map(mat_json)}));
    c.hash_f64s(&inp.a.d);
    if let Some(b) = b {
        c.hash_f64s(&b.d);
    }
    c.hash_f64s(&[inp.a.r as f64, if width::<T>() == "f32" { 1.0 } else { 2.0 }, hash_tag(what)]);
    if inp.a.r.max(inp.a.c) >= 2 {
        c.nontrivial();
    }
}

fn hash_tag(s: &str) -> f64 {
    (scverif::rng::hash_str(s) % 1000003) as f64
}

fn rhs<T: RealNumber>(c: &mut Case, m: usize, scale: f64) -> Mat {
    let k = c.rng.us(1, 4);
    let s = if c.rng.bool(0.5) { scale } else { 1.0 };
    let mut b = Mat::randn(&mut c.rng, m, k).scale(s);
    // structured right-hand sides: exact zeros at the head / tail of a column, unit vectors, the identity, a zero column
    let kind = match c.rng.below(10) {
        0 => {
            b = Mat::eye(m).scale(s);
            "identity"
        }
        1 => {
            b = Mat::from_fn(m, k, |_, _| 0.0);
            for j in 0..k {
                let i = c.rng.below(m);
                b.set(i, j, s * if c.rng.bool(0.5) { 1.0 } else { -1.0 });
            }
            "unit-vectors"
        }
        2 | 3 => {
            // every column keeps a random contiguous stretch, the rest is exactly zero
            for j in 0..k {
                let lo = c.rng.below(m);
                let hi = c.rng.us(lo, m - 1);
                for i in 0..m {
                    if i < lo || i > hi {
                        b.set(i, j, 0.0);
                    }
                }
            }
            "zero-head-and-tail"
        }
        4 => {
            let j = c.rng.below(k);
            for i in 0..m {
                b.set(i, j, 0.0);
            }
            "one-zero-column"
        }
        _ => "dense",
    };
    let k = b.c;
    c.bucket(&format!("rhs:{}", kind));
    c.bucket(&format!("rhs-cols:{}", if k <= 4 { k.to_string() } else { ">4".to_string() }));
    if width::<T>() == "f32" {
        b.round_f32()
    } else {
        b
    }
}

fn is_upper(m: &Mat) -> bool {
    for i in 0..m.r {
        for j in 0..m.c.min(i) {
            if m.at(i, j) != 0.0 {
                return false;
            }
        }
    }
    true
}

fn is_lower(m: &Mat) -> bool {
    is_upper(&m.t())
}

fn is_permutation(p: &Mat) -> bool {
    if p.r != p.c {
        return false;
    }
    let n = p.r;
    for i in 0..n {
        let mut ones = 0;
        for j in 0..n {
            let v = p.at(i, j);
            if v == 1.0 {
                ones += 1;
            } else if v != 0.0 {
                return false;
            }
        }
        if ones != 1 {
            return false;
        }
    }
    for j in 0..n {
        let s: f64 = (0..n).map(|i| p.at(i, j)).sum();
        if s != 1.0 {
            return false;
        }
    }
    true
}

fn finite(c: &mut Case, oracle: &str, sg: &str, ms: &[&Mat]) -> bool {
    let ok = ms.iter().all(|m| m.all_finite());
    c.check(oracle, ok, sg, || "non-finite entry in a returned factor / solution".to_string())
}

// ---------------------------------------------------------------- LU
fn lu_t<T: RealNumber>(c: &mut Case) {
    let n = size(&mut c.rng, 40);
    let inp = match draw_input::<T>(c, n, n, false) {
        Some(i) => i,
        None => return,
    };
    let b = rhs::<T>(c, n, inp.scale);
    describe::<T>(c, "lu", &inp, Some(&b));
    let sg = sig::<T>(&inp);
    let a: DenseMatrix<T> = to_dense(&inp.a);
    let t = tau::<T>(n, n);
    let an = inp.a.fro();
    let lu = match c.must("lu", || a.lu()) {
        Some(Ok(lu)) => lu,
        Some(Err(e)) => {
            c.check("lu.ok", false, &sg, || format!("lu() returned Err({}) for a non-singular matrix", e));
            return;
        }
        None => return,
    };
    let (L, U, P) = (from_m(&lu.L()), from_m(&lu.U()), from_m(&lu.pivot()));
    if !finite(c, "lu.finite", &sg, &[&L, &U, &P]) {
        return;
    }
    let unit = (0..n).all(|i| L.at(i, i) == 1.0);
    c.check("lu.L-unit-lower", unit && is_lower(&L), &sg, || "L is not unit lower triangular".into());
    c.check("lu.U-upper", is_upper(&U), &sg, || "U is not upper triangular".into());
    c.check("lu.P-permutation", is_permutation(&P), &sg, || format!("pivot() is not a permutation matrix: {:?}", P.d));
    let swaps = (0..n).filter(|&i| P.at(i, i) != 1.0).count();
    c.bucket_if(swaps > 0, "lu:pivot-swaps");
    c.bucket_if((0..n).any(|i| inp.a.at(i, i) == 0.0), "lu:zero-on-diagonal");
    let res = P.mul(&inp.a).sub(&L.mul(&U)).fro();
    c.ratio("lu.PA=LU", res, t * an, &sg, || "‖P·A − L·U‖_F".into());
    // inverse
    if let Some(r) = c.must("lu.inverse", || lu.inverse()) {
        match r {
            Ok(inv) => {
                let X = from_m(&inv);
                if finite(c, "lu.inverse.finite", &sg, &[&X]) {
                    let res = inp.a.mul(&X).sub(&Mat::eye(n)).fro();
                    c.ratio("lu.inverse.residual", res, t * an * X.fro(), &sg, || "‖A·inv − I‖_F vs τ‖A‖‖inv‖".into());
                }
            }
            Err(e) => {
                c.check("lu.inverse.ok", false, &sg, || format!("inverse() Err({})", e));
            }
        }
    }
    // solve
    let bm: DenseMatrix<T> = to_dense(&b);
    if let Some(r) = c.must("lu_solve_mut", || a.clone().lu_solve_mut(bm)) {
        match r {
            Ok(x) => {
                let X = from_m(&x);
                let shape_ok = (X.r, X.c) == (n, b.c);
                c.check("lu.solve.shape", shape_ok, &sg, || format!("solution shape {}x{}", X.r, X.c));
                if shape_ok && finite(c, "lu.solve.finite", &sg, &[&X]) {
                    let res = inp.a.mul(&X).sub(&b).fro();
                    c.ratio("lu.solve.residual", res, t * (an * X.fro() + b.fro()), &sg, || "‖A·X − B‖_F".into());
                }
            }
            Err(e) => {
                c.check("lu.solve.ok", false, &sg, || format!("lu_solve_mut Err({})", e));
            }
        }
    }
}

// ---------------------------------------------------------------- QR
fn qr_t<T: RealNumber>(c: &mut Case) {
    let n = size(&mut c.rng, 40);
    let m = if c.rng.bool(0.45) { n } else { c.rng.us(n, 40.max(n)) };
    let inp = match draw_input::<T>(c, m, n, false) {
        Some(i) => i,
        None => return,
    };
    let b = rhs::<T>(c, m, inp.scale);
    describe::<T>(c, "qr", &inp, Some(&b));
    let sg = sig::<T>(&inp);
    let a: DenseMatrix<T> = to_dense(&inp.a);
    let t = tau::<T>(m, n);
    let an = inp.a.fro();
    let qr = match c.must("qr", || a.qr()) {
        Some(Ok(q)) => q,
        Some(Err(e)) => {
            c.check("qr.ok", false, &sg, || format!("qr() Err({})", e));
            return;
        }
        None => return,
    };
    let (Q, R) = match c.must("qr.Q/R", || (from_m(&qr.Q()), from_m(&qr.R()))) {
        Some(x) => x,
        None => return,
    };
    if !finite(c, "qr.finite", &sg, &[&Q, &R]) {
        return;
    }
    c.check("qr.shapes", (Q.r, Q.c) == (m, n) && (R.r, R.c) == (n, n), &sg, || format!("Q {}x{}, R {}x{}", Q.r, Q.c, R.r, R.c));
    c.check("qr.R-upper", is_upper(&R), &sg, || "R is not upper triangular".into());
    c.ratio("qr.A=QR", inp.a.sub(&Q.mul(&R)).fro(), t * an, &sg, || "‖A − Q·R‖_F".into());
    c.ratio("qr.QtQ=I", Q.orth_err(), t, &sg, || "‖QᵀQ − I‖_F".into());
    let bm: DenseMatrix<T> = to_dense(&b);
    if let Some(r) = c.must("qr_solve_mut", || a.clone().qr_solve_mut(bm)) {
        match r {
            Ok(x) => {
                let Xfull = from_m(&x);
                if Xfull.r < n || Xfull.c != b.c {
                    c.check("qr.solve.shape", false, &sg, || format!("solution block {}x{}", Xfull.r, Xfull.c));
                    return;
                }
                let X = Xfull.slice(0, n, 0, b.c);
                if finite(c, "qr.solve.finite", &sg, &[&X]) {
                    let r = inp.a.mul(&X).sub(&b);
                    if m == n {
                        c.ratio("qr.solve.residual", r.fro(), t * (an * X.fro() + b.fro()), &sg, || "‖A·X − B‖_F".into());
                    } else {
                        let g = inp.a.t().mul(&r).fro();
                        c.ratio("qr.solve.normal-eq", g, t * an * (b.fro() + an * X.fro()), &sg, || "‖Aᵀ(A·X − B)‖_F".into());
                    }
                }
            }
            Err(e) => {
                c.check("qr.solve.ok", false, &sg, || format!("qr_solve_mut Err({})", e));
            }
        }
    }
}

// ---------------------------------------------------------------- Cholesky
fn chol_t<T: RealNumber>(c: &mut Case) {
    let n = size(&mut c.rng, 40);
    let mc = if width::<T>() == "f32" && c.rng.bool(0.5) { 1e3 } else { maxcond::<T>(false) };
    let (a0, kind) = spd(&mut c.rng, n, mc);
    let scale = draw_scale(&mut c.rng);
    let mut a = a0.scale(scale);
    if width::<T>() == "f32" {
        a = a.round_f32();
    }
    let cnd = cond(&a);
    // positive definiteness of the *rounded* input is certified by the reference
    let (lam, _) = jacobi_eig(&a);
    if !(cnd <= mc) || !(lam[n - 1] > 0.0) {
        c.skip("drawn SPD matrix ill-conditioned after rounding");
        return;
    }
    let inp = Input { a, kind: format!("spd:{}", kind), scale, cond: cnd };
    c.bucket(&format!("kind:spd:{}", kind));
    c.bucket(&format!("scale:{}", scale_class(scale)));
    c.bucket(&format!("width:{}", width::<T>()));
    let b = rhs::<T>(c, n, scale);
    describe::<T>(c, "cholesky", &inp, Some(&b));
    let sg = sig::<T>(&inp);
    let am: DenseMatrix<T> = to_dense(&inp.a);
    let t = tau::<T>(n, n);
    let an = inp.a.fro();
    let ch = match c.must("cholesky", || am.cholesky()) {
        Some(Ok(x)) => x,
        Some(Err(e)) => {
            c.check("chol.ok", false, &sg, || format!("cholesky() Err({}) on an SPD matrix (min eigenvalue {:e}, cond {:e})", e, lam[n - 1], cnd));
            return;
        }
        None => return,
    };
    let (L, U) = (from_m(&ch.L()), from_m(&ch.U()));
    if !finite(c, "chol.finite", &sg, &[&L, &U]) {
        return;
    }
    c.check("chol.L-lower", is_lower(&L), &sg, || "L not lower triangular".into());
    c.check("chol.U=Lt", U == L.t(), &sg, || "U() != L()ᵀ".into());
    c.ratio("chol.A=LLt", inp.a.sub(&L.mul(&L.t())).fro(), t * an, &sg, || "‖A − L·Lᵀ‖_F".into());
    let bm: DenseMatrix<T> = to_dense(&b);
    if let Some(r) = c.must("cholesky_solve_mut", || am.clone().cholesky_solve_mut(bm)) {
        match r {
            Ok(x) => {
                let X = from_m(&x);
                if (X.r, X.c) == (n, b.c) && finite(c, "chol.solve.finite", &sg, &[&X]) {
                    // Cholesky solve is backward stable w.r.t. A: residual <= c·ε·‖A‖‖X‖ (cond-independent)
                    c.ratio("chol.solve.residual", inp.a.mul(&X).sub(&b).fro(), t * (an * X.fro() + b.fro()), &sg, || "‖A·X − B‖_F".into());
                } else {
                    c.check("chol.solve.shape", (X.r, X.c) == (n, b.c), &sg, || format!("{}x{}", X.r, X.c));
                }
            }
            Err(e) => {
                c.check("chol.solve.ok", false, &sg, || format!("cholesky_solve_mut Err({})", e));
            }
        }
    }
}

fn chol_indef_t<T: RealNumber>(c: &mut Case) {
    // symmetric with a clearly negative eigenvalue: must be Err, never Ok, never panic
    let structured = c.rng.bool(0.25);
    let (a, kind): (Mat, String) = if structured {
        let k = c.rng.below(5);
        match k {
            0 => (Mat::from_rows(&[vec![0.0, 0.0], vec![0.0, -1.0]]), "diag(0,-1)".into()),
            1 => (Mat::from_rows(&[vec![0.0, 1.0], vec![1.0, 0.0]]), "[[0,1],[1,0]]".into()),
            2 => {
                let n = c.rng.us(1, 6);
                let mut m = Mat::eye(n);
                m.set(0, 0, -c.rng.uni(0.5, 3.0));
                (m, "negative-leading-entry".into())
            }
            3 => {
                // zero leading block then negative
                let n = c.rng.us(2, 6);
                let z = c.rng.us(1, n - 1);
                let mut m = Mat::zeros(n, n);
                for i in z..n {
                    m.set(i, i, if i == z { -1.0 } else { 1.0 });
                }
                (m, "zero-leading-block-then-negative".into())
            }
            _ => {
                let n = c.rng.us(2, 8);
                let mut m = Mat::eye(n);
                let i = c.rng.us(1, n - 1);
                m.set(i, i, -c.rng.uni(0.2, 2.0));
                (m, "identity-with-negative-diagonal-entry".into())
            }
        }
    } else {
        let n = size(&mut c.rng, 30);
        let q = rand_orth(&mut c.rng, n);
        let mut lam: Vec<f64> = (0..n).map(|_| c.rng.uni(0.2, 1.0) * if c.rng.bool(0.5) { 1.0 } else { -1.0 }).collect();
        if c.rng.bool(0.2) {
            for l in lam.iter_mut() {
                if c.rng.bool(0.3) {
                    *l = 0.0;
                }
            }
        }
        let i = c.rng.below(n);
        lam[i] = -c.rng.uni(0.1, 1.0) * 1.0_f64.max(lam.iter().fold(0.0f64, |m, x| m.max(x.abs())));
        let ql = Mat::from_fn(n, n, |i, j| q.at(i, j) * lam[j]);
        let mut a = ql.mul(&q.t());
        sym(&mut a);
        (a, "Q*diag(mixed signs)*Qt".into())
    };
    let scale = if structured { 1.0 } else { draw_scale(&mut c.rng) };
    let mut a = a.scale(scale);
    if width::<T>() == "f32" {
        a = a.round_f32();
    }
    let n = a.r;
    let (lam, _) = jacobi_eig(&a);
    let lmax = lam.iter().fold(0.0f64, |m, x| m.max(x.abs()));
    if !(lam[n - 1] <= -0.1 * lmax && lmax > 0.0) {
        c.skip("negative eigenvalue not clear enough after rounding");
        return;
    }
    let inp = Input { a, kind: format!("indefinite:{}", kind), scale, cond: f64::NAN };
    c.bucket(&format!("kind:indef:{}", if structured { kind.as_str() } else { "random" }));
    c.bucket(&format!("width:{}", width::<T>()));
    describe::<T>(c, "cholesky-indefinite", &inp, None);
    c.nontrivial();
    let sg = format!("{}/{}", width::<T>(), if structured { kind.clone() } else { "random".to_string() });
    let am: DenseMatrix<T> = to_dense(&inp.a);
    if let Some(r) = c.must("cholesky(indefinite)", || am.cholesky().map(|ch| from_m(&ch.L()))) {
        c.check("chol.rejects-indefinite", r.is_err(), &sg, || {
            format!("cholesky() returned Ok for a symmetric matrix with eigenvalues {:?}; L = {:?}", lam, r.as_ref().map(|l| l.d.clone()).unwrap_or_default())
        });
    }
}

// ---------------------------------------------------------------- SVD
fn svd_t<T: RealNumber>(c: &mut Case) {
    let shape = c.rng.below(3);
    let a_ = size(&mut c.rng, 40);
    let b_ = size(&mut c.rng, 40);
    let (m, n) = match shape {
        0 => (a_, a_),
        1 => (a_.max(b_), a_.min(b_)),
        _ => (a_.min(b_), a_.max(b_)),
    };
    let inp = match draw_input::<T>(c, m, n, true) {
        Some(i) => i,
        None => return,
    };
    let b = rhs::<T>(c, m, inp.scale);
    describe::<T>(c, "svd", &inp, Some(&b));
    let sg = sig::<T>(&inp);
    let a: DenseMatrix<T> = to_dense(&inp.a);
    let t = tau::<T>(m, n);
    let an = inp.a.fro();
    let svd = match c.must("svd", || a.svd()) {
        Some(Ok(s)) => s,
        Some(Err(e)) => {
            c.check("svd.ok", false, &sg, || format!("svd() Err({})", e));
            return;
        }
        None => return,
    };
    let (U, V, S) = (from_m(&svd.U), from_m(&svd.V), from_m(&svd.S()));
    let s: Vec<f64> = fv(&svd.s);
    if !finite(c, "svd.finite", &sg, &[&U, &V, &S]) || !c.check("svd.s-finite", s.iter().all(|x| x.is_finite()), &sg, || format!("{:?}", s)) {
        return;
    }
    let k = m.min(n);
    c.check("svd.shapes", U.r == m && V.r == n && V.c == n && s.len() >= k && U.c == s.len(), &sg, || format!("U {}x{} V {}x{} s {}", U.r, U.c, V.r, V.c, s.len()));
    if !(U.r == m && V.r == n && V.c == n && s.len() >= k && U.c == s.len()) {
        return;
    }
    c.check("svd.s-nonneg-sorted", s.iter().all(|x| *x >= 0.0) && s.windows(2).all(|w| w[0] >= w[1]), &sg, || format!("singular values not non-negative & non-increasing: {:?}", s));
    // S() consistent with s
    let sdiag_ok = (0..S.r).all(|i| (0..S.c).all(|j| if i == j && i < s.len() { S.at(i, j) == s[i] } else { S.at(i, j) == 0.0 }));
    c.check("svd.S=diag(s)", sdiag_ok && S.r == U.c && S.c == V.r, &sg, || "S() is not diag(s) of shape U.cols × V.rows".into());
    let us = Mat::from_fn(m, U.c, |i, j| U.at(i, j) * s[j]);
    c.ratio("svd.A=USVt", inp.a.sub(&us.mul(&V.t())).fro(), t * an, &sg, || "‖A − U·diag(s)·Vᵀ‖_F".into());
    c.ratio("svd.VtV=I", V.orth_err(), t, &sg, || "‖VᵀV − I‖_F".into());
    let uk = U.slice(0, m, 0, k);
    c.ratio("svd.UtU=I", uk.orth_err(), t, &sg, || "‖UᵀU − I‖_F over the leading min(m,n) columns".into());
    // singular values agree with the reference (full rank input): |s_i - σ_i| <= τ‖A‖
    let sref = singular_values(&inp.a);
    let dmax = (0..k).map(|i| (s[i] - sref[i]).abs()).fold(0.0f64, f64::max);
    c.ratio("svd.s=reference", dmax, t * an, &sg, || format!("impl {:?} vs Jacobi reference {:?}", &s[..k], &sref[..k]));
    if m >= n {
        let bm: DenseMatrix<T> = to_dense(&b);
        let use_mut = c.rng.bool(0.5);
        let r = if use_mut { c.must("svd_solve_mut", || a.clone().svd_solve_mut(bm)) } else { c.must("svd_solve", || a.svd_solve(bm)) };
        if let Some(r) = r {
            match r {
                Ok(x) => {
                    let Xf = from_m(&x);
                    if Xf.r < n || Xf.c != b.c {
                        c.check("svd.solve.shape", false, &sg, || format!("{}x{}", Xf.r, Xf.c));
                        return;
                    }
                    let X = Xf.slice(0, n, 0, b.c);
                    if finite(c, "svd.solve.finite", &sg, &[&X]) {
                        let r = inp.a.mul(&X).sub(&b);
                        if m == n {
                            c.ratio("svd.solve.residual", r.fro(), t * (an * X.fro() + b.fro()), &sg, || "‖A·X − B‖_F".into());
                        } else {
                            c.ratio("svd.solve.normal-eq", inp.a.t().mul(&r).fro(), t * an * (b.fro() + an * X.fro()), &sg, || "‖Aᵀ(A·X − B)‖_F".into());
                        }
                    }
                }
                Err(e) => {
                    c.check("svd.solve.ok", false, &sg, || format!("svd solve Err({})", e));
                }
            }
        }
    }
}

/// exactly rank-deficient (integer B·C, duplicated columns): least squares of minimum norm
fn svd_rankdef_t<T: RealNumber>(c: &mut Case) {
    let n = c.rng.us(2, 12);
    let m = c.rng.us(n, 16);
    let r = c.rng.us(1, n - 1);
    let dup = c.rng.bool(0.4);
    let (a, nullb): (Mat, Mat) = if dup {
        // r independent integer columns, the others exact copies -> null vectors e_j - e_src
        let base = Mat::from_fn(m, r, |_, _| c.rng.int(-4, 4) as f64);
        let src: Vec<usize> = (0..n).map(|j| if j < r { j } else { c.rng.below(r) }).collect();
        let a = Mat::from_fn(m, n, |i, j| base.at(i, src[j]));
        let mut nb = Mat::zeros(n, n - r);
        for j in r..n {
            nb.set(j, j - r, 1.0);
            nb.set(src[j], j - r, -1.0);
        }
        (a, nb)
    } else {
        // A = B·[I_r | C] with small integers: null(A) ⊇ columns of [[-C],[I]] (exact in integers)
        let b = Mat::from_fn(m, r, |_, _| c.rng.int(-3, 3) as f64);
        let cc = Mat::from_fn(r, n - r, |_, _| c.rng.int(-2, 2) as f64);
        let ic = Mat::eye(r).hstack(&cc);
        let a = b.mul(&ic);
        let nb = cc.scale(-1.0).vstack(&Mat::eye(n - r));
        (a, nb)
    };
    // rank must be exactly r (B has full column rank) — certified by the reference
    let sref = singular_values(&a);
    if !(sref[r - 1] > 1e-6 * sref[0].max(1e-300)) || a.mul(&nullb).max_abs() != 0.0 {
        c.skip("constructed matrix did not have the intended rank");
        return;
    }
    let b = {
        let k = c.rng.us(1, 3);
        let mut b = Mat::from_fn(m, k, |_, _| c.rng.int(-5, 5) as f64);
        if c.rng.bool(0.5) {
            b = b.add(&Mat::randn(&mut c.rng, m, k));
        }
        if width::<T>() == "f32" {
            b.round_f32()
        } else {
            b
        }
    };
    let inp = Input { a, kind: if dup { "rankdef:duplicated-columns".into() } else { "rankdef:integer-product".into() }, scale: 1.0, cond: f64::INFINITY };
    c.bucket(&format!("kind:{}", inp.kind));
    c.bucket(&format!("width:{}", width::<T>()));
    c.bucket(&format!("nullity:{}", (n - r).min(4)));
    describe::<T>(c, "svd-solve-rank-deficient", &inp, Some(&b));
    c.nontrivial();
    let sg = format!("{}/{}", width::<T>(), inp.kind);
    let am: DenseMatrix<T> = to_dense(&inp.a);
    let bm: DenseMatrix<T> = to_dense(&b);
    let t = tau::<T>(m, n);
    let an = inp.a.fro();
    if let Some(res) = c.must("svd_solve(rank-deficient)", || am.svd_solve(bm)) {
        match res {
            Ok(x) => {
                let Xf = from_m(&x);
                if Xf.r < n || Xf.c != b.c {
                    c.check("svd.rankdef.shape", false, &sg, || format!("{}x{}", Xf.r, Xf.c));
                    return;
                }
                let X = Xf.slice(0, n, 0, b.c);
                if !finite(c, "svd.rankdef.finite", &sg, &[&X]) {
                    return;
                }
                let rsd = inp.a.mul(&X).sub(&b);
                // gap between the smallest non-zero singular value and the rank threshold makes the
                // pseudo-inverse well defined; allow the amplification 1/σ_r relative to ‖A‖
                let amp = (sref[0] / sref[r - 1]).max(1.0);
                c.ratio("svd.rankdef.normal-eq", inp.a.t().mul(&rsd).fro(), 10.0 * t * amp * an * (b.fro() + an * X.fro()), &sg, || "‖Aᵀ(A·X − B)‖_F".into());
                // minimum norm  <=>  X ⟂ null(A)
                let nx = nullb.t().mul(&X).fro();
                c.ratio("svd.rankdef.min-norm", nx, 1e3 * t * amp * nullb.fro() * X.fro().max(1e-300), &sg, || "‖Nᵀ·X‖_F, N = exact null-space basis".into());
            }
            Err(e) => {
                c.check("svd.rankdef.ok", false, &sg, || format!("svd_solve Err({})", e));
            }
        }
    }
}

macro_rules! both {
    ($name:ident, $g:ident, $p32:expr) => {
        fn $name(c: &mut Case) {
            if c.rng.bool($p32) {
                $g::<f32>(c)
            } else {
                $g::<f64>(c)
            }
        }
    };
}
both!(lu, lu_t, 0.3);
both!(qr, qr_t, 0.3);
both!(chol, chol_t, 0.3);
both!(chol_indef, chol_indef_t, 0.3);
both!(svd, svd_t, 0.3);
both!(svd_rankdef, svd_rankdef_t, 0.3);

/// the six families on orders 41..140 (beyond the ordinary bound of 40)
fn large(c: &mut Case) {
    let g = c.index % 6;
    scverif::with_big(1, || match g {
        0 => lu(c),
        1 => qr(c),
        2 => chol(c),
        3 => chol_indef(c),
        4 => svd(c),
        _ => svd_rankdef(c),
    })
}

fn main() {
    runner::main(Spec {
        property: "C01",
        rule: "cases are drawn per family (lu, qr, chol, chol_indef, svd, svd_rankdef) from seeded structured generators: shape 1..40 (square / tall / wide), f64 or f32, nine structural kinds, rescaled by 1 / 10^u / 2^u with 10^u in [1e-12,1e12], condition number measured by an independent Jacobi SVD and bounded by 1e6 (in f32: 1e6 for LU / QR / Cholesky, half of the draws below 1e3; for the SVD family 0.1/(max(m,n)·eps), i.e. 2e4 at 40 rows, half of the draws below 1e3), 1..4 right-hand sides; a case is non-trivial when max(m,n) >= 2 (all rank-deficient and indefinite cases are); distinct = distinct hash of (operation, width, entries of A and B); right-hand sides are dense or structured (identity, signed unit vectors, columns with exactly zero head / tail, one zero column); large: the six families on orders 41..140",
        assumptions: vec![
            "f32 inputs of the SVD family are restricted to condition number <= 0.1/(max(m,n)·eps): the SVD solver applies the rank tolerance max(m,n)·eps·s_max, for which an f32 matrix of condition 1e6 is numerically rank-deficient; LU / QR / Cholesky are judged by backward-error residuals and get the full range",
            "oracle arithmetic is f64 with compensated sums on the already-rounded inputs",
            "tolerance tau = 100·max(m,n)·eps relative to ‖A‖_F (and ‖X‖, ‖B‖ for solves)",
        ],
        families: vec![
            Family::new("lu", 3000, 60000, lu),
            Family::new("qr", 3000, 60000, qr),
            Family::new("chol", 2500, 50000, chol),
            Family::new("chol_indef", 1500, 30000, chol_indef),
            Family::new("svd", 3500, 70000, svd),
            Family::new("svd_rankdef", 1500, 30000, svd_rankdef),
            Family::new("large", 40, 150, large),
        ],
        min_nontrivial: 2000,
        case_timeout_s: 120,
    });
}
