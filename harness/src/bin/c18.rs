//! C18 — One-hot encoding replaces categorical columns in place and keeps all other data;
//! unseen / non-integer values are errors; the category mapper's maps are mutually inverse.
//!
//! Oracle: a reference encoder written from the property statement only (first-appearance category
//! order per column, every categorical column expanded at its own position, every other column copied
//! bit for bit). The whole output is compared exactly, split into the three clauses of the statement
//! (shape / plain columns / indicator blocks) so that each clause has its own oracle id.
//!
//! `smartcore::preprocessing::data_traits` is a private module, so `Categorizable` cannot be named:
//! the encoder is instantiated at the two concrete element types through a macro.
use scverif::*;
use smartcore::linalg::naive::dense_matrix::DenseMatrix;
use smartcore::linalg::BaseMatrix;
use smartcore::preprocessing::categorical::{OneHotEncoder, OneHotEncoderParams};
use smartcore::preprocessing::series_encoder::CategoryMapper;
use std::collections::HashMap;
use std::fmt::Debug;
use std::hash::Hash;
use std::sync::OnceLock;

// ------------------------------------------------------------------------------------------------
// element width
// ------------------------------------------------------------------------------------------------
#[derive(Clone, Copy, PartialEq)]
enum W {
    F32,
    F64,
}

impl W {
    fn name(self) -> &'static str {
        match self {
            W::F32 => "f32",
            W::F64 => "f64",
        }
    }
    /// the value the library will see (inputs are rounded *before* the reference looks at them)
    fn round(self, x: f64) -> f64 {
        match self {
            W::F32 => x as f32 as f64,
            W::F64 => x,
        }
    }
}

enum Out {
    FitErr(String),
    TransformErr(String),
    Done(Mat),
}

macro_rules! encode_impl {
    ($name:ident, $t:ty) => {
        /// fit on `xf`, transform `xt` (or the very same matrix object when `xt` is None)
        fn $name(c: &mut Case, xf: &Mat, xt: Option<&Mat>, idx: &[usize]) -> Option<Out> {
            let a: DenseMatrix<$t> = to_dense(xf);
            let enc = match c.must("OneHotEncoder::fit", || OneHotEncoder::fit(&a, OneHotEncoderParams::from_cat_idx(idx)))? {
                Ok(e) => e,
                Err(e) => return Some(Out::FitErr(format!("{}", e))),
            };
            let b: Option<DenseMatrix<$t>> = xt.map(|m| to_dense(m));
            let target: &DenseMatrix<$t> = match &b {
                Some(m) => m,
                None => &a,
            };
            // transform is a function of (encoder, matrix): an earlier call with another matrix — here the narrowest
            // prefix of the fit matrix that still holds every categorical column, or the matrix without its last row —
            // must leave no trace
            let index = c.index;
            if index % 5 == 3 {
                let (r, cc) = a.shape();
                let wmin = idx.iter().cloned().max().map(|m| m + 1).unwrap_or(cc).min(cc);
                let other = if index % 2 == 1 && wmin < cc { a.slice(0..r, 0..wmin) } else { a.slice(0..(r - 1).max(1), 0..cc) };
                let _ = scverif::runner::guard(|| enc.transform(&other).map(|_| ()));
                c.bucket("another-transform-first");
            }
            match c.must("OneHotEncoder::transform", || enc.transform(target))? {
                Ok(m) => {
                    if index % 5 == 4 {
                        if let Some(Ok(m2)) = c.must("OneHotEncoder::transform(again)", || enc.transform(target)) {
                            let (g1, g2) = (from_m(&m), from_m(&m2));
                            let same = g1.r == g2.r && g1.c == g2.c && g1.d.iter().zip(g2.d.iter()).all(|(x, y)| x.to_bits() == y.to_bits());
                            c.check("transform.repeatable", same, "", || "two transform calls of one encoder on one matrix differ".to_string());
                        }
                    }
                    Some(Out::Done(from_m(&m)))
                }
                Err(e) => Some(Out::TransformErr(format!("{}", e))),
            }
        }
    };
}
encode_impl!(encode_f32, f32);
encode_impl!(encode_f64, f64);

fn encode(c: &mut Case, w: W, xf: &Mat, xt: Option<&Mat>, idx: &[usize]) -> Option<Out> {
    match w {
        W::F32 => encode_f32(c, xf, xt, idx),
        W::F64 => encode_f64(c, xf, xt, idx),
    }
}

// ------------------------------------------------------------------------------------------------
// reference encoder (from the statement)
// ------------------------------------------------------------------------------------------------
struct Reference {
    out: Mat,
    /// first output column of original column j
    pos: Vec<usize>,
    /// number of categories of original column j (0 = plain column)
    k: Vec<usize>,
    /// categories of column j in order of first appearance
    cats: Vec<Vec<f64>>,
}

fn first_appearance(col: &[f64]) -> Vec<f64> {
    let mut u: Vec<f64> = Vec::new();
    for v in col {
        if !u.iter().any(|x| x == v) {
            u.push(*v);
        }
    }
    u
}

fn reference(x: &Mat, cat: &[usize]) -> Reference {
    let (n, p) = (x.r, x.c);
    let mut pos = vec![0usize; p];
    let mut k = vec![0usize; p];
    let mut cats: Vec<Vec<f64>> = vec![Vec::new(); p];
    let mut cur = 0usize;
    for j in 0..p {
        pos[j] = cur;
        if cat.contains(&j) {
            cats[j] = first_appearance(&x.col(j));
            k[j] = cats[j].len();
            cur += k[j];
        } else {
            cur += 1;
        }
    }
    let mut out = Mat::zeros(n, cur);
    for j in 0..p {
        for r in 0..n {
            let v = x.at(r, j);
            if k[j] > 0 {
                if let Some(t) = cats[j].iter().position(|u| *u == v) {
                    out.set(r, pos[j] + t, 1.0);
                }
            } else {
                out.set(r, pos[j], v);
            }
        }
    }
    Reference { out, pos, k, cats }
}

/// Class of the column layout, derived from the input only (sorted categorical indices, category
/// counts, p). It is the signature of every placement oracle.
///   plain-after-2+-categorical        the column right after a categorical column that is not the first
///                                     categorical one and has >= 2 categories is a plain column
///   categorical-after-2+-categorical  ... is another categorical column
///   (the first such categorical column in column order decides)
///   0-categorical / 1-categorical / 2+-categorical:other   everything else, by number of categorical columns
fn layout_sig(p: usize, cat_sorted: &[usize], k: &[usize]) -> String {
    for (j, &cj) in cat_sorted.iter().enumerate() {
        if j >= 1 && k[cj] >= 2 && cj + 1 < p {
            return if cat_sorted.contains(&(cj + 1)) { "categorical-after-2+-categorical".into() } else { "plain-after-2+-categorical".into() };
        }
    }
    match cat_sorted.len() {
        0 => "0-categorical".into(),
        1 => "1-categorical".into(),
        _ => "2+-categorical:other".into(),
    }
}

fn same(a: f64, b: f64) -> bool {
    a.to_bits() == b.to_bits()
}

fn col_of(m: &Mat, j: usize) -> Vec<f64> {
    (0..m.r).map(|r| m.at(r, j)).collect()
}

/// where (if anywhere) the column `v` appears in `m`
fn find_col(m: &Mat, v: &[f64]) -> Vec<usize> {
    (0..m.c).filter(|&j| (0..m.r).all(|r| same(m.at(r, j), v[r]))).collect()
}

/// the three placement oracles of the statement; the bucket `placement-violated:<layout class>` counts
/// the violating cases per class so that the evidence shows whether a class fails always or sometimes
fn compare(c: &mut Case, x: &Mat, rf: &Reference, got: &Mat, sg: &str) {
    let before = c.violations.len();
    compare_inner(c, x, rf, got, sg);
    if c.violations.len() > before {
        c.bucket(&format!("placement-violated:{}", sg));
    }
}

fn compare_inner(c: &mut Case, x: &Mat, rf: &Reference, got: &Mat, sg: &str) {
    let (n, p) = (x.r, x.c);
    let shape_ok = got.r == rf.out.r && got.c == rf.out.c;
    c.check("onehot.shape", shape_ok, sg, || format!("output is {}x{}, expected {}x{} (n={}, p={}, category counts {:?})", got.r, got.c, rf.out.r, rf.out.c, n, p, rf.k));
    if !shape_ok {
        return;
    }
    // plain columns: unchanged (bit for bit) at the position the statement assigns
    let plain: Vec<usize> = (0..p).filter(|&j| rf.k[j] == 0).collect();
    if !plain.is_empty() {
        let bad: Vec<usize> = plain.iter().cloned().filter(|&j| !(0..n).all(|r| same(got.at(r, rf.pos[j]), x.at(r, j)))).collect();
        c.check("onehot.plain-columns", bad.is_empty(), sg, || {
            let j = bad[0];
            format!(
                "plain column {} {:?} must be output column {}, found there {:?}; it appears at output column(s) {:?}; mis-placed/changed plain columns {:?}; category counts per column {:?}; output row-major {:?}",
                j,
                col_of(x, j),
                rf.pos[j],
                col_of(got, rf.pos[j]),
                find_col(got, &col_of(x, j)),
                bad,
                rf.k,
                got.d
            )
        });
    }
    // categorical columns: k_j indicator columns at the column's own position
    let cat: Vec<usize> = (0..p).filter(|&j| rf.k[j] > 0).collect();
    if !cat.is_empty() {
        let mut bad: Vec<usize> = Vec::new();
        for &j in &cat {
            let ok = (0..n).all(|r| (0..rf.k[j]).all(|t| same(got.at(r, rf.pos[j] + t), rf.out.at(r, rf.pos[j] + t))));
            if !ok {
                bad.push(j);
            }
        }
        c.check("onehot.indicator-blocks", bad.is_empty(), sg, || {
            let j = bad[0];
            let (a, b) = (rf.pos[j], rf.pos[j] + rf.k[j]);
            format!(
                "categorical column {} (categories in first-appearance order {:?}) must become output columns {}..{}: expected block {:?}, found {:?}; wrong blocks for columns {:?}; category counts per column {:?}",
                j,
                rf.cats[j],
                a,
                b,
                rf.out.slice(0, n, a, b).rows(),
                got.slice(0, n, a, b).rows(),
                bad,
                rf.k
            )
        });
    }
}

// ------------------------------------------------------------------------------------------------
// input generators
// ------------------------------------------------------------------------------------------------
const SPECIAL_CODES: [u32; 9] = [0, 1, 2, 255, 256, 32767, 32768, 65534, 65535];

/// k distinct category codes in 0..=65535
fn distinct_codes(rng: &mut Rng, k: usize, style: usize) -> Vec<f64> {
    match style {
        0 => rng.perm(k).into_iter().map(|v| v as f64).collect(),
        1 => {
            let bases = [1usize, 7, 255, 1000, 65536 - k];
            let b = *rng.pick(&bases);
            rng.perm(k).into_iter().map(|v| (b + v) as f64).collect()
        }
        _ => {
            // a quarter of the sets: an arithmetic progression with a power-of-two stride (codes that coincide modulo
            // 2^j, or under a bit mask that is one bit too narrow)
            if rng.bool(0.25) {
                let stride = 1usize << rng.us(1, 12);
                let span = stride * (k.max(1) - 1);
                if span < 65536 {
                    let base = rng.below(65536 - span);
                    let mut v: Vec<f64> = (0..k).map(|i| (base + i * stride) as f64).collect();
                    rng.shuffle(&mut v);
                    return v;
                }
            }
            let mut v: Vec<u32> = Vec::new();
            while v.len() < k {
                let x = if rng.bool(0.2) { *rng.pick(&SPECIAL_CODES) } else if rng.bool(0.3) { rng.below(12) as u32 } else if rng.bool(0.4) { rng.below(256) as u32 } else { rng.below(65536) as u32 };
                if !v.contains(&x) {
                    v.push(x);
                }
            }
            v.into_iter().map(|x| x as f64).collect()
        }
    }
}

/// n values over the k codes, every code at least once (k <= n), random order
fn cat_column(rng: &mut Rng, n: usize, codes: &[f64]) -> Vec<f64> {
    let k = codes.len();
    let mut v: Vec<usize> = (0..k).collect();
    let skew = rng.bool(0.3);
    for _ in k..n {
        v.push(if skew && rng.bool(0.7) { 0 } else { rng.below(k) });
    }
    rng.shuffle(&mut v);
    v.into_iter().map(|i| codes[i]).collect()
}

/// plain column that can never be mistaken for an indicator column (no 0/1 entries)
fn plain_column(rng: &mut Rng, w: W, n: usize, j: usize, style: usize) -> Vec<f64> {
    let kind = match style {
        0 => 0,
        1 => 1,
        _ => rng.below(6),
    };
    (0..n)
        .map(|_| {
            let v = match kind {
                // clearly non-integer reals
                0 => {
                    let i = rng.int(-20, 20) as f64;
                    i + *rng.pick(&[0.5, 0.25, 0.75, 0.125, 0.375])
                }
                // integer valued, distinct per column, overlapping with typical category codes
                1 => ((j + 2) * 100) as f64 + rng.int(0, 3) as f64,
                2 => rng.normal() * 3.0 + 0.123,
                3 => -(rng.logu(1e-3, 1e3)),
                4 => {
                    let big = if w == W::F32 { 1e30 } else { 1e300 };
                    *rng.pick(&[big, -big, 1e-30, -1e-30, 65536.0, 70000.5, -3.0])
                }
                _ => {
                    if rng.bool(0.2) {
                        -0.0
                    } else {
                        rng.int(2, 9) as f64 + 0.5
                    }
                }
            };
            w.round(v)
        })
        .collect()
}

struct Input {
    x: Mat,
    /// categorical indices as handed to the library
    idx: Vec<usize>,
    /// the same, sorted
    cat: Vec<usize>,
}

/// `ks[j]` = number of categories of column j, 0 for a plain column; n >= max ks
fn build_input(rng: &mut Rng, w: W, n: usize, ks: &[usize], code_style: usize, plain_style: usize) -> Mat {
    let p = ks.len();
    let mut x = Mat::zeros(n, p);
    for j in 0..p {
        let col = if ks[j] > 0 {
            let codes = distinct_codes(rng, ks[j], code_style);
            cat_column(rng, n, &codes)
        } else {
            plain_column(rng, w, n, j, plain_style)
        };
        for r in 0..n {
            x.set(r, j, col[r]);
        }
    }
    x
}

fn order_name(idx: &[usize]) -> &'static str {
    if idx.len() < 2 {
        "order:trivial"
    } else if idx.windows(2).all(|w| w[0] < w[1]) {
        "order:sorted"
    } else if idx.windows(2).all(|w| w[0] > w[1]) {
        "order:reversed"
    } else {
        "order:mixed"
    }
}

fn describe(c: &mut Case, what: &str, w: W, inp: &Input, extra: Value) {
    c.describe(json!({"op": what, "width": w.name(), "categorical_idx": inp.idx, "X": mat_json(&inp.x), "extra": extra}));
}

fn layout_buckets(c: &mut Case, w: W, inp: &Input, rf: &Reference, lsig: &str) {
    let p = inp.x.c;
    let m = inp.cat.len();
    c.bucket(&format!("width:{}", w.name()));
    c.bucket(&format!("layout:{}", lsig));
    c.bucket(order_name(&inp.idx));
    c.bucket(&format!("categorical-columns:{}", if m >= 4 { "4+".to_string() } else { m.to_string() }));
    c.bucket(&format!("max-categories:{}", rf.k.iter().max().cloned().unwrap_or(0)));
    c.bucket_if(m == p && p > 0, "all-columns-categorical");
    c.bucket_if(m > 0 && inp.cat[0] == 0, "first-column-categorical");
    c.bucket_if(m > 0 && inp.cat[m - 1] == p - 1, "last-column-categorical");
    c.bucket_if(inp.cat.windows(2).any(|w| w[1] == w[0] + 1), "adjacent-categorical-columns");
    c.bucket_if(inp.x.r == 1, "n=1");
    c.bucket_if(p == 1, "p=1");
    let mut unsorted_first_app = false;
    let mut has0 = false;
    let mut hasmax = false;
    for j in 0..p {
        if rf.k[j] > 0 {
            unsorted_first_app |= rf.cats[j].windows(2).any(|w| w[0] > w[1]);
            has0 |= rf.cats[j].contains(&0.0);
            hasmax |= rf.cats[j].contains(&65535.0);
        }
    }
    c.bucket_if(unsorted_first_app, "first-appearance-order-differs-from-numeric-order");
    c.bucket_if(has0, "code-0-present");
    c.bucket_if(hasmax, "code-65535-present");
}

/// fit + transform of the same matrix, compared with the reference
fn run_same_matrix(c: &mut Case, what: &str, w: W, inp: &Input, extra: Value) {
    describe(c, what, w, inp, extra);
    let rf = reference(&inp.x, &inp.cat);
    let sg = layout_sig(inp.x.c, &inp.cat, &rf.k);
    layout_buckets(c, w, inp, &rf, &sg);
    if inp.x.c >= 2 && rf.k.iter().any(|&k| k >= 2) {
        c.nontrivial();
    }
    match encode(c, w, &inp.x, None, &inp.idx) {
        None => {}
        Some(Out::FitErr(e)) => {
            c.check("onehot.fit.ok", false, &sg, || format!("fit returned Err({}) for integer-coded categorical columns", e));
        }
        Some(Out::TransformErr(e)) => {
            c.check("onehot.fit.ok", true, &sg, String::new);
            c.check("onehot.transform.ok", false, &sg, || format!("transform of the fitted matrix returned Err({})", e));
        }
        Some(Out::Done(got)) => {
            c.check("onehot.fit.ok", true, &sg, String::new);
            c.check("onehot.transform.ok", true, &sg, String::new);
            compare(c, &inp.x, &rf, &got, &sg);
        }
    }
}

// ------------------------------------------------------------------------------------------------
// family `layouts`: exhaustive — p = 1..6, every column plain or categorical with 1..3 categories
// (Σ 4^p = 5460 layouts) × {f64, f32} × 3 value/ordering variants
// ------------------------------------------------------------------------------------------------
const N_LAYOUTS: u64 = 5460;
const LAYOUTS_TOTAL: u64 = N_LAYOUTS * 2 * 3;

fn decode_layout(mut r: u64) -> Vec<usize> {
    for p in 1..=6u32 {
        let cnt = 4u64.pow(p);
        if r < cnt {
            return (0..p).map(|j| ((r / 4u64.pow(j)) % 4) as usize).collect();
        }
        r -= cnt;
    }
    vec![0]
}

fn layouts(c: &mut Case) {
    let e = c.index % LAYOUTS_TOTAL;
    let ks = decode_layout(e % N_LAYOUTS);
    let rest = e / N_LAYOUTS;
    let w = if rest % 2 == 0 { W::F64 } else { W::F32 };
    let variant = (rest / 2) as usize;
    let kmax = ks.iter().max().cloned().unwrap_or(0).max(1);
    let n = kmax + c.rng.below(3);
    // variant 0: codes 0..k, non-integer plain data, sorted index list
    // variant 1: consecutive codes from a base, integer-valued plain data, reversed index list
    // variant 2: arbitrary codes <= 65535, mixed plain data, shuffled index list
    let x = build_input(&mut c.rng, w, n, &ks, variant, variant);
    let cat: Vec<usize> = (0..ks.len()).filter(|&j| ks[j] > 0).collect();
    let mut idx = cat.clone();
    match variant {
        0 => {}
        1 => idx.reverse(),
        _ => c.rng.shuffle(&mut idx),
    }
    let inp = Input { x, idx, cat };
    run_same_matrix(c, "layout", w, &inp, json!({"categories_per_column(0=plain)": ks, "variant": variant}));
}

// ------------------------------------------------------------------------------------------------
// family `orders`: exhaustive — p <= 4, every subset, every ordering of the index list, 1..3
// categories per categorical column (2968 elements) × {f64, f32}
// ------------------------------------------------------------------------------------------------
const N_ORDERS: u64 = 2968;
const ORDERS_TOTAL: u64 = N_ORDERS * 2;

fn permutations(items: &[usize]) -> Vec<Vec<usize>> {
    if items.len() <= 1 {
        return vec![items.to_vec()];
    }
    let mut out = Vec::new();
    for i in 0..items.len() {
        let mut rest = items.to_vec();
        let h = rest.remove(i);
        for mut t in permutations(&rest) {
            t.insert(0, h);
            out.push(t);
        }
    }
    out
}

/// (ks per column, ordered index list)
fn orders_table() -> &'static Vec<(Vec<usize>, Vec<usize>)> {
    static T: OnceLock<Vec<(Vec<usize>, Vec<usize>)>> = OnceLock::new();
    T.get_or_init(|| {
        let mut out = Vec::new();
        for p in 1..=4usize {
            for mask in 0..(1u32 << p) {
                let subset: Vec<usize> = (0..p).filter(|j| mask & (1 << j) != 0).collect();
                let m = subset.len() as u32;
                for perm in permutations(&subset) {
                    for code in 0..3u32.pow(m) {
                        let mut ks = vec![0usize; p];
                        for (t, &j) in subset.iter().enumerate() {
                            ks[j] = 1 + ((code / 3u32.pow(t as u32)) % 3) as usize;
                        }
                        out.push((ks, perm.clone()));
                    }
                }
            }
        }
        out
    })
}

fn orders(c: &mut Case) {
    let tab = orders_table();
    let e = (c.index % ORDERS_TOTAL) as usize;
    let (ks, idx) = tab[e % tab.len()].clone();
    let w = if e / tab.len() == 0 { W::F64 } else { W::F32 };
    let kmax = ks.iter().max().cloned().unwrap_or(0).max(1);
    let n = kmax + c.rng.below(3);
    let style = c.rng.below(3);
    let x = build_input(&mut c.rng, w, n, &ks, style, 0);
    let mut cat = idx.clone();
    cat.sort_unstable();
    let inp = Input { x, idx, cat };
    run_same_matrix(c, "order", w, &inp, json!({"categories_per_column(0=plain)": ks}));
}

// ------------------------------------------------------------------------------------------------
// family `random`
// ------------------------------------------------------------------------------------------------
fn random_layout(rng: &mut Rng, p: usize, force_cat: bool) -> (Vec<usize>, &'static str) {
    loop {
        let kind = rng.below(9);
        let (cat, name): (Vec<usize>, &'static str) = match kind {
            0 => (vec![], "none"),
            1 => ((0..p).collect(), "all"),
            2 => (vec![0], "first"),
            3 => (vec![p - 1], "last"),
            4 => (if p >= 2 { vec![0, p - 1] } else { vec![0] }, "first+last"),
            5 => {
                // adjacent run
                let len = rng.us(1, p.min(4));
                let s = rng.us(0, p - len);
                ((s..s + len).collect(), "adjacent-run")
            }
            6 => (vec![rng.below(p)], "single"),
            _ => ((0..p).filter(|_| rng.bool(0.45)).collect(), "random-subset"),
        };
        if force_cat && cat.is_empty() {
            continue;
        }
        return (cat, name);
    }
}

fn random_input(c: &mut Case, w: W, force_cat: bool) -> (Input, Vec<usize>, &'static str) {
    let big = scverif::big() > 0;
    let n = if big {
        c.rng.us(300, 600)
    } else if c.rng.bool(0.1) {
        c.rng.us(1, 3)
    } else {
        c.rng.us(1, 40)
    };
    let p = if c.rng.bool(0.1) { 1 } else { c.rng.us(1, 10) };
    let (cat, lname) = random_layout(&mut c.rng, p, force_cat);
    let mut ks = vec![0usize; p];
    for &j in &cat {
        // the `large` family: 65..280 categories in a column
        ks[j] = if big && c.rng.bool(0.6) { c.rng.us(65, 280) } else { c.rng.us(1, 6).min(n) };
    }
    let x = build_input(&mut c.rng, w, n, &ks, 2, 2);
    let mut idx = cat.clone();
    match c.rng.below(4) {
        0 => {}
        1 => idx.reverse(),
        _ => c.rng.shuffle(&mut idx),
    }
    (Input { x, idx, cat }, ks, lname)
}

fn pick_w(c: &mut Case) -> W {
    if c.rng.bool(0.4) {
        W::F32
    } else {
        W::F64
    }
}

fn random(c: &mut Case) {
    let w = pick_w(c);
    let (inp, ks, lname) = random_input(c, w, false);
    c.bucket(&format!("generator:{}", lname));
    run_same_matrix(c, "random", w, &inp, json!({"categories_per_column(0=plain)": ks, "generator": lname}));
}

// ------------------------------------------------------------------------------------------------
// family `unseen`: a value that was not seen while fitting -> transform must return Err
// ------------------------------------------------------------------------------------------------
fn unseen(c: &mut Case) {
    let w = pick_w(c);
    let (inp, ks, _) = random_input(c, w, true);
    let rf = reference(&inp.x, &inp.cat);
    let n = inp.x.r;
    let m = inp.cat.len();
    // offending categorical column
    let which = match c.rng.below(3) {
        0 => 0,
        1 => m - 1,
        _ => c.rng.below(m),
    };
    let j = inp.cat[which];
    let seen = &rf.cats[j];
    // candidate unseen codes
    let mut kind = *c.rng.pick(&["new-code", "code-of-another-categorical-column", "neighbour-of-seen-code", "extreme-code", "seen-code-plus-multiple-of-65536"]);
    let mut val: Option<f64> = None;
    if kind == "seen-code-plus-multiple-of-65536" {
        // an unseen integer beyond the range of the internal 16-bit category code that is congruent to a
        // fitted code (exactly representable in f32 and f64); the largest fitted code is avoided because a
        // saturating conversion maps every large value onto 65535
        let s = *c.rng.pick(seen);
        let v = s + 65536.0 * c.rng.us(1, 3) as f64;
        if seen.contains(&65535.0) {
            kind = "new-code";
        } else {
            val = Some(v);
        }
    }
    if kind == "code-of-another-categorical-column" {
        let mut cands: Vec<f64> = Vec::new();
        for &o in &inp.cat {
            if o != j {
                for v in &rf.cats[o] {
                    if !seen.contains(v) && !cands.contains(v) {
                        cands.push(*v);
                    }
                }
            }
        }
        if cands.is_empty() {
            kind = "new-code";
        } else {
            val = Some(*c.rng.pick(&cands));
        }
    }
    if kind == "neighbour-of-seen-code" {
        let s = *c.rng.pick(seen);
        let cands: Vec<f64> = [s - 1.0, s + 1.0].iter().cloned().filter(|v| *v >= 0.0 && *v <= 65535.0 && !seen.contains(v)).collect();
        if cands.is_empty() {
            kind = "new-code";
        } else {
            val = Some(*c.rng.pick(&cands));
        }
    }
    if kind == "extreme-code" {
        let cands: Vec<f64> = [0.0, 65535.0].iter().cloned().filter(|v| !seen.contains(v)).collect();
        if cands.is_empty() {
            kind = "new-code";
        } else {
            val = Some(*c.rng.pick(&cands));
        }
    }
    let val = match val {
        Some(v) => v,
        None => loop {
            let v = c.rng.below(65536) as f64;
            if !seen.contains(&v) {
                break v;
            }
        },
    };
    let rows: Vec<usize> = match c.rng.below(4) {
        0 => vec![0],
        1 => vec![n - 1],
        2 => (0..n).collect(),
        _ => vec![c.rng.below(n)],
    };
    let mut xt = inp.x.clone();
    for &r in &rows {
        xt.set(r, j, val);
    }
    c.describe(json!({"op": "unseen", "width": w.name(), "categorical_idx": inp.idx, "X_fit": mat_json(&inp.x),
        "transform": {"same as X_fit except column": j, "rows": rows, "value": val}, "kind": kind, "categories_per_column(0=plain)": ks}));
    c.nontrivial();
    c.bucket(&format!("width:{}", w.name()));
    c.bucket(&format!("unseen:{}", kind));
    c.bucket(&format!("unseen-in:{}", if m == 1 { "only-categorical-column" } else if which == 0 { "first-categorical-column" } else if which == m - 1 { "last-categorical-column" } else { "middle-categorical-column" }));
    c.bucket_if(rows.len() == n && n > 1, "unseen:every-row");
    let sg = format!("{}/{}", w.name(), kind);
    match encode(c, w, &inp.x, Some(&xt), &inp.idx) {
        None => {}
        Some(Out::FitErr(e)) => {
            c.check("onehot.fit.ok", false, &sg, || format!("fit returned Err({}) for integer-coded categorical columns", e));
        }
        Some(Out::TransformErr(_)) => {
            c.check("onehot.transform.unseen-is-error", true, &sg, String::new);
        }
        Some(Out::Done(got)) => {
            c.check("onehot.transform.unseen-is-error", false, &sg, || {
                format!("column {} was fitted with categories {:?}; transforming value {} in rows {:?} returned Ok: {:?}", j, seen, val, rows, got.rows())
            });
        }
    }
}

// ------------------------------------------------------------------------------------------------
// family `noninteger`: a non-integer value in a categorical column -> fit must return Err
// ------------------------------------------------------------------------------------------------
fn noninteger(c: &mut Case) {
    let w = pick_w(c);
    let (mut inp, ks, _) = random_input(c, w, true);
    let n = inp.x.r;
    let m = inp.cat.len();
    let which = match c.rng.below(3) {
        0 => 0,
        1 => m - 1,
        _ => c.rng.below(m),
    };
    let j = inp.cat[which];
    let kind = *c.rng.pick(&["half", "binary-fraction", "random-fraction", "negative-fraction", "fraction-of-large-code"]);
    let rows: Vec<usize> = match c.rng.below(4) {
        0 => vec![0],
        1 => vec![n - 1],
        2 => (0..n).collect(),
        _ => vec![c.rng.below(n)],
    };
    let mut vals: Vec<f64> = Vec::new();
    for &r in &rows {
        let base = inp.x.at(r, j);
        let v = match kind {
            "half" => base.min(65000.0) + 0.5,
            "binary-fraction" => base.min(65000.0) + *c.rng.pick(&[0.25, 0.75, 0.125, 0.875, 0.0625]),
            "random-fraction" => c.rng.int(0, 999) as f64 + c.rng.uni(0.01, 0.99),
            "negative-fraction" => -(c.rng.int(0, 50) as f64) - *c.rng.pick(&[0.5, 0.25, 0.75]),
            _ => c.rng.int(60000, 65534) as f64 + *c.rng.pick(&[0.5, 0.25, 0.75]),
        };
        let v = w.round(v);
        vals.push(v);
        inp.x.set(r, j, v);
    }
    // the generator guarantees a clear distance from every integer (>= 0.009 after rounding to f32)
    let clear = vals.iter().all(|v| (v - v.round()).abs() >= 0.009);
    if !clear {
        c.skip("generated value not clearly non-integer after rounding");
        return;
    }
    c.describe(json!({"op": "noninteger", "width": w.name(), "categorical_idx": inp.idx, "X": mat_json(&inp.x),
        "non_integer": {"column": j, "rows": rows, "values": vals}, "kind": kind, "categories_per_column(0=plain)": ks}));
    c.nontrivial();
    c.bucket(&format!("width:{}", w.name()));
    c.bucket(&format!("noninteger:{}", kind));
    c.bucket(&format!("noninteger-in:{}", if m == 1 { "only-categorical-column" } else if which == 0 { "first-categorical-column" } else if which == m - 1 { "last-categorical-column" } else { "middle-categorical-column" }));
    c.bucket_if(rows.len() == n && n > 1, "noninteger:every-row");
    let sg = format!("{}/{}", w.name(), kind);
    let detail = |what: &str| format!("categorical column {} holds {:?} in rows {:?}; {}", j, vals, rows, what);
    match encode(c, w, &inp.x, None, &inp.idx) {
        None => {}
        Some(Out::FitErr(_)) => {
            c.check("onehot.fit.non-integer-is-error", true, &sg, String::new);
        }
        Some(Out::TransformErr(e)) => {
            c.check("onehot.fit.non-integer-is-error", false, &sg, || detail(&format!("fit returned Ok (transform then failed with {})", e)));
        }
        Some(Out::Done(_)) => {
            c.check("onehot.fit.non-integer-is-error", false, &sg, || detail("fit and transform returned Ok"));
        }
    }
}

/// Values a hair above an integer code (a few ulps up to 5e-4: `(0.1 + 0.2) * 10.0`, a code that went through a lossy
/// unit conversion). The statement leaves open whether such a cell counts as "non-integer"; whichever way `fit` decides,
/// it has to stand by it: either fit returns an error, or fitting *and* transforming the same matrix succeed and give the
/// encoding of the matrix with the exact codes.
fn nearinteger(c: &mut Case) {
    let w = pick_w(c);
    let (mut inp, ks, _) = random_input(c, w, true);
    let n = inp.x.r;
    let m = inp.cat.len();
    let j = inp.cat[c.rng.below(m)];
    let exact = inp.x.clone();
    let rows: Vec<usize> = if c.rng.bool(0.5) { vec![c.rng.below(n)] } else { (0..n).filter(|_| c.rng.bool(0.5)).collect() };
    if rows.is_empty() {
        c.skip("no row drawn");
        return;
    }
    let ulp = if matches!(w, W::F32) { f32::EPSILON as f64 } else { f64::EPSILON };
    let mut vals = Vec::new();
    for &r in &rows {
        let base = inp.x.at(r, j);
        let off = if c.rng.bool(0.6) { base.max(1.0) * ulp * c.rng.int(1, 4) as f64 } else { c.rng.logu(1e-9, 5e-4) };
        let v = w.round(base + off);
        if !(v > base && v - base < 9e-4 && v < 65535.0) {
            c.skip("offset lost in rounding or too large for the width");
            return;
        }
        vals.push(v);
        inp.x.set(r, j, v);
    }
    c.describe(json!({"op": "near-integer cells", "width": w.name(), "categorical_idx": inp.idx, "X": mat_json(&inp.x),
        "near_integer": {"column": j, "rows": rows, "values": vals}, "categories_per_column(0=plain)": ks}));
    c.nontrivial();
    c.bucket(&format!("width:{}", w.name()));
    let sg = w.name().to_string();
    match encode(c, w, &inp.x, None, &inp.idx) {
        None => {}
        Some(Out::FitErr(_)) => c.bucket("nearinteger:fit-rejects"),
        Some(Out::TransformErr(e)) => {
            c.check("onehot.nearinteger.fit-ok=>transform-ok", false, &sg, || format!("fit accepted categorical column {} holding {:?} in rows {:?}, but transforming the same matrix returned Err({})", j, vals, rows, e));
        }
        Some(Out::Done(got)) => {
            c.bucket("nearinteger:fit-accepts");
            c.check("onehot.nearinteger.fit-ok=>transform-ok", true, &sg, String::new);
            // the encoding of the matrix with the exact codes, except that the touched plain cells do not exist (the column is categorical)
            let rf = reference(&exact, &inp.cat);
            let lsig = layout_sig(exact.c, &inp.cat, &rf.k);
            compare(c, &exact, &rf, &got, &format!("nearinteger/{}", lsig));
        }
    }
}

// ------------------------------------------------------------------------------------------------
// family `mapper`: CategoryMapper
// ------------------------------------------------------------------------------------------------
const MAPPER_ORACLES: [&str; 8] = [
    "mapper.first-appearance-order",
    "mapper.get_num-get_cat-inverse",
    "mapper.unseen-is-none",
    "mapper.one-hot",
    "mapper.one-hot-inverse",
    "mapper.ordinal",
    "mapper.from_positional_category_vec",
    "mapper.from_category_map",
];

fn unit(k: usize, i: usize) -> Vec<f64> {
    (0..k).map(|t| if t == i { 1.0 } else { 0.0 }).collect()
}

/// all maps of one mapper against the expected category list `cats` (position = index)
/// `ctor`: Some(o) attributes every failure to oracle `o` (the derived constructors), None keeps the
/// per-map oracle ids.
fn mapper_maps<C: Hash + Eq + Clone + Debug>(m: &CategoryMapper<C>, cats: &[C], unseen: &[C], pre: &str, out: &mut Vec<(usize, String)>, ctor: Option<usize>) {
    let k = cats.len();
    let mut fails: Vec<(usize, String)> = Vec::new();
    mapper_maps_inner(m, cats, unseen, pre, &mut fails, k);
    for (o, d) in fails {
        out.push((ctor.unwrap_or(o), d));
    }
}

fn mapper_maps_inner<C: Hash + Eq + Clone + Debug>(m: &CategoryMapper<C>, cats: &[C], unseen: &[C], pre: &str, fails: &mut Vec<(usize, String)>, k: usize) {
    // first-appearance order / agreement of the category list
    if m.num_categories() != k || m.get_categories() != cats {
        fails.push((0, format!("{}: num_categories {} categories {:?}, expected {:?}", pre, m.num_categories(), m.get_categories(), cats)));
        return;
    }
    for (i, cat) in cats.iter().enumerate() {
        // category -> index -> category
        match m.get_num(cat) {
            Some(&g) if g == i => {}
            other => fails.push((1, format!("{}: get_num({:?}) = {:?}, expected Some({})", pre, cat, other, i))),
        }
        if m.get_cat(i) != cat {
            fails.push((1, format!("{}: get_cat({}) = {:?}, expected {:?}", pre, i, m.get_cat(i), cat)));
        }
        if let Some(&g) = m.get_num(cat) {
            if g < k && m.get_cat(g) != cat {
                fails.push((1, format!("{}: get_cat(get_num({:?})) = {:?}", pre, cat, m.get_cat(g))));
            }
        }
        if m.get_num(m.get_cat(i)) != Some(&i) {
            fails.push((1, format!("{}: get_num(get_cat({})) = {:?}", pre, i, m.get_num(m.get_cat(i)))));
        }
        // one-hot
        let e = unit(k, i);
        let oh64: Option<Vec<f64>> = m.get_one_hot::<f64, Vec<f64>>(cat);
        let oh32: Option<Vec<f32>> = m.get_one_hot::<f32, Vec<f32>>(cat);
        if oh64.as_ref() != Some(&e) {
            fails.push((3, format!("{}: get_one_hot::<f64>({:?}) = {:?}, expected {:?}", pre, cat, oh64, e)));
        }
        let e32: Vec<f32> = e.iter().map(|v| *v as f32).collect();
        if oh32.as_ref() != Some(&e32) {
            fails.push((3, format!("{}: get_one_hot::<f32>({:?}) = {:?}, expected {:?}", pre, cat, oh32, e32)));
        }
        // inverse one-hot ∘ one-hot = id, one-hot ∘ inverse one-hot = id
        if let Some(v) = oh64 {
            match m.invert_one_hot::<f64, Vec<f64>>(v) {
                Ok(back) if &back == cat => {}
                other => fails.push((4, format!("{}: invert_one_hot(get_one_hot({:?})) = {:?}", pre, cat, other.map_err(|e| format!("{}", e))))),
            }
        }
        match m.invert_one_hot::<f64, Vec<f64>>(e.clone()) {
            Ok(back) => {
                if &back != cat {
                    fails.push((4, format!("{}: invert_one_hot(e_{}) = {:?}, expected {:?}", pre, i, back, cat)));
                }
                let again: Option<Vec<f64>> = m.get_one_hot::<f64, Vec<f64>>(&back);
                if again.as_ref() != Some(&e) {
                    fails.push((4, format!("{}: get_one_hot(invert_one_hot(e_{})) = {:?}", pre, i, again)));
                }
            }
            Err(err) => fails.push((4, format!("{}: invert_one_hot(e_{}) = Err({})", pre, i, err))),
        }
        match m.invert_one_hot::<f32, Vec<f32>>(e32.clone()) {
            Ok(back) if &back == cat => {}
            other => fails.push((4, format!("{}: invert_one_hot::<f32>(e_{}) = {:?}", pre, i, other.map_err(|e| format!("{}", e))))),
        }
        // ordinal
        let o64: Option<f64> = m.get_ordinal::<f64>(cat);
        let o32: Option<f32> = m.get_ordinal::<f32>(cat);
        if o64 != Some(i as f64) || o32 != Some(i as f32) {
            fails.push((5, format!("{}: get_ordinal({:?}) = {:?} / {:?}, expected {}", pre, cat, o64, o32, i)));
        }
    }
    for u in unseen {
        let oh: Option<Vec<f64>> = m.get_one_hot::<f64, Vec<f64>>(u);
        let od: Option<f64> = m.get_ordinal::<f64>(u);
        if m.get_num(u).is_some() || oh.is_some() || od.is_some() {
            fails.push((2, format!("{}: category {:?} was never seen but get_num = {:?}, get_one_hot = {:?}, get_ordinal = {:?}", pre, u, m.get_num(u), oh, od)));
        }
    }
}

fn mapper_battery<C: Hash + Eq + Clone + Debug>(c: &mut Case, seq: &[C], unseen: &[C], sg: &str) {
    // expected categories: order of first appearance
    let mut cats: Vec<C> = Vec::new();
    for v in seq {
        if !cats.contains(v) {
            cats.push(v.clone());
        }
    }
    let k = cats.len();
    if k >= 2 {
        c.nontrivial();
    }
    c.bucket(&format!("mapper-categories:{}", if k >= 8 { "8+".to_string() } else { k.to_string() }));
    c.bucket_if(seq.len() > k, "mapper:repeated-categories");
    c.bucket_if(seq.is_empty(), "mapper:empty-series");
    let fails = c.must("CategoryMapper", || {
        let mut fails: Vec<(usize, String)> = Vec::new();
        let fitted = CategoryMapper::fit_to_iter(seq.iter().cloned());
        mapper_maps(&fitted, &cats, unseen, "fit_to_iter", &mut fails, None);
        let pos = CategoryMapper::from_positional_category_vec(cats.clone());
        mapper_maps(&pos, &cats, unseen, "from_positional_category_vec", &mut fails, Some(6));
        let map: HashMap<C, usize> = cats.iter().cloned().enumerate().map(|(i, v)| (v, i)).collect();
        let fm = CategoryMapper::from_category_map(map);
        mapper_maps(&fm, &cats, unseen, "from_category_map", &mut fails, Some(7));
        // a mapper rebuilt from the fitted mapper's own category list is the same mapper
        let re = CategoryMapper::from_positional_category_vec(fitted.get_categories().to_vec());
        if re.get_categories() != fitted.get_categories() {
            fails.push((6, "from_positional_category_vec(fitted.get_categories()) differs from the fitted mapper".to_string()));
        }
        fails
    });
    let fails = match fails {
        Some(f) => f,
        None => return,
    };
    for (o, name) in MAPPER_ORACLES.iter().enumerate() {
        let mine: Vec<&String> = fails.iter().filter(|(fo, _)| *fo == o).map(|(_, d)| d).collect();
        if o == 2 && unseen.is_empty() {
            continue;
        }
        if k == 0 && (1..=5).contains(&o) && o != 2 {
            continue;
        }
        c.check(name, mine.is_empty(), sg, || mine.iter().take(3).map(|s| s.as_str()).collect::<Vec<_>>().join(" | "));
    }
}

fn rand_string(rng: &mut Rng) -> String {
    let alphabet = ["a", "b", "c", "A", "dog", "cat", " ", "é", "猫", "0", "1", "-"];
    let len = rng.below(4);
    (0..len).map(|_| *rng.pick(&alphabet)).collect::<Vec<_>>().join("")
}

fn mapper(c: &mut Case) {
    let len = match c.rng.below(10) {
        0 => 0,
        1 => 1,
        _ => c.rng.us(2, 60),
    };
    // the `large` family: 65..300 categories (more than a machine word has bits), every one of them present
    let big = scverif::big() > 0;
    let a = if big { c.rng.us(65, 300) } else { c.rng.us(1, 12) };
    let len = if big { c.rng.us(a, 3 * a) } else { len };
    let ty = if big { 3 } else { c.rng.below(4) };
    let skew = !big && c.rng.bool(0.3);
    let draw = |rng: &mut Rng, a: usize| if skew && rng.bool(0.6) { 0 } else { rng.below(a) };
    match ty {
        0 => {
            // u16 codes (the encoder's category type)
            let codes: Vec<u16> = distinct_codes(&mut c.rng, a + 3, 2).into_iter().map(|v| v as u16).collect();
            let seq: Vec<u16> = (0..len).map(|_| codes[draw(&mut c.rng, a)]).collect();
            let unseen: Vec<u16> = codes[a..].to_vec();
            c.describe(json!({"op": "mapper", "type": "u16", "series": seq, "unseen": unseen}));
            c.bucket("mapper-type:u16");
            mapper_battery(c, &seq, &unseen, "u16");
        }
        1 => {
            let mut al: Vec<String> = Vec::new();
            let mut guard_n = 0;
            while al.len() < a + 3 && guard_n < 10000 {
                let s = rand_string(&mut c.rng);
                if !al.contains(&s) {
                    al.push(s);
                }
                guard_n += 1;
            }
            if al.len() < a + 3 {
                c.skip("could not draw enough distinct strings");
                return;
            }
            let seq: Vec<String> = (0..len).map(|_| al[draw(&mut c.rng, a)].clone()).collect();
            let unseen: Vec<String> = al[a..].to_vec();
            c.describe(json!({"op": "mapper", "type": "String", "series": seq, "unseen": unseen}));
            c.bucket("mapper-type:String");
            c.bucket_if(seq.iter().any(|s| s.is_empty()), "mapper:empty-string-category");
            mapper_battery(c, &seq, &unseen, "String");
        }
        2 => {
            let mut al: Vec<i64> = Vec::new();
            while al.len() < a + 3 {
                let v = if c.rng.bool(0.2) { *c.rng.pick(&[i64::MIN, i64::MAX, 0, -1, 1]) } else { c.rng.int(-50, 50) };
                if !al.contains(&v) {
                    al.push(v);
                }
            }
            let seq: Vec<i64> = (0..len).map(|_| al[draw(&mut c.rng, a)]).collect();
            let unseen: Vec<i64> = al[a..].to_vec();
            c.describe(json!({"op": "mapper", "type": "i64", "series": seq, "unseen": unseen}));
            c.bucket("mapper-type:i64");
            mapper_battery(c, &seq, &unseen, "i64");
        }
        _ => {
            let al: Vec<usize> = c.rng.perm(a + 3);
            let seq: Vec<usize> = (0..len).map(|_| al[draw(&mut c.rng, a)]).collect();
            let unseen: Vec<usize> = al[a..].to_vec();
            c.describe(json!({"op": "mapper", "type": "usize", "series": seq, "unseen": unseen}));
            c.bucket("mapper-type:usize");
            mapper_battery(c, &seq, &unseen, "usize");
        }
    }
}

/// encoders over columns with 65..280 categories on 300..600 rows, mappers over 65..300 categories (beyond the ordinary
/// bounds of 6 and 12)
fn large(c: &mut Case) {
    let g = c.index % 2;
    scverif::with_big(1, || match g {
        0 => random(c),
        _ => mapper(c),
    })
}

fn main() {
    assert_eq!(orders_table().len() as u64, N_ORDERS, "size of the enumerated (subset, ordering, category counts) table");
    runner::main(Spec {
        property: "C18",
        rule: "layouts: exhaustive over p=1..6, every column plain or categorical with 1..3 categories (5460 layouts) x {f64,f32} x 3 value/index-order variants; orders: exhaustive over p<=4, every subset, every ordering of the index list, 1..3 categories (2968) x {f64,f32}; random: n 1..40, p 1..10, 1..6 categories, layouts none/all/first/last/first+last/adjacent-run/single/random-subset, shuffled index list, arbitrary codes 0..65535; unseen / noninteger: a random valid input with one categorical column made to hold an unseen code (transform) or a clearly non-integer value (fit); mapper: CategoryMapper over u16/String/i64/usize series of length 0..60. An encoder case is non-trivial when p >= 2 and some categorical column has >= 2 categories; error cases always are; a mapper case when it has >= 2 categories. Distinct = distinct hash of the materialised input; large: encoder columns with 65..280 categories on 300..600 rows, mappers over 65..300 categories; in one case of five another matrix (a narrower prefix or one row less) is transformed first, in one of five the transform is repeated and must be bit-identical",
        assumptions: vec![
            "category codes are non-negative integers <= 65535 (exactly representable in f32 and in the encoder's u16 category type)",
            "DenseMatrix<f64> and DenseMatrix<f32> only (other backends are C20's business)",
            "'unchanged' for plain columns is bit equality (including -0.0 and 1e300); plain data is finite",
            "non-integer test values keep a distance >= 0.009 from every integer (the library tolerates 0.001)",
            "unseen test values are integer codes in 0..=65535 that do not occur in the fitted column",
            "the signature of a placement violation is the layout class computed from the input alone (see layout_sig)",
        ],
        families: vec![
            Family::new("layouts", LAYOUTS_TOTAL, LAYOUTS_TOTAL, layouts).exhaustive(true, true),
            Family::new("orders", ORDERS_TOTAL, ORDERS_TOTAL, orders).exhaustive(true, true),
            Family::new("random", 20000, 300000, random),
            Family::new("unseen", 4000, 50000, unseen),
            Family::new("noninteger", 4000, 50000, noninteger),
            Family::new("nearinteger", 2000, 25000, nearinteger),
            Family::new("mapper", 5000, 60000, mapper),
            Family::new("large", 200, 4000, large),
        ],
        min_nontrivial: 8000,
        case_timeout_s: 120,
    });
}
